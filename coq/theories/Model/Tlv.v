(** Executable model of the Matter TLV codec of rs-matter
    (rs-matter/src/tlv.rs, tlv/read.rs, tlv/write.rs, tlv/traits.rs).

    The reader is transcribed function by function from [read.rs]
    ([TLVSequence] / [TLVElement] are newtypes over a byte slice; a slice
    is a [list N] here and every sub-slice is taken with [get_from] /
    [get_to], the models of [slice.get(n..)] / [slice.get(..n)]).
    - [?] on a [None]/[Err]            |-> [RErr code]
    - [unwrap!], indexing, plain [+]   |-> [RPanic site] when it would abort
      (profile with overflow checks; [usize] is 64 bit)
    - every loop runs on explicit fuel  |-> [RFuel] when it runs out
    The model is of the REPAIRED reader (fix commits listed in
    design.d/C16.md); the two functions that panicked before the repair
    are kept as [*_legacy] for the recorded refutation.
    No proofs in this file. *)
From Coq Require Import NArith ZArith List Bool.
Import ListNotations.
Open Scope N_scope.

Definition bytes := list N.

Definition two63 : N := 9223372036854775808.
Definition two64 : N := 18446744073709551616.

(** * Results *)

Inductive rres (A : Type) : Type :=
| ROk (v : A)
| RErr (code : N)
| RPanic (site : N)
| RFuel.
Arguments ROk {A} v.
Arguments RErr {A} code.
Arguments RPanic {A} site.
Arguments RFuel {A}.

Definition rbind {A B} (r : rres A) (f : A -> rres B) : rres B :=
  match r with
  | ROk v => f v
  | RErr c => RErr c
  | RPanic s => RPanic s
  | RFuel => RFuel
  end.

Notation "'let!' x ':=' r 'in' k" := (rbind r (fun x => k))
  (at level 200, x pattern, r at level 100, k at level 200, right associativity).

(** [ErrorCode]s used by the reader *)
Definition E_TM : N := 1.        (* TLVTypeMismatch *)
Definition E_INVDATA : N := 2.   (* InvalidData *)
Definition E_INV : N := 3.       (* Invalid *)
Definition E_NOTFOUND : N := 4.  (* NotFound *)

(** panic sites *)
Definition P_UNWRAP_TAGSTART : N := 1.  (* unwrap!(self.tag_start()) in value_len_start *)
Definition P_TRYINTO : N := 2.          (* unwrap!(slice.try_into()) *)
Definition P_INDEX : N := 3.            (* slice[i] *)
Definition P_LEVEL : N := 4.            (* level += 1 / nesting += 1 *)
Definition P_LEN_ADD : N := 5.          (* legacy: 1 + tag + lenlen + value_len, len += .. *)
Definition P_NEST_SUB : N := 6.         (* legacy: nesting -= 1 *)

Definition ok_or {A} (e : N) (o : option A) : rres A :=
  match o with Some v => ROk v | None => RErr e end.

(** * Slices *)

Definition blen (s : bytes) : N := N.of_nat (length s).

(** [s.get(n..)] *)
Definition get_from (n : N) (s : bytes) : option bytes :=
  if n <=? blen s then Some (skipn (N.to_nat n) s) else None.
(** [s.get(..n)] *)
Definition get_to (n : N) (s : bytes) : option bytes :=
  if n <=? blen s then Some (firstn (N.to_nat n) s) else None.

Definition is_nil (s : bytes) : bool := match s with [] => true | _ => false end.

(** little-endian value of a slice; [n] little-endian bytes of a value *)
Fixpoint le_val (l : bytes) : N :=
  match l with
  | [] => 0
  | b :: r => b + 256 * le_val r
  end.
Fixpoint le_bytes (n : nat) (v : N) : bytes :=
  match n with
  | O => []
  | S k => (v mod 256) :: le_bytes k (v / 256)
  end.

(** [uN::from_le_bytes(unwrap!(slice.try_into()))] *)
Definition le_exact (n : N) (sl : bytes) : rres N :=
  if blen sl =? n then ROk (le_val sl) else RPanic P_TRYINTO.
(** [uN::from_le_bytes(slice.try_into().map_err(|_| InvalidData)?)] *)
Definition le_exact_err (n : N) (sl : bytes) : rres N :=
  if blen sl =? n then ROk (le_val sl) else RErr E_INVDATA.

(** * Control byte: tag types and value types *)

Inductive width := W1 | W2 | W4 | W8.
Definition wlen (w : width) : N := match w with W1 => 1 | W2 => 2 | W4 => 4 | W8 => 8 end.
Definition wnat (w : width) : nat := match w with W1 => 1 | W2 => 2 | W4 => 4 | W8 => 8 end%nat.
Definition widx (w : width) : N := match w with W1 => 0 | W2 => 1 | W4 => 2 | W8 => 3 end.
(** 2^(8 w) and 2^(8 w - 1) *)
Definition wfull (w : width) : N :=
  match w with W1 => 256 | W2 => 65536 | W4 => 4294967296 | W8 => two64 end.
Definition whalf (w : width) : N :=
  match w with W1 => 128 | W2 => 32768 | W4 => 2147483648 | W8 => two63 end.

Inductive ckind := KStruct | KArray | KList.

(** [TLVValueType], the four widths of each family folded into one constructor *)
Inductive vtype :=
| TS (w : width) | TU (w : width) | TFalse | TTrue | TF32 | TF64
| TUtf (w : width) | TStr (w : width) | TNull | TCont (k : ckind) | TEnd.

(** [TLVTagType] *)
Inductive tagtype := GAnon | GCtx | GC16 | GC32 | GI16 | GI32 | GF48 | GF64.

Definition width_of_idx (i : N) : width :=
  match i with 0 => W1 | 1 => W2 | 2 => W4 | _ => W8 end.

Definition vtype_of_code (c : N) : option vtype :=
  if c <? 4 then Some (TS (width_of_idx c))
  else if c <? 8 then Some (TU (width_of_idx (c - 4)))
  else match c with
       | 8 => Some TFalse | 9 => Some TTrue | 10 => Some TF32 | 11 => Some TF64
       | 12 => Some (TUtf W1) | 13 => Some (TUtf W2) | 14 => Some (TUtf W4) | 15 => Some (TUtf W8)
       | 16 => Some (TStr W1) | 17 => Some (TStr W2) | 18 => Some (TStr W4) | 19 => Some (TStr W8)
       | 20 => Some TNull
       | 21 => Some (TCont KStruct) | 22 => Some (TCont KArray) | 23 => Some (TCont KList)
       | 24 => Some TEnd
       | _ => None
       end.

Definition code_of_ckind (k : ckind) : N :=
  match k with KStruct => 21 | KArray => 22 | KList => 23 end.

Definition code_of_vtype (v : vtype) : N :=
  match v with
  | TS w => widx w | TU w => 4 + widx w | TFalse => 8 | TTrue => 9 | TF32 => 10 | TF64 => 11
  | TUtf w => 12 + widx w | TStr w => 16 + widx w | TNull => 20
  | TCont k => code_of_ckind k | TEnd => 24
  end.

Definition tagtype_of_code (c : N) : tagtype :=
  match c with
  | 0 => GAnon | 1 => GCtx | 2 => GC16 | 3 => GC32 | 4 => GI16 | 5 => GI32 | 6 => GF48 | _ => GF64
  end.
Definition code_of_tagtype (t : tagtype) : N :=
  match t with
  | GAnon => 0 | GCtx => 1 | GC16 => 2 | GC32 => 3 | GI16 => 4 | GI32 => 5 | GF48 => 6 | GF64 => 7
  end.

(** [TLVTagType::size] *)
Definition tagsize (t : tagtype) : N :=
  match t with
  | GAnon => 0 | GCtx => 1 | GC16 => 2 | GC32 => 4 | GI16 => 2 | GI32 => 4 | GF48 => 6 | GF64 => 8
  end.

(** [TLVValueType::fixed_size] *)
Definition fixed_size (v : vtype) : option N :=
  match v with
  | TS w | TU w => Some (wlen w)
  | TF32 => Some 4
  | TF64 => Some 8
  | TUtf _ | TStr _ => None
  | _ => Some 0
  end.
(** [TLVValueType::variable_size_len] *)
Definition varlen (v : vtype) : N :=
  match v with TUtf w | TStr w => wlen w | _ => 0 end.

Definition is_cstart (v : vtype) : bool := match v with TCont _ => true | _ => false end.
Definition is_cend (v : vtype) : bool := match v with TEnd => true | _ => false end.
(** [TLVValueType::is_container]: container start OR end *)
Definition is_container_vt (v : vtype) : bool := is_cstart v || is_cend v.
Definition is_str_vt (v : vtype) : bool := match v with TStr _ => true | _ => false end.
Definition is_utf8_vt (v : vtype) : bool := match v with TUtf _ => true | _ => false end.

Definition control_t := (tagtype * vtype)%type.

(** [TLVControl::parse] *)
Definition parse_control (b : N) : rres control_t :=
  match vtype_of_code (b mod 32) with
  | Some vt => ROk (tagtype_of_code ((b / 32) mod 8), vt)
  | None => RErr E_TM
  end.

(** [TLVControl::is_container_end]: anonymous tag AND EndCnt *)
Definition ctl_is_end (c : control_t) : bool :=
  match c with (GAnon, TEnd) => true | _ => false end.
(** [TLVControl::confirm_container_end] *)
Definition confirm_end (c : control_t) : rres unit :=
  if ctl_is_end c then ROk tt else RErr E_INVDATA.

(** * [TLVSequence] private helpers (read.rs 964-1142) *)

Definition control (s : bytes) : rres control_t :=
  match s with
  | [] => RErr E_TM
  | b :: _ => parse_control b
  end.

Definition tag_start (s : bytes) : rres bytes := ok_or E_TM (get_from 1 s).

Definition tag_slice (s : bytes) (t : tagtype) : rres bytes :=
  let! ts := tag_start s in ok_or E_TM (get_to (tagsize t) ts).

Definition value_len_start (s : bytes) (t : tagtype) : rres bytes :=
  match tag_start s with
  | ROk ts => ok_or E_TM (get_from (tagsize t) ts)
  | _ => RPanic P_UNWRAP_TAGSTART
  end.

Definition value_start (s : bytes) (c : control_t) : rres bytes :=
  let! vls := value_len_start s (fst c) in
  ok_or E_TM (get_from (varlen (snd c)) vls).

(** the length field ([as usize] on a 64-bit target is the identity) *)
Definition value_len (s : bytes) (c : control_t) : rres N :=
  match fixed_size (snd c) with
  | Some n => ROk n
  | None =>
      let! vls := value_len_start s (fst c) in
      let! sl := ok_or E_TM (get_to (varlen (snd c)) vls) in
      le_exact (varlen (snd c)) sl
  end.

Definition value (s : bytes) (c : control_t) : rres bytes :=
  let! vl := value_len s c in
  let! vs := value_start s c in
  ok_or E_TM (get_to vl vs).

Definition next_start (s : bytes) (c : control_t) : rres bytes :=
  let! vl := value_len s c in
  let! vs := value_start s c in
  ok_or E_TM (get_from vl vs).

Definition next_enter (s : bytes) : rres bytes :=
  match s with
  | [] => ROk []
  | _ => let! c := control s in next_start s c
  end.

(** [add_len]: [checked_add] -> TLVTypeMismatch (the repair of F9a) *)
Definition add_len (a b : N) : rres N :=
  if a + b <? two64 then ROk (a + b) else RErr E_TM.
(** the unrepaired plain [+] *)
Definition add_len_legacy (a b : N) : rres N :=
  if a + b <? two64 then ROk (a + b) else RPanic P_LEN_ADD.

Definition hdr_len (c : control_t) : N := 1 + tagsize (fst c) + varlen (snd c).

(** [TLVSequence::len] *)
Definition len_ (s : bytes) : rres N :=
  let! c := control s in
  let! vl := value_len s c in
  add_len (hdr_len c) vl.
Definition len_legacy (s : bytes) : rres N :=
  let! c := control s in
  let! vl := value_len s c in
  add_len_legacy (hdr_len c) vl.

(** one step of the level counter shared by the two skipping loops *)
Definition level_step (c : control_t) (level : N) : rres N :=
  if is_cend (snd c) then
    let! _ := confirm_end c in ROk (level - 1)
  else if is_container_vt (snd c) then
    (if level + 1 <? two64 then ROk (level + 1) else RPanic P_LEVEL)
  else ROk level.

(** the [while level > 0] loop of [container_value_len] *)
Fixpoint cvl_loop (fuel : nat) (next : bytes) (len level : N) : rres N :=
  match fuel with
  | O => RFuel
  | S f =>
      if level =? 0 then ROk len
      else
        let! next' := next_enter next in
        let! l := len_ next' in
        let! len' := add_len len l in
        let! c := control next' in
        let! level' := level_step c level in
        cvl_loop f next' len' level'
  end.

Definition container_value_len (s : bytes) (c : control_t) : rres N :=
  if is_container_vt (snd c) then cvl_loop (S (length s)) s 0 1
  else value_len s c.

Fixpoint cvl_loop_legacy (fuel : nat) (next : bytes) (len level : N) : rres N :=
  match fuel with
  | O => RFuel
  | S f =>
      if level =? 0 then ROk len
      else
        let! next' := next_enter next in
        let! l := len_legacy next' in
        let! len' := add_len_legacy len l in
        let! c := control next' in
        let! level' := level_step c level in
        cvl_loop_legacy f next' len' level'
  end.
Definition container_value_len_legacy (s : bytes) (c : control_t) : rres N :=
  if is_container_vt (snd c) then cvl_loop_legacy (S (length s)) s 0 1
  else value_len s c.

Definition container_value (s : bytes) (c : control_t) : rres bytes :=
  let! vl := container_value_len s c in
  let! vs := value_start s c in
  ok_or E_TM (get_to vl vs).
Definition container_value_legacy (s : bytes) (c : control_t) : rres bytes :=
  let! vl := container_value_len_legacy s c in
  let! vs := value_start s c in
  ok_or E_TM (get_to vl vs).

(** [TLVSequence::container_len] (pub(crate)) *)
Definition container_len (s : bytes) : rres N :=
  let! c := control s in
  let! vl := container_value_len s c in
  add_len (hdr_len c) vl.

(** the [while level > 0] loop of [container_next] *)
Fixpoint cn_loop (fuel : nat) (next : bytes) (level : N) : rres bytes :=
  match fuel with
  | O => RFuel
  | S f =>
      if level =? 0 then ROk next
      else
        let! c := control next in
        let! level' := level_step c level in
        let! next' := next_enter next in
        cn_loop f next' level'
  end.

Definition container_next (s : bytes) : rres bytes :=
  match s with
  | [] => ROk []
  | _ =>
      let! c := control s in
      if is_cend (snd c) then
        let! _ := confirm_end c in ROk s
      else
        let! next := next_enter s in
        if is_container_vt (snd c) then cn_loop (S (length s)) next 1
        else ROk next
  end.

(** [TLVSequence::current]: the empty slice stands for the empty element *)
Definition current (s : bytes) : rres bytes :=
  match s with
  | [] => ROk []
  | _ =>
      let! c := control s in
      if is_cend (snd c) then
        let! _ := confirm_end c in ROk []
      else ROk s
  end.

(** * Tags and values *)

Inductive tag :=
| TgAnon
| TgCtx (v : N)
| TgC16 (v : N)
| TgC32 (v : N)
| TgI16 (v : N)
| TgI32 (v : N)
| TgF48 (vid prf t : N)
| TgF64 (vid prf t : N).

Definition tagtype_of_tag (t : tag) : tagtype :=
  match t with
  | TgAnon => GAnon | TgCtx _ => GCtx | TgC16 _ => GC16 | TgC32 _ => GC32
  | TgI16 _ => GI16 | TgI32 _ => GI32 | TgF48 _ _ _ => GF48 | TgF64 _ _ _ => GF64
  end.

(** [TLVValue]; signed values are [Z], floats are their bit patterns,
    strings carry the width of their length field *)
Inductive tval :=
| VS (w : width) (z : Z)
| VU (w : width) (n : N)
| VBool (b : bool)
| VF32 (bits : N)
| VF64 (bits : N)
| VUtf (w : width) (s : bytes)
| VStr (w : width) (s : bytes)
| VNull
| VCont (k : ckind)
| VEnd.

Definition vtype_of_val (v : tval) : vtype :=
  match v with
  | VS w _ => TS w | VU w _ => TU w
  | VBool false => TFalse | VBool true => TTrue
  | VF32 _ => TF32 | VF64 _ => TF64
  | VUtf w _ => TUtf w | VStr w _ => TStr w
  | VNull => TNull | VCont k => TCont k | VEnd => TEnd
  end.

(** two's complement *)
Definition to_signed (w : width) (u : N) : Z :=
  if u <? whalf w then Z.of_N u else (Z.of_N u - Z.of_N (wfull w))%Z.
Definition of_signed (w : width) (z : Z) : N :=
  Z.to_N (z mod Z.of_N (wfull w)).

(** [TLVElement::tag]: the match over the tag type, with its [slice[i]]
    and [unwrap!(try_into())] *)
Definition subsl (s : bytes) (off n : nat) : bytes := firstn n (skipn off s).

Definition tag_of_slice (t : tagtype) (sl : bytes) : rres tag :=
  match t with
  | GAnon => ROk TgAnon
  | GCtx => match sl with b :: _ => ROk (TgCtx b) | [] => RPanic P_INDEX end
  | GC16 => let! v := le_exact 2 sl in ROk (TgC16 v)
  | GC32 => let! v := le_exact 4 sl in ROk (TgC32 v)
  | GI16 => let! v := le_exact 2 sl in ROk (TgI16 v)
  | GI32 => let! v := le_exact 4 sl in ROk (TgI32 v)
  | GF48 =>
      if blen sl <? 6 then RPanic P_INDEX
      else ROk (TgF48 (le_val (subsl sl 0 2)) (le_val (subsl sl 2 2)) (le_val (subsl sl 4 2)))
  | GF64 =>
      if blen sl <? 8 then RPanic P_INDEX
      else ROk (TgF64 (le_val (subsl sl 0 2)) (le_val (subsl sl 2 2)) (le_val (subsl sl 4 4)))
  end.

(** [core::str::from_utf8(..).is_ok()]: well-formed UTF-8 (Unicode table 3-7) *)
Definition in_rng (lo hi b : N) : bool := (lo <=? b) && (b <=? hi).
Definition cont_byte (b : N) : bool := in_rng 128 191 b.

Fixpoint utf8_valid (s : bytes) : bool :=
  match s with
  | [] => true
  | b0 :: r =>
      if b0 <? 128 then utf8_valid r
      else if in_rng 194 223 b0 then
        match r with
        | b1 :: r1 => cont_byte b1 && utf8_valid r1
        | _ => false
        end
      else if in_rng 224 239 b0 then
        match r with
        | b1 :: b2 :: r2 =>
            (if b0 =? 224 then in_rng 160 191 b1
             else if b0 =? 237 then in_rng 128 159 b1
             else cont_byte b1)
            && cont_byte b2 && utf8_valid r2
        | _ => false
        end
      else if in_rng 240 244 b0 then
        match r with
        | b1 :: b2 :: b3 :: r3 =>
            (if b0 =? 240 then in_rng 144 191 b1
             else if b0 =? 244 then in_rng 128 143 b1
             else cont_byte b1)
            && cont_byte b2 && cont_byte b3 && utf8_valid r3
        | _ => false
        end
      else false
  end.

(** * [TLVElement] public accessors *)

Definition el_control (s : bytes) : rres control_t := control s.

Definition el_raw_value (s : bytes) : rres bytes :=
  let! c := control s in container_value s c.
Definition el_raw_value_legacy (s : bytes) : rres bytes :=
  let! c := control s in container_value_legacy s c.

Definition el_tag (s : bytes) : rres tag :=
  let! c := control s in
  let! ts := tag_start s in
  let! sl := ok_or E_TM (get_to (tagsize (fst c)) ts) in
  tag_of_slice (fst c) sl.

Definition el_value (s : bytes) : rres tval :=
  let! c := control s in
  let! sl := container_value s c in
  match snd c with
  | TS w => let! u := le_exact (wlen w) sl in ROk (VS w (to_signed w u))
  | TU w => let! u := le_exact (wlen w) sl in ROk (VU w u)
  | TFalse => ROk (VBool false)
  | TTrue => ROk (VBool true)
  | TF32 => let! u := le_exact 4 sl in ROk (VF32 u)
  | TF64 => let! u := le_exact 8 sl in ROk (VF64 u)
  | TUtf w => if utf8_valid sl then ROk (VUtf w sl) else RErr E_TM
  | TStr w => ROk (VStr w sl)
  | TNull => ROk VNull
  | TCont k => ROk (VCont k)
  | TEnd => ROk VEnd
  end.

(** [TLVElement::tlv]: tag, then value *)
Definition el_tlv (s : bytes) : rres (tag * tval) :=
  let! t := el_tag s in
  let! v := el_value s in
  ROk (t, v).

Definition vtype_eqb (a b : vtype) : bool := code_of_vtype a =? code_of_vtype b.

(** the fixed-width readers: [if matches!(vt, X) { from_le_bytes(value.try_into()
    .map_err(InvalidData)) } else { <narrower> }] *)
Definition el_fixed (s : bytes) (vt : vtype) (n : N) (other : rres N) : rres N :=
  let! c := control s in
  if vtype_eqb (snd c) vt then
    let! v := value s c in le_exact_err n v
  else other.

Definition el_u8 (s : bytes) : rres N := el_fixed s (TU W1) 1 (RErr E_TM).
Definition el_u16 (s : bytes) : rres N := el_fixed s (TU W2) 2 (el_u8 s).
Definition el_u32 (s : bytes) : rres N := el_fixed s (TU W4) 4 (el_u16 s).
Definition el_u64 (s : bytes) : rres N := el_fixed s (TU W8) 8 (el_u32 s).

Definition rmap {A B} (f : A -> B) (r : rres A) : rres B :=
  let! v := r in ROk (f v).

Definition el_i8 (s : bytes) : rres Z :=
  rmap (to_signed W1) (el_fixed s (TS W1) 1 (RErr E_TM)).
Definition el_i16 (s : bytes) : rres Z :=
  let! c := control s in
  if vtype_eqb (snd c) (TS W2) then
    let! v := value s c in rmap (to_signed W2) (le_exact_err 2 v)
  else el_i8 s.
Definition el_i32 (s : bytes) : rres Z :=
  let! c := control s in
  if vtype_eqb (snd c) (TS W4) then
    let! v := value s c in rmap (to_signed W4) (le_exact_err 4 v)
  else el_i16 s.
Definition el_i64 (s : bytes) : rres Z :=
  let! c := control s in
  if vtype_eqb (snd c) (TS W8) then
    let! v := value s c in rmap (to_signed W8) (le_exact_err 8 v)
  else el_i32 s.

Definition el_f32 (s : bytes) : rres N := el_fixed s TF32 4 (RErr E_TM).
Definition el_f64 (s : bytes) : rres N := el_fixed s TF64 8 (RErr E_TM).

Definition el_str (s : bytes) : rres bytes :=
  let! c := control s in
  if is_str_vt (snd c) then value s c else RErr E_INV.

Definition el_utf8 (s : bytes) : rres bytes :=
  let! c := control s in
  if is_utf8_vt (snd c) then
    let! v := value s c in
    if utf8_valid v then ROk v else RErr E_INVDATA
  else RErr E_INV.

Definition el_octets (s : bytes) : rres bytes :=
  let! c := control s in
  if varlen (snd c) =? 0 then RErr E_INV else value s c.

Definition el_bool (s : bytes) : rres bool :=
  let! c := control s in
  match snd c with
  | TFalse => ROk false
  | TTrue => ROk true
  | _ => RErr E_TM
  end.

Definition el_is_container (s : bytes) : rres bool :=
  let! c := control s in ROk (is_container_vt (snd c)).

Definition el_null (s : bytes) : rres unit :=
  let! c := control s in
  match snd c with TNull => ROk tt | _ => RErr E_INVDATA end.

Definition el_struct (s : bytes) : rres bytes :=
  let! c := control s in
  match snd c with TCont KStruct => next_enter s | _ => RErr E_TM end.
Definition el_array (s : bytes) : rres bytes :=
  let! c := control s in
  match snd c with TCont KArray => next_enter s | _ => RErr E_INVDATA end.
Definition el_list (s : bytes) : rres bytes :=
  let! c := control s in
  match snd c with TCont KList => next_enter s | _ => RErr E_TM end.
Definition el_container (s : bytes) : rres bytes :=
  let! c := control s in
  match snd c with TCont _ => next_enter s | _ => RErr E_TM end.

Definition el_confirm_anon (s : bytes) : rres unit :=
  let! c := control s in
  match fst c with GAnon => ROk tt | _ => RErr E_TM end.

Definition el_try_ctx (s : bytes) : rres (option N) :=
  let! c := control s in
  match fst c with
  | GCtx =>
      let! sl := tag_slice s GCtx in
      match sl with b :: _ => ROk (Some b) | [] => RErr E_TM end
  | _ => ROk None
  end.
Definition el_ctx (s : bytes) : rres N :=
  let! o := el_try_ctx s in ok_or E_TM o.

(** * Iterators over a [TLVSequence] *)

(** [TLVSequenceIter::next]: result and new position.  After the repair
    an error exhausts the iterator. *)
Definition seq_iter_next (s : bytes) : rres (option bytes) * bytes :=
  match (let! cur := current s in let! nx := container_next s in ROk (cur, nx)) with
  | ROk (cur, nx) => (ROk (if is_nil cur then None else Some cur), nx)
  | RErr e => (RErr e, [])
  | RPanic p => (RPanic p, s)
  | RFuel => (RFuel, s)
  end.

(** drain the iterator the way [for x in seq.iter()] does when the body
    does not stop at errors: every item, [inl element] or [inr code] *)
Fixpoint seq_iter_collect (fuel : nat) (s : bytes) : rres (list (bytes + N)) :=
  match fuel with
  | O => RFuel
  | S f =>
      match seq_iter_next s with
      | (ROk None, _) => ROk []
      | (ROk (Some e), s') => let! r := seq_iter_collect f s' in ROk (inl e :: r)
      | (RErr c, s') => let! r := seq_iter_collect f s' in ROk (inr c :: r)
      | (RPanic p, _) => RPanic p
      | (RFuel, _) => RFuel
      end
  end.
Definition seq_iter_all (s : bytes) : rres (list (bytes + N)) :=
  seq_iter_collect (S (S (length s))) s.

(** [TLVSequenceTLVIter::try_next] (repaired, F9b/F9c): result, new
    sequence, new nesting *)
Definition tlv_try_next (s : bytes) (nest : N) : rres (option (tag * tval) * bytes * N) :=
  match s with
  | [] => ROk (None, s, nest)
  | _ =>
      let! c := control s in
      if is_cend (snd c) then
        let! _ := confirm_end c in
        if nest =? 0 then ROk (None, s, nest)
        else
          let! nx := next_enter s in
          ROk (Some (TgAnon, VEnd), nx, nest - 1)
      else
        let! t := el_tag s in
        let! v := el_value s in
        let! nx := next_enter s in
        let! nest' := (if is_cstart (snd c)
                       then (if nest + 1 <? two64 then ROk (nest + 1) else RPanic P_LEVEL)
                       else ROk nest) in
        ROk (Some (t, v), nx, nest')
  end.

Fixpoint tlv_iter_collect (fuel : nat) (s : bytes) (nest : N) : rres (list ((tag * tval) + N)) :=
  match fuel with
  | O => RFuel
  | S f =>
      match tlv_try_next s nest with
      | ROk (None, _, _) => ROk []
      | ROk (Some x, s', n') => let! r := tlv_iter_collect f s' n' in ROk (inl x :: r)
      | RErr c => let! r := tlv_iter_collect f [] 0 in ROk (inr c :: r)
      | RPanic p => RPanic p
      | RFuel => RFuel
      end
  end.
Definition tlv_iter_all (s : bytes) : rres (list ((tag * tval) + N)) :=
  tlv_iter_collect (S (S (length s))) s 0.

(** the unrepaired [try_next]/[advance] pair, for the recorded refutation *)
Definition tlv_advance_legacy (s : bytes) (nest : N) : rres (bytes * N) :=
  let! go := (if 0 <? nest then ROk true
              else if is_nil s then ROk false
              else let! c := control s in ROk (negb (ctl_is_end c))) in
  if go then
    let! s' := next_enter s in
    let! c := control s' in
    if is_cstart (snd c) then ROk (s', nest + 1)
    else if ctl_is_end c then
      (if 1 <=? nest then ROk (s', nest - 1) else RPanic P_NEST_SUB)
    else ROk (s', nest)
  else ROk (s, nest).
Definition tlv_try_next_legacy (s : bytes) (nest : N) : rres (option (tag * tval) * bytes * N) :=
  let! cur := current s in
  if is_nil cur then ROk (None, s, nest)
  else
    let! st := tlv_advance_legacy s nest in
    let! t := el_tag cur in
    let! v := el_value cur in
    ROk (Some (t, v), fst st, snd st).

(** [TLVSequence::find_ctx] *)
Fixpoint find_ctx_loop (fuel : nat) (s : bytes) (ctx : N) : rres bytes :=
  match fuel with
  | O => RFuel
  | S f =>
      match seq_iter_next s with
      | (ROk None, _) => ROk []
      | (ROk (Some e), s') =>
          let! oc := el_try_ctx e in
          match oc with
          | Some c => if c =? ctx then ROk e else find_ctx_loop f s' ctx
          | None => find_ctx_loop f s' ctx
          end
      | (RErr c, _) => RErr c
      | (RPanic p, _) => RPanic p
      | (RFuel, _) => RFuel
      end
  end.
Definition seq_find_ctx (s : bytes) (ctx : N) : rres bytes :=
  find_ctx_loop (S (length s)) s ctx.

(** [TLVSequence::ctx] *)
Definition seq_ctx (s : bytes) (ctx : N) : rres bytes :=
  let! e := seq_find_ctx s ctx in
  if is_nil e then RErr E_NOTFOUND else ROk e.

(** [TLVSequence::scan_ctx] (through [scan_map]): found element and the
    position the sequence is left at *)
Fixpoint scan_ctx_loop (fuel : nat) (s : bytes) (ctx : N) : rres (bytes * bytes) :=
  match fuel with
  | O => RFuel
  | S f =>
      let! cur := current s in
      let! r := (if is_nil cur then ROk (Some cur)
                 else
                   let! oc := el_try_ctx cur in
                   match oc with
                   | Some c =>
                       if c =? ctx then ROk (Some cur)
                       else if ctx <? c then ROk (Some [])
                       else ROk None
                   | None => ROk None
                   end) in
      match r with
      | Some e => ROk (e, s)
      | None => let! nx := container_next s in scan_ctx_loop f nx ctx
      end
  end.
Definition seq_scan_ctx (s : bytes) (ctx : N) : rres (bytes * bytes) :=
  scan_ctx_loop (S (length s)) s ctx.

(** [TLVSequence::raw_value] *)
Definition seq_raw_value (s : bytes) : rres bytes := el_raw_value s.

(** * Writer ([TLVWrite], write.rs; [TLV::bytes_iter] produces the same bytes) *)

Definition enc_tag (t : tag) : bytes :=
  match t with
  | TgAnon => []
  | TgCtx v => le_bytes 1 v
  | TgC16 v | TgI16 v => le_bytes 2 v
  | TgC32 v | TgI32 v => le_bytes 4 v
  | TgF48 vid prf t => le_bytes 2 vid ++ le_bytes 2 prf ++ le_bytes 2 t
  | TgF64 vid prf t => le_bytes 2 vid ++ le_bytes 2 prf ++ le_bytes 4 t
  end.

(** [TLVControl::as_raw] *)
Definition ctl_byte (t : tagtype) (v : vtype) : N := 32 * code_of_tagtype t + code_of_vtype v.

(** [TLVWrite::raw_value] *)
Definition w_raw_value (t : tag) (vt : vtype) (payload : bytes) : bytes :=
  ctl_byte (tagtype_of_tag t) vt :: enc_tag t ++ payload.

(** [TLVWrite::tlv]: explicit width; a string length is cast ([as u8] ..)
    to the width of its length field *)
Definition val_payload (v : tval) : bytes :=
  match v with
  | VS w z => le_bytes (wnat w) (of_signed w z)
  | VU w n => le_bytes (wnat w) n
  | VF32 b => le_bytes 4 b
  | VF64 b => le_bytes 8 b
  | VUtf w s | VStr w s => le_bytes (wnat w) (blen s) ++ s
  | _ => []
  end.
Definition w_tlv (t : tag) (v : tval) : bytes :=
  w_raw_value t (vtype_of_val v) [] ++ val_payload v.

(** minimal-width integer writers *)
Definition w_i8 (t : tag) (z : Z) : bytes := w_raw_value t (TS W1) (le_bytes 1 (of_signed W1 z)).
Definition w_i16 (t : tag) (z : Z) : bytes :=
  if ((-128 <=? z) && (z <=? 127))%Z then w_i8 t z
  else w_raw_value t (TS W2) (le_bytes 2 (of_signed W2 z)).
Definition w_i32 (t : tag) (z : Z) : bytes :=
  if ((-32768 <=? z) && (z <=? 32767))%Z then w_i16 t z
  else w_raw_value t (TS W4) (le_bytes 4 (of_signed W4 z)).
Definition w_i64 (t : tag) (z : Z) : bytes :=
  if ((-2147483648 <=? z) && (z <=? 2147483647))%Z then w_i32 t z
  else w_raw_value t (TS W8) (le_bytes 8 (of_signed W8 z)).

Definition w_u8 (t : tag) (n : N) : bytes := w_raw_value t (TU W1) (le_bytes 1 n).
Definition w_u16 (t : tag) (n : N) : bytes :=
  if n <=? 255 then w_u8 t n else w_raw_value t (TU W2) (le_bytes 2 n).
Definition w_u32 (t : tag) (n : N) : bytes :=
  if n <=? 65535 then w_u16 t n else w_raw_value t (TU W4) (le_bytes 4 n).
Definition w_u64 (t : tag) (n : N) : bytes :=
  if n <=? 4294967295 then w_u32 t n else w_raw_value t (TU W8) (le_bytes 8 n).

(** [TLVWrite::stri] / [utf8i]: smallest length field that fits *)
Definition min_width (len : N) : width :=
  if len <=? 255 then W1 else if len <=? 65535 then W2
  else if len <=? 4294967295 then W4 else W8.
Definition w_str (t : tag) (data : bytes) : bytes :=
  let w := min_width (blen data) in
  w_raw_value t (TStr w) (le_bytes (wnat w) (blen data)) ++ data.
Definition w_utf8 (t : tag) (data : bytes) : bytes :=
  let w := min_width (blen data) in
  w_raw_value t (TUtf w) (le_bytes (wnat w) (blen data)) ++ data.

Definition w_bool (t : tag) (b : bool) : bytes := w_raw_value t (if b then TTrue else TFalse) [].
Definition w_null (t : tag) : bytes := w_raw_value t TNull [].
Definition w_f32 (t : tag) (bits : N) : bytes := w_raw_value t TF32 (le_bytes 4 bits).
Definition w_f64 (t : tag) (bits : N) : bytes := w_raw_value t TF64 (le_bytes 8 bits).
Definition w_start (t : tag) (k : ckind) : bytes := w_raw_value t (TCont k) [].
Definition w_end : bytes := [ctl_byte GAnon TEnd].

(** one call on a [TLVWrite] *)
Inductive wop :=
| OpTlv (t : tag) (v : tval)
| OpI (w : width) (t : tag) (z : Z)
| OpU (w : width) (t : tag) (n : N)
| OpF32 (t : tag) (bits : N)
| OpF64 (t : tag) (bits : N)
| OpStr (t : tag) (data : bytes)
| OpUtf8 (t : tag) (data : bytes)
| OpBool (t : tag) (b : bool)
| OpNull (t : tag)
| OpStart (t : tag) (k : ckind)
| OpEnd.

Definition w_op (o : wop) : bytes :=
  match o with
  | OpTlv t v => w_tlv t v
  | OpI W1 t z => w_i8 t z
  | OpI W2 t z => w_i16 t z
  | OpI W4 t z => w_i32 t z
  | OpI W8 t z => w_i64 t z
  | OpU W1 t n => w_u8 t n
  | OpU W2 t n => w_u16 t n
  | OpU W4 t n => w_u32 t n
  | OpU W8 t n => w_u64 t n
  | OpF32 t b => w_f32 t b
  | OpF64 t b => w_f64 t b
  | OpStr t d => w_str t d
  | OpUtf8 t d => w_utf8 t d
  | OpBool t b => w_bool t b
  | OpNull t => w_null t
  | OpStart t k => w_start t k
  | OpEnd => w_end
  end.
Definition w_ops (l : list wop) : bytes := flat_map w_op l.

(** * Value trees *)

Inductive tree :=
| Leaf (t : tag) (v : tval)
| Node (t : tag) (k : ckind) (cs : list tree).

Fixpoint encode (x : tree) : bytes :=
  match x with
  | Leaf t v => w_tlv t v
  | Node t k cs => w_start t k ++ flat_map encode cs ++ w_end
  end.
Definition encode_list (cs : list tree) : bytes := flat_map encode cs.

Fixpoint ops_of_tree (x : tree) : list wop :=
  match x with
  | Leaf t v => [OpTlv t v]
  | Node t k cs => OpStart t k :: flat_map ops_of_tree cs ++ [OpEnd]
  end.

(** the flat [TLV] stream [tlv_iter] yields for the children of a container *)
Fixpoint flatten (x : tree) : list (tag * tval) :=
  match x with
  | Leaf t v => [(t, v)]
  | Node t k cs => (t, VCont k) :: flat_map flatten cs ++ [(TgAnon, VEnd)]
  end.

(** Decoding an element into a tree through the public accessors, the
    way [TLVElement::fmt] walks it: [tag()], [value()], and for a
    container [container()?.iter()] recursively. *)
Fixpoint decode_el (fuel : nat) (s : bytes) : rres tree :=
  match fuel with
  | O => RFuel
  | S f =>
      let! t := el_tag s in
      let! v := el_value s in
      match v with
      | VCont k =>
          let! sq := el_container s in
          let! cs := decode_seq f sq in
          ROk (Node t k cs)
      | _ => ROk (Leaf t v)
      end
  end
with decode_seq (fuel : nat) (s : bytes) {struct fuel} : rres (list tree) :=
  match fuel with
  | O => RFuel
  | S f =>
      match seq_iter_next s with
      | (ROk None, _) => ROk []
      | (ROk (Some e), s') =>
          let! x := decode_el f e in
          let! r := decode_seq f s' in
          ROk (x :: r)
      | (RErr c, _) => RErr c
      | (RPanic p, _) => RPanic p
      | (RFuel, _) => RFuel
      end
  end.

(** each level of nesting costs two units of fuel and at least one byte *)
Definition decode (s : bytes) : rres tree := decode_el (S (2 * length s)) s.

(** [ToTLV for TLVElement::to_tlv(tag, tw)]: re-encode a decoded element *)
Definition el_to_tlv (t : tag) (s : bytes) : rres bytes :=
  if is_nil s then ROk []
  else
    let! c := control s in
    let! payload := el_raw_value s in
    let sl := varlen (snd c) in
    if 0 <? sl then
      ROk (w_raw_value t (snd c) (firstn (N.to_nat sl) (le_bytes 8 (blen payload))) ++ payload)
    else ROk (w_raw_value t (snd c) payload).
