(** Model of session-slot and exchange-slot accounting of rs-matter:
    transport/session.rs ([Sessions::add/remove/get], [get_session_for_eviction],
    [remove_pase], [ReservedSession::{reserve_now, reserve, update, complete, Drop}],
    [Session::{add_exch, remove_exch}]), transport.rs (new unsecured session on
    PBKDFParamRequest / Sigma1, [NoSpaceSessions] => Busy + evict-one,
    [evict_some_session], [handle_dropped_exchange], accept time-out, the mDNS
    resolve / browse rendezvous with its drop guards), sc/pase/responder.rs
    (in-progress marker, 60 s, Busy / SessionNotFound for other exchanges,
    [record_pake_failure]) and sc/case/responder.rs.

    The model follows the code as repaired on branch verif-c20
    ([ReservedSession::drop] tolerates a slot purged under a completed handle).
    No proofs in this file.

    Every region of code between two [.await] points that runs under
    [Matter::with_state] is one atomic step; [now] is the value of
    [Instant::now()] in that region and is chosen by the adversary. *)
From RsM Require Export Lib.MachInt.
Open Scope N_scope.

Definition E_NOSPACE : N := 1.        (* ErrorCode::NoSpaceSessions *)
Definition E_NOSESSION : N := 2.      (* ErrorCode::NoSession *)
Definition E_NOSPACE_EXCH : N := 3.   (* ErrorCode::NoSpaceExchanges *)
Definition E_BUSY : N := 4.           (* SCStatusCodes::Busy sent *)
Definition E_NOTFOUND : N := 5.       (* SCStatusCodes::SessionNotFound sent / ErrorCode::NotFound *)
Definition E_FAIL : N := 6.           (* any other error of a handler *)

Definition PASE_TIMEOUT_MS : N := 60000.   (* sc/pase.rs PASE_SESSION_EST_TIMEOUT_SECS *)
Definition UID_MAX : N := 268435455.       (* 0x0fff_ffff *)

(** * Sessions *)

Inductive mode := MPlain | MPase | MCase | MGroup.

Definition mode_eqb (a b : mode) : bool :=
  match a, b with
  | MPlain, MPlain | MPase, MPase | MCase, MCase | MGroup, MGroup => true
  | _, _ => false
  end.

(** An occupied exchange slot: owned by a handler / initiator, waiting to be
    accepted, or dropped by its owner with an acknowledgement still to send
    ([XDropAck], also the plain "marked dropped" state) or with a
    retransmission still pending ([XDropRetr]: the session will be closed).
    [XDropAck] also stands for "dropped, nothing pending" (accept time-out of an unreliable
    message; retransmission acknowledged after the drop): the sweeper treats both alike. *)
Inductive xst := XOwned | XPending | XDropAck | XDropRetr.

Record session := mkS {
  s_id : N;                        (* Session::id, unique *)
  s_mode : mode;
  s_reserved : bool;
  s_expired : bool;
  s_last : N;                      (* last_use *)
  s_exch : list (option xst) }.    (* exchanges: Vec<Option<ExchangeState>, MAX_EXCHANGES> *)

Definition set_last (t : N) (s : session) : session :=
  mkS (s_id s) (s_mode s) (s_reserved s) (s_expired s) t (s_exch s).
Definition set_mode (m : mode) (s : session) : session :=
  mkS (s_id s) m (s_reserved s) (s_expired s) (s_last s) (s_exch s).
Definition set_reserved (b : bool) (s : session) : session :=
  mkS (s_id s) (s_mode s) b (s_expired s) (s_last s) (s_exch s).
Definition set_expired (b : bool) (s : session) : session :=
  mkS (s_id s) (s_mode s) (s_reserved s) b (s_last s) (s_exch s).
Definition set_exch (x : list (option xst)) (s : session) : session :=
  mkS (s_id s) (s_mode s) (s_reserved s) (s_expired s) (s_last s) x.

Definition slot_free (e : option xst) : bool :=
  match e with None => true | Some _ => false end.
Definition slot_dropped (e : option xst) : bool :=
  match e with Some XDropAck | Some XDropRetr => true | _ => false end.
Definition slot_retr (e : option xst) : bool :=
  match e with Some XDropRetr => true | _ => false end.
Definition slot_live (e : option xst) : bool :=
  match e with Some XOwned | Some XPending => true | _ => false end.

(** [s.exchanges.iter().all(Option::is_none)] *)
Definition no_exch (s : session) : bool := forallb slot_free (s_exch s).

(** * List helpers *)

Fixpoint find_idx {A} (p : A -> bool) (l : list A) : option nat :=
  match l with
  | [] => None
  | x :: r => if p x then Some O else option_map S (find_idx p r)
  end.

Fixpoint upd_nth {A} (i : nat) (f : A -> A) (l : list A) : list A :=
  match l, i with
  | [], _ => []
  | x :: r, O => f x :: r
  | x :: r, S j => x :: upd_nth j f r
  end.

(** heapless [Vec::swap_remove] *)
Definition swap_remove {A} (i : nat) (l : list A) : list A :=
  match nth_error l i with
  | None => l
  | Some _ =>
      match rev l with
      | [] => l
      | z :: _ => if Nat.eqb (S i) (length l) then removelast l
                  else upd_nth i (fun _ => z) (removelast l)
      end
  end.

(** * The session table *)

Record tbl := mkT { t_sess : list session; t_next : N }.

Definition has_id (id : N) (s : session) : bool := s_id s =? id.
Definition t_find (id : N) (t : tbl) : option nat := find_idx (has_id id) (t_sess t).
Definition t_lookup (id : N) (t : tbl) : option session := find (has_id id) (t_sess t).
Definition t_upd (id : N) (f : session -> session) (t : tbl) : tbl :=
  match t_find id t with
  | Some i => mkT (upd_nth i f (t_sess t)) (t_next t)
  | None => t
  end.
(** [Sessions::remove] *)
Definition t_remove (id : N) (t : tbl) : tbl :=
  match t_find id t with
  | Some i => mkT (swap_remove i (t_sess t)) (t_next t)
  | None => t
  end.
(** [Sessions::get]: also refreshes [last_use] *)
Definition t_get (id : N) (now : N) (t : tbl) : option tbl :=
  match t_find id t with
  | Some i => Some (mkT (upd_nth i (set_last now) (t_sess t)) (t_next t))
  | None => None
  end.

(** the 28-bit unique-id cursor *)
Definition next_uid (x : N) : N := if UID_MAX <? x + 1 then 0 else x + 1.

(** [Sessions::add]: the cursor advances even when the table is full *)
Definition t_add (cap : nat) (t : tbl) (reserved : bool) (now : N) : tbl * option N :=
  let id := t_next t in
  if Nat.ltb (length (t_sess t)) cap
  then (mkT (t_sess t ++ [mkS id MPlain reserved false now []]) (next_uid id), Some id)
  else (mkT (t_sess t) (next_uid id), None).

(** [Sessions::get_session_for_eviction]: the loop, transcribed.  [lru_ts]
    starts at [now]; a candidate is not reserved, has no exchange, and is
    expired or used strictly before [lru_ts]; the first expired candidate
    ends the search. *)
Definition evict_cand (lru_ts : N) (s : session) : bool :=
  (s_expired s || (s_last s <? lru_ts)) && negb (s_reserved s) && no_exch s.

Fixpoint evict_loop (l : list session) (i : nat) (lru_ts : N) (acc : option nat) : option nat :=
  match l with
  | [] => acc
  | s :: r =>
      if evict_cand lru_ts s
      then if s_expired s then Some i else evict_loop r (S i) (s_last s) (Some i)
      else evict_loop r (S i) lru_ts acc
  end.

Definition evict_choice (now : N) (t : tbl) : option nat := evict_loop (t_sess t) O now None.

(** a session that eviction may take at time [now] *)
Definition idle (now : N) (s : session) : bool :=
  negb (s_reserved s) && no_exch s && (s_expired s || (s_last s <? now)).

(** evict one session if possible ([write_evict_some_session_packet]) *)
Definition t_evict (now : N) (t : tbl) : tbl * option N :=
  match evict_choice now t with
  | Some i =>
      match nth_error (t_sess t) i with
      | Some s => (mkT (swap_remove i (t_sess t)) (t_next t), Some (s_id s))
      | None => (t, None)
      end
  | None => (t, None)
  end.

(** [Sessions::remove_pase] (and the shape of [remove_for_fabric]): repeated
    [position] + [swap_remove], then the kept session is marked expired. *)
Fixpoint purge (fuel : nat) (p : session -> bool) (l : list session) : list session :=
  match fuel with
  | O => l
  | S f => match find_idx p l with
           | Some i => purge f p (swap_remove i l)
           | None => l
           end
  end.

Definition is_pase (s : session) : bool := mode_eqb (s_mode s) MPase.
Definition pase_victim (keep : option N) (s : session) : bool :=
  is_pase s && match keep with Some k => negb (s_id s =? k) | None => true end.

Definition t_remove_pase (keep : option N) (t : tbl) : tbl :=
  let l := purge (length (t_sess t)) (pase_victim keep) (t_sess t) in
  let l' := match keep with
            | Some k =>
                match find_idx (fun s => has_id k s && is_pase s) l with
                | Some i => upd_nth i (set_expired true) l
                | None => l
                end
            | None => l
            end in
  mkT l' (t_next t).

(** * Exchange slots *)

(** [Session::add_exch]: push while the vector is short, else reuse the first hole *)
Definition x_add (mx : nat) (x : list (option xst)) (v : xst) : option (list (option xst) * nat) :=
  if Nat.ltb (length x) mx then Some (x ++ [Some v], length x)
  else match find_idx slot_free x with
       | Some i => Some (upd_nth i (fun _ => Some v) x, i)
       | None => None
       end.

(** [Session::remove_exch] *)
Definition x_drop (retr ack : bool) (e : option xst) : option xst :=
  match e with
  | None => None
  | Some _ => if retr then Some XDropRetr else if ack then Some XDropAck else None
  end.

(** * Reserved-session handles (ghost) *)

Record handle := mkH { h_id : N; h_complete : bool }.

Definition h_has (id : N) (h : handle) : bool := h_id h =? id.
Fixpoint h_remove (id : N) (l : list handle) : list handle :=
  match l with
  | [] => []
  | h :: r => if h_has id h then r else h :: h_remove id r
  end.

Record st := mkSt { tb : tbl; hs : list handle }.

Definition st_init : st := mkSt (mkT [] 0) [].

(** * Layer 1: the operations the code offers, one by one *)

Inductive op :=
| OAdd (now : N)                                  (* Sessions::add(reserved = false) *)
| OReserveNow (now : N)                           (* ReservedSession::reserve_now *)
| OReserve (now : N)                              (* ReservedSession::reserve *)
| OUpdate (id : N) (m : mode) (now : N)           (* ReservedSession::update *)
| OComplete (id : N)                              (* ReservedSession::complete *)
| ODropH (id : N) (now : N)                       (* Drop for ReservedSession *)
| ORemove (id : N)                                (* Sessions::remove *)
| OEvict (now : N)                                (* get_session_for_eviction + remove *)
| OTouch (id : N) (now : N)                       (* Sessions::get *)
| OSetExpired (id : N)
| OSetLast (id : N) (t : N)
| OSetMode (id : N) (m : mode)
| ORemovePase (keep : option N)                   (* Sessions::remove_pase *)
| OExAdd (id : N) (pending : bool) (now : N)      (* new exchange: post_recv (pending; never matches a reserved
                                                     slot) / initiate_for_session (owned) *)
| OExAccept (id : N) (xi : nat) (now : N)         (* accept_if: AcceptPending -> Owned *)
| OExTimeout (id : N) (xi : nat) (now : N)        (* accept time-out: AcceptPending -> Dropped *)
| OExDrop (id : N) (xi : nat) (retr ack : bool) (now : N)   (* Drop for Exchange *)
| OSweep (now : N)                                (* handle_dropped_exchange *)
| OExAcked (id : N) (xi : nat) (now : N)          (* the peer's acknowledgement reaches a dropped exchange:
                                                     its pending retransmission is gone *)
| ORxExch (id : N) (now : N)                      (* receive path: a message that opens an exchange on [id] *)
| ORemoveSet (ids : list N) (keep : option N).    (* Sessions::remove_for_fabric *)

Inductive out := RNone | ROk | RId (id : N) | RIdx (i : nat) | RErr (c : N).

Definition reserve_now (cap : nat) (s : st) (now : N) : st * out :=
  match t_add cap (tb s) true now with
  | (t1, Some id) => (mkSt t1 (hs s ++ [mkH id false]), RId id)
  | (t1, None) => (mkSt t1 (hs s), RErr E_NOSPACE)
  end.

(** first slot, in table order then slot order, satisfying [p] ([Sessions::get_exch]) *)
Fixpoint find_slot (p : option xst -> bool) (l : list session) : option (N * nat) :=
  match l with
  | [] => None
  | s :: r => match find_idx p (s_exch s) with
              | Some i => Some (s_id s, i)
              | None => find_slot p r
              end
  end.

Definition xset (xi : nat) (v : option xst) (s : session) : session :=
  set_exch (upd_nth xi (fun _ => v) (s_exch s)) s.

(** a new exchange on session [id]: [post_recv] for a peer's message ([pending]; a reserved slot is
    never matched by the receive path) or [initiate_for_session] (owned) *)
Definition ex_add (mx : nat) (s : st) (id : N) (pending : bool) (now : N) : st * out :=
  match t_lookup id (tb s) with
  | None => (s, RErr E_NOSESSION)
  | Some x =>
      if pending && s_reserved x then (s, RErr E_NOSESSION)   (* is_for_rx never matches a reserved slot *)
      else match t_get id now (tb s) with                    (* get_for_rx / get: last_use refreshed first *)
           | None => (s, RErr E_NOSESSION)
           | Some t1 =>
               if s_expired x then (mkSt t1 (hs s), RErr E_NOSESSION)
               else match x_add mx (s_exch x) (if pending then XPending else XOwned) with
                    | Some (x', i) => (mkSt (t_upd id (set_exch x') t1) (hs s), RIdx i)
                    | None => (mkSt t1 (hs s), RErr E_NOSPACE_EXCH)
                    end
           end
  end.

(** [Sessions::remove_for_fabric]: [ids] are the sessions of that fabric (which sessions those are
    is outside this model); the kept session is marked expired whatever its fabric *)
Definition in_set (ids : list N) (keep : option N) (s : session) : bool :=
  existsb (N.eqb (s_id s)) ids && match keep with Some k => negb (s_id s =? k) | None => true end.

Definition t_remove_set (ids : list N) (keep : option N) (t : tbl) : tbl :=
  let l := purge (length (t_sess t)) (in_set ids keep) (t_sess t) in
  let l' := match keep with
            | Some k =>
                match find_idx (has_id k) l with
                | Some i => upd_nth i (set_expired true) l
                | None => l
                end
            | None => l
            end in
  mkT l' (t_next t).

Definition step (cap mx : nat) (s : st) (o : op) : st * out :=
  match o with
  | OAdd now =>
      match t_add cap (tb s) false now with
      | (t1, Some id) => (mkSt t1 (hs s), RId id)
      | (t1, None) => (mkSt t1 (hs s), RErr E_NOSPACE)
      end
  | OReserveNow now => reserve_now cap s now
  | OReserve now =>
      match reserve_now cap s now with
      | (s1, RErr _) =>
          match t_evict now (tb s1) with
          | (t2, Some _) => reserve_now cap (mkSt t2 (hs s1)) now
          | (t2, None) => (mkSt t2 (hs s1), RErr E_NOSPACE)
          end
      | r => r
      end
  | OUpdate id m now =>
      if existsb (h_has id) (hs s)
      then match t_get id now (tb s) with
           | Some t1 => (mkSt (t_upd id (set_mode m) t1) (hs s), ROk)
           | None => (s, RErr E_NOSESSION)
           end
      else (s, RNone)
  | OComplete id =>
      (mkSt (tb s) (map (fun h => if h_has id h then mkH (h_id h) true else h) (hs s)), ROk)
  | ODropH id now =>
      match find (h_has id) (hs s) with
      | None => (s, RNone)
      | Some h =>
          let hs' := h_remove id (hs s) in
          if h_complete h
          then match t_get id now (tb s) with
               | Some t1 => (mkSt (t_upd id (set_reserved false) t1) hs', ROk)
               | None => (mkSt (tb s) hs', RNone)     (* slot purged meanwhile: nothing to do *)
               end
          else (mkSt (t_remove id (tb s)) hs', ROk)
      end
  | ORemove id =>
      match t_find id (tb s) with
      | Some _ => (mkSt (t_remove id (tb s)) (hs s), ROk)
      | None => (s, RNone)
      end
  | OEvict now =>
      match t_evict now (tb s) with
      | (t1, Some id) => (mkSt t1 (hs s), RId id)
      | (t1, None) => (mkSt t1 (hs s), RNone)
      end
  | OTouch id now =>
      match t_get id now (tb s) with
      | Some t1 => (mkSt t1 (hs s), ROk)
      | None => (s, RNone)
      end
  | OSetExpired id => (mkSt (t_upd id (set_expired true) (tb s)) (hs s), ROk)
  | OSetLast id t => (mkSt (t_upd id (set_last t) (tb s)) (hs s), ROk)
  | OSetMode id m =>
      match t_lookup id (tb s) with
      | Some x => if s_reserved x then (s, RNone)
                  else (mkSt (t_upd id (set_mode m) (tb s)) (hs s), ROk)
      | None => (s, RNone)
      end
  | ORemovePase keep => (mkSt (t_remove_pase keep (tb s)) (hs s), ROk)
  | OExAdd id pending now => ex_add mx s id pending now
  | OExAcked id xi now =>
      (* post_recv of a stand-alone ack on an exchange its owner has dropped: nothing is pending
         any more (neither retransmission nor acknowledgement); the slot stays Dropped until the
         sweeper clears it *)
      match t_lookup id (tb s) with
      | None => (s, RNone)
      | Some x =>
          match nth_error (s_exch x) xi with
          | Some (Some XDropRetr) =>
              match t_get id now (tb s) with
              | Some t1 => (mkSt (t_upd id (xset xi (Some XDropAck)) t1) (hs s), ROk)
              | None => (s, RNone)
              end
          | _ => (s, RNone)
          end
      end
  | ORxExch id now =>
      (* handle_rx_packet: NoSpaceExchanges => the whole session is closed *)
      match ex_add mx s id true now with
      | (s1, RErr c) => if c =? E_NOSPACE_EXCH then (mkSt (t_remove id (tb s1)) (hs s1), RId id)
                        else (s1, RErr c)
      | r => r
      end
  | ORemoveSet ids keep => (mkSt (t_remove_set ids keep (tb s)) (hs s), ROk)
  | OExAccept id xi now =>
      match t_lookup id (tb s) with
      | None => (s, RNone)
      | Some x =>
          match nth_error (s_exch x) xi with
          | Some (Some XPending) =>
              match t_get id now (tb s) with
              | Some t1 => (mkSt (t_upd id (xset xi (Some XOwned)) t1) (hs s), ROk)
              | None => (s, RNone)
              end
          | _ => (s, RNone)
          end
      end
  | OExTimeout id xi now =>
      match t_lookup id (tb s) with
      | None => (s, RNone)
      | Some x =>
          match nth_error (s_exch x) xi with
          | Some (Some XPending) =>
              match t_get id now (tb s) with
              | Some t1 => (mkSt (t_upd id (xset xi (Some XDropAck)) t1) (hs s), ROk)
              | None => (s, RNone)
              end
          | _ => (s, RNone)
          end
      end
  | OExDrop id xi retr ack now =>
      match t_lookup id (tb s) with
      | None => (s, RNone)                    (* Exchange::with_state: no session *)
      | Some x =>
          match nth_error (s_exch x) xi with
          | Some (Some XOwned) =>
              match t_get id now (tb s) with
              | Some t1 => (mkSt (t_upd id (xset xi (x_drop retr ack (Some XOwned))) t1) (hs s), ROk)
              | None => (s, RNone)
              end
          | _ => (s, RNone)
          end
      end
  | OSweep now =>
      match find_slot slot_retr (t_sess (tb s)) with
      | Some (id, _) => (mkSt (t_remove id (tb s)) (hs s), RId id)      (* close the whole session *)
      | None =>
          match find_slot slot_dropped (t_sess (tb s)) with
          | Some (id, xi) =>
              match t_get id now (tb s) with
              | Some t1 => (mkSt (t_upd id (xset xi None) t1) (hs s), RIdx xi)
              | None => (s, RNone)
              end
          | None => (s, RNone)
          end
      end
  end.

Fixpoint run (cap mx : nat) (s : st) (l : list op) : st :=
  match l with
  | [] => s
  | o :: r => run cap mx (fst (step cap mx s o)) r
  end.

(** * Layer 2: a node answering PASE / CASE handshakes *)

Inductive hkind := HPase | HCase.
Definition is_hpase (k : hkind) : bool := match k with HPase => true | HCase => false end.

(** what the handler finds in the message it is looking at *)
Inductive verdict :=
| VGood       (* well-formed and acceptable: the handshake continues *)
| VRefuse     (* well-formed but refused (no commissioning window, no shared root, wrong proof) *)
| VBad.       (* malformed / unexpected: the handler returns an error *)

(** One responder-side attempt.  Stages: 0 = first message in the RX slot,
    exchange waiting to be accepted; 1 = PBKDFParamResponse / Sigma2 sent;
    2 = Pake2 sent (PASE only); 3 = slot updated and completed, success status
    sent, waiting for its acknowledgement; 4 = a refusal status (Busy,
    SessionNotFound, failure) sent, waiting for its acknowledgement.  In
    stages 1-4 the handler still holds its [ReservedSession]. *)
Record att := mkA {
  a_no : N; a_kind : hkind; a_sess : N; a_xi : nat;
  a_h : option N; a_stage : N; a_clr : bool }.

Record node := mkN {
  core : st;
  marker : option (N * N);      (* PASE in-progress marker: (owning attempt, expiry) *)
  atts : list att;
  n_next : N }.

Definition node_init : node := mkN st_init None [] 0.

Inductive nop :=
| NRx (k : hkind) (now : N)                  (* PBKDFParamRequest / Sigma1 for a new unsecured session arrives *)
| NAccept (a : N) (v : verdict) (now : N)    (* a handler accepts the exchange and runs up to its first await *)
| NMsg (a : N) (v : verdict) (now : N)       (* the next handshake message arrives at the waiting handler *)
| NAck (a : N) (now : N)                     (* the status report is acknowledged: the handler finishes *)
| NFail (a : N) (dirty : bool) (now : N)     (* the handler returns Err at its await (time-out, garbage) *)
| NCancel (a : N) (dirty : bool) (now : N)   (* the handler future is dropped at its await *)
| NAcceptTimeout (a : N) (now : N)           (* nobody accepted within ACCEPT_TIMEOUT_MS *)
| NSweep (now : N)
| NPurgePase (keep : option N)
| NEvict (now : N)
| NTouch (id : N) (now : N)
| NExpire (id : N)
| NAppOpen (id : N) (now : N)                (* an exchange on an established session *)
| NAppClose (id : N) (xi : nat) (retr ack : bool) (now : N).

Definition att_has (a : N) (x : att) : bool := a_no x =? a.
Fixpoint att_remove (a : N) (l : list att) : list att :=
  match l with
  | [] => []
  | x :: r => if att_has a x then r else x :: att_remove a r
  end.
Definition att_set (a : N) (f : att -> att) (l : list att) : list att :=
  map (fun x => if att_has a x then f x else x) l.

Definition do1 (cap mx : nat) (c : st) (o : op) : st := fst (step cap mx c o).

(** the handler ends: its [ReservedSession] (if any) and its [Exchange] are dropped *)
Definition finish (cap mx : nat) (n : node) (x : att) (retr ack : bool) (now : N) : node :=
  let c1 := match a_h x with
            | Some h => do1 cap mx (core n) (ODropH h now)
            | None => core n
            end in
  let c2 := do1 cap mx c1 (OExDrop (a_sess x) (a_xi x) retr ack now) in
  mkN c2 (marker n) (att_remove (a_no x) (atts n)) (n_next n).

Definition set_marker (m : option (N * N)) (n : node) : node :=
  mkN (core n) m (atts n) (n_next n).
Definition set_core (c : st) (n : node) : node :=
  mkN c (marker n) (atts n) (n_next n).
Definition set_atts (l : list att) (n : node) : node :=
  mkN (core n) (marker n) l (n_next n).

(** [SessionEstTimeout::is_sess_expired]: strictly after the expiry *)
Definition marker_live (now : N) (m : option (N * N)) : option (N * N) :=
  match m with
  | Some (o, e) => if e <? now then None else Some (o, e)
  | None => None
  end.

(** [update_session_timeout]: [None] = go on (marker now ours); [Some c] = status [c] is sent *)
Definition marker_check (a : N) (new : bool) (now : N) (m : option (N * N))
  : option (N * N) * option N :=
  match marker_live now m with
  | Some (o, e) => if o =? a then (Some (a, now + PASE_TIMEOUT_MS), None)
                   else (Some (o, e), Some E_BUSY)
  | None => if new then (Some (a, now + PASE_TIMEOUT_MS), None)
            else (None, Some E_NOTFOUND)
  end.

Definition stage_set (a : N) (stg : N) (h : option N) (clr : bool) (n : node) : node :=
  set_atts (att_set a (fun x => mkA (a_no x) (a_kind x) (a_sess x) (a_xi x) h stg clr) (atts n)) n.

Definition clear_if_pase (k : hkind) (n : node) : node :=
  if is_hpase k then set_marker None n else n.

Definition nstep (cap mx : nat) (n : node) (o : nop) : node * out :=
  match o with
  | NRx k now =>
      match step cap mx (core n) (OAdd now) with
      | (c1, RId id) =>
          let c2 := do1 cap mx c1 (OExAdd id true now) in
          (mkN c2 (marker n) (atts n ++ [mkA (n_next n) k id O None 0 false]) (n_next n + 1),
           RId (n_next n))
      | (c1, _) =>
          (* table full: Busy is answered, then one idle session is evicted if there is one *)
          (set_core (do1 cap mx c1 (OEvict now)) n, RErr E_BUSY)
      end
  | NAccept a v now =>
      match find (att_has a) (atts n) with
      | None => (n, RNone)
      | Some x =>
          if negb (a_stage x =? 0) then (n, RNone) else
          let c1 := do1 cap mx (core n) (OExAccept (a_sess x) (a_xi x) now) in
          match step cap mx c1 (OReserve now) with
          | (c2, RId h) =>
              let n2 := stage_set a 1 (Some h) false (set_core c2 n) in
              let x2 := mkA (a_no x) (a_kind x) (a_sess x) (a_xi x) (Some h) 1 false in
              match a_kind x with
              | HPase =>
                  match marker_check a true now (marker n) with
                  | (m1, Some c) => (stage_set a 4 (Some h) false (set_marker m1 n2), RErr c)
                  | (m1, None) =>
                      match v with
                      | VGood => (set_marker m1 n2, ROk)
                      | VRefuse => (finish cap mx (set_marker None n2) x2 false true now, RNone)
                      | VBad => (finish cap mx (set_marker None n2) x2 false true now, RErr E_FAIL)
                      end
                  end
              | HCase =>
                  match v with
                  | VGood => (n2, ROk)
                  | VRefuse => (stage_set a 4 (Some h) false n2, RErr E_FAIL)
                  | VBad => (finish cap mx n2 x2 false true now, RErr E_FAIL)
                  end
              end
          | (c2, _) =>
              (* reserve failed: the handler returns Err *)
              (finish cap mx (clear_if_pase (a_kind x) (set_core c2 n)) x false true now,
               RErr E_NOSPACE)
          end
      end
  | NMsg a v now =>
      match find (att_has a) (atts n) with
      | None => (n, RNone)
      | Some x =>
          let waiting := (a_stage x =? 1) || ((a_stage x =? 2) && is_hpase (a_kind x)) in
          if negb waiting then (n, RNone) else
          match a_kind x with
          | HPase =>
              match marker_check a false now (marker n) with
              | (m1, Some c) => (stage_set a 4 (a_h x) false (set_marker m1 n), RErr c)
              | (m1, None) =>
                  let n1 := set_marker m1 n in
                  match v with
                  | VBad => (finish cap mx (set_marker None n1) x true false now, RErr E_FAIL)
                  | VRefuse =>
                      if a_stage x =? 1
                      then (finish cap mx (set_marker None n1) x false true now, RNone)
                      else (stage_set a 4 (a_h x) true n1, RErr E_FAIL)
                  | VGood =>
                      if a_stage x =? 1 then (stage_set a 2 (a_h x) false n1, ROk)
                      else match a_h x with
                           | Some h =>
                               let c1 := do1 cap mx (core n1) (OUpdate h MPase now) in
                               let c2 := do1 cap mx c1 (OComplete h) in
                               (stage_set a 3 (a_h x) false (set_core c2 n1), ROk)
                           | None => (n1, RNone)
                           end
                  end
              end
          | HCase =>
              match v with
              | VBad => (finish cap mx n x true false now, RErr E_FAIL)
              | VRefuse => (stage_set a 4 (a_h x) false n, RErr E_FAIL)
              | VGood =>
                  match a_h x with
                  | Some h =>
                      let c1 := do1 cap mx (core n) (OUpdate h MCase now) in
                      let c2 := do1 cap mx c1 (OComplete h) in
                      (stage_set a 3 (a_h x) false (set_core c2 n), ROk)
                  | None => (n, RNone)
                  end
              end
          end
      end
  | NAck a now =>
      match find (att_has a) (atts n) with
      | None => (n, RNone)
      | Some x =>
          if a_stage x =? 3
          then (finish cap mx (clear_if_pase (a_kind x) n) x false false now, ROk)
          else if a_stage x =? 4
          then (finish cap mx (if a_clr x then clear_if_pase (a_kind x) n else n) x false false now, ROk)
          else (n, RNone)
      end
  | NFail a dirty now =>
      match find (att_has a) (atts n) with
      | None => (n, RNone)
      | Some x =>
          if a_stage x =? 0 then (n, RNone)
          else (finish cap mx (clear_if_pase (a_kind x) n) x dirty false now, ROk)
      end
  | NCancel a dirty now =>
      match find (att_has a) (atts n) with
      | None => (n, RNone)
      | Some x =>
          if a_stage x =? 0 then (n, RNone)
          else (finish cap mx n x dirty false now, ROk)
      end
  | NAcceptTimeout a now =>
      match find (att_has a) (atts n) with
      | None => (n, RNone)
      | Some x =>
          if a_stage x =? 0
          then (mkN (do1 cap mx (core n) (OExTimeout (a_sess x) (a_xi x) now)) (marker n)
                    (att_remove a (atts n)) (n_next n), ROk)
          else (n, RNone)
      end
  | NSweep now => let r := step cap mx (core n) (OSweep now) in (set_core (fst r) n, snd r)
  | NPurgePase keep => (set_core (do1 cap mx (core n) (ORemovePase keep)) n, ROk)
  | NEvict now => let r := step cap mx (core n) (OEvict now) in (set_core (fst r) n, snd r)
  | NTouch id now => let r := step cap mx (core n) (OTouch id now) in (set_core (fst r) n, snd r)
  | NExpire id => (set_core (do1 cap mx (core n) (OSetExpired id)) n, ROk)
  | NAppOpen id now =>
      match t_lookup id (tb (core n)) with
      | Some s => if mode_eqb (s_mode s) MPlain then (n, RNone)
                  else let r := step cap mx (core n) (OExAdd id false now) in (set_core (fst r) n, snd r)
      | None => (n, RNone)
      end
  | NAppClose id xi retr ack now =>
      match t_lookup id (tb (core n)) with
      | Some s => if mode_eqb (s_mode s) MPlain then (n, RNone)
                  else let r := step cap mx (core n) (OExDrop id xi retr ack now) in (set_core (fst r) n, snd r)
      | None => (n, RNone)
      end
  end.

Fixpoint nrun (cap mx : nat) (n : node) (l : list nop) : node :=
  match l with
  | [] => n
  | o :: r => nrun cap mx (fst (nstep cap mx n o)) r
  end.

(** the dropped-exchange sweeper run [k] times *)
Fixpoint sweeps (cap mx : nat) (k : nat) (now : N) (n : node) : node :=
  match k with
  | O => n
  | S j => sweeps cap mx j now (fst (nstep cap mx n (NSweep now)))
  end.

(** * The mDNS resolve / browse rendezvous (transport.rs:312-700, 1174-1218)

    One slot; requesters serialise on [Idle]; a drop guard armed after the
    request is placed resets the slot unless the answer was consumed. The
    [owner] fields are ghost (the code's [Resolved] carries no owner). *)

Inductive rdv :=
| RvIdle
| RvRequested (owner svc : N)
| RvInFlight (owner svc : N)
| RvResolved (owner : N).

Inductive rphase := PWait | PPlaced.
Record rreq := mkR { rq_id : N; rq_svc : N; rq_phase : rphase }.
Record rsys := mkRs { r_slot : rdv; r_reqs : list rreq; r_next : N }.

Definition rsys_init : rsys := mkRs RvIdle [] 0.

Inductive rop :=
| RStart (svc : N)             (* a caller enters resolve / browse_commissionable *)
| RPoll (id : N)               (* its future is polled *)
| RTimeout (id : N)            (* its timer fires *)
| RCancel (id : N)             (* its future is dropped *)
| RPick                        (* responder: wait_mdns_*_request returns *)
| RDeposit (svc : N) (hasaddr : bool).   (* responder: try_deposit_mdns_* *)

Definition rq_has (id : N) (r : rreq) : bool := rq_id r =? id.
Fixpoint rq_remove (id : N) (l : list rreq) : list rreq :=
  match l with
  | [] => []
  | x :: r => if rq_has id x then r else x :: rq_remove id r
  end.

Definition is_idle (s : rdv) : bool := match s with RvIdle => true | _ => false end.

(** the drop guard *)
Definition guard_reset (s : rdv) : rdv := RvIdle.

Definition rstep (s : rsys) (o : rop) : rsys * out :=
  match o with
  | RStart svc => (mkRs (r_slot s) (r_reqs s ++ [mkR (r_next s) svc PWait]) (r_next s + 1), RId (r_next s))
  | RPoll id =>
      match find (rq_has id) (r_reqs s) with
      | None => (s, RNone)
      | Some r =>
          match rq_phase r with
          | PWait =>
              if is_idle (r_slot s)
              then (mkRs (RvRequested id (rq_svc r))
                         (map (fun x => if rq_has id x then mkR (rq_id x) (rq_svc x) PPlaced else x) (r_reqs s))
                         (r_next s), RNone)
              else (s, RNone)
          | PPlaced =>
              match r_slot s with
              | RvResolved _ => (mkRs RvIdle (rq_remove id (r_reqs s)) (r_next s), ROk)
              | _ => (s, RNone)
              end
          end
      end
  | RTimeout id =>
      match find (rq_has id) (r_reqs s) with
      | None => (s, RNone)
      | Some r =>
          match rq_phase r with
          | PWait => (s, RNone)          (* step 1 of resolve has no timer *)
          | PPlaced => (mkRs (guard_reset (r_slot s)) (rq_remove id (r_reqs s)) (r_next s), RErr E_NOTFOUND)
          end
      end
  | RCancel id =>
      match find (rq_has id) (r_reqs s) with
      | None => (s, RNone)
      | Some r =>
          match rq_phase r with
          | PWait => (mkRs (r_slot s) (rq_remove id (r_reqs s)) (r_next s), ROk)
          | PPlaced => (mkRs (guard_reset (r_slot s)) (rq_remove id (r_reqs s)) (r_next s), ROk)
          end
      end
  | RPick =>
      match r_slot s with
      | RvRequested o v => (mkRs (RvInFlight o v) (r_reqs s) (r_next s), RId v)
      | _ => (s, RNone)
      end
  | RDeposit svc hasaddr =>
      match r_slot s with
      | RvInFlight o v =>
          if (v =? svc) && hasaddr then (mkRs (RvResolved o) (r_reqs s) (r_next s), ROk)
          else (s, RNone)
      | RvResolved o => (s, ROk)         (* merged into the pending answer *)
      | _ => (s, RNone)
      end
  end.

Fixpoint rrun (s : rsys) (l : list rop) : rsys :=
  match l with
  | [] => s
  | o :: r => rrun (fst (rstep s o)) r
  end.
