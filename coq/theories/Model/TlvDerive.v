(** Generic model of the derived TLV encoders: what
    [#[derive(ToTLV, FromTLV)]] (rs-matter-macros/src/tlv.rs) EMITS for a
    type, together with the hand-written [ToTLV]/[FromTLV] impls it is
    composed with (tlv/traits/{primitive,maybe,octets,str,vec,array,
    slice,container}.rs).

    A derived type is described by a [dty]; [denc d tag v] is
    [<T as ToTLV>::to_tlv(&v, &tag, tw)] on an unbounded writer and
    [ddec d el] is [<T as FromTLV>::from_tlv(&el)] where [el] is the
    slice of a [TLVElement] (empty = the element a structure decoder gets
    for a field that is absent).  No proofs in this file. *)
From Coq Require Import NArith ZArith List Bool.
From RsM Require Import Model.Tlv.
Import ListNotations.
Open Scope N_scope.

Definition E_CONSTRAINT : N := 5.   (* ConstraintError *)
Definition E_ILL : N := 99.          (* value not of the described type: no Rust counterpart *)

(** * Type descriptions *)
Inductive dty :=
| DInt (sg : bool) (w : width)          (* i8..i64 / u8..u64 *)
| DBool
| DF32
| DF64
| DOctets                              (* Octets<'a> / OctetsOwned<N> *)
| DUtf8                                (* &str / String<N> *)
| DOption (d : dty)                    (* Option<T> / Optional<T>: a field that may be absent *)
| DNullable (d : dty)                  (* Nullable<T> *)
| DVec (cap : option N) (d : dty)      (* Vec<T, N> (cap = Some N), &[T] / alloc Vec (None): TLV array *)
| DFixed (n : nat) (d : dty)           (* [T; N]: TLV array, padded with T::default() when read *)
| DStruct (k : ckind) (ordered : bool) (fs : list (N * dty))
                                       (* named struct: datatype struct/list, assume_ordered,
                                          (context tag, type) per field in declaration order *)
| DEnum (naked : bool) (vs : list (N * dty))
                                       (* enum with one unnamed field per variant: (tag, payload) *)
| DUnit (w16 : bool) (vals : list N).  (* unit enum, datatype u8 / u16: value per variant *)
(** a struct with a single unnamed field (newtype) is transparent: its
    description is the description of the field *)

(** * Values *)
Inductive dval :=
| XInt (z : Z)
| XBool (b : bool)
| XBits (n : N)            (* f32 / f64 bit pattern *)
| XBytes (s : bytes)       (* octets or UTF-8 bytes *)
| XNone
| XSome (v : dval)
| XNull
| XNN (v : dval)           (* Nullable::some *)
| XList (l : list dval)
| XRec (l : list dval)
| XVar (i : nat) (v : dval)
| XUnit (i : nat).

(** the value a nullable integer / unit enum cannot hold *)
Definition int_excluded (sg : bool) (w : width) : Z :=
  if sg then (- Z.of_N (whalf w))%Z else (Z.of_N (wfull w) - 1)%Z.

Definition w_int (sg : bool) (w : width) (t : tag) (z : Z) : bytes :=
  if sg then w_op (OpI w t z) else w_op (OpU w t (Z.to_N z)).

(** * [to_tlv] *)
Fixpoint denc (d : dty) (t : tag) (v : dval) {struct d} : rres bytes :=
  match d, v with
  | DInt sg w, XInt z => ROk (w_int sg w t z)
  | DBool, XBool b => ROk (w_bool t b)
  | DF32, XBits b => ROk (w_f32 t b)
  | DF64, XBits b => ROk (w_f64 t b)
  | DOctets, XBytes s => ROk (w_str t s)
  | DUtf8, XBytes s => ROk (w_utf8 t s)
  | DOption _, XNone => ROk []
  | DOption d', XSome x => denc d' t x
  | DNullable _, XNull => ROk (w_null t)
  | DNullable d', XNN x =>
      (* nullable_to_tlv *)
      match d', x with
      | DInt sg w, XInt z =>
          if (z =? int_excluded sg w)%Z then RErr E_CONSTRAINT else denc d' t x
      | DUnit w16 vals, XUnit i =>
          match nth_error vals i with
          | Some n => if n =? (if w16 then 65535 else 255) then RErr E_CONSTRAINT else denc d' t x
          | None => RErr E_ILL
          end
      | _, _ => denc d' t x
      end
  | DVec _ d', XList l | DFixed _ d', XList l =>
      let! body :=
        (fix go (l : list dval) : rres bytes :=
           match l with
           | [] => ROk []
           | x :: r => let! a := denc d' TgAnon x in let! b := go r in ROk (a ++ b)
           end) l in
      ROk (w_start t KArray ++ body ++ w_end)
  | DStruct k _ fs, XRec vs =>
      let! body :=
        (fix go (fs : list (N * dty)) (vs : list dval) : rres bytes :=
           match fs, vs with
           | [], [] => ROk []
           | (ft, fd) :: fr, fv :: vr =>
               let! a := denc fd (TgCtx ft) fv in let! b := go fr vr in ROk (a ++ b)
           | _, _ => RErr E_ILL
           end) fs vs in
      ROk (w_start t k ++ body ++ w_end)
  | DEnum naked vs, XVar i x =>
      let! body :=
        (fix pick (vs : list (N * dty)) (i : nat) : rres bytes :=
           match vs, i with
           | (vt, vd) :: _, O => denc vd (TgCtx vt) x
           | _ :: r, S j => pick r j
           | [], _ => RErr E_ILL
           end) vs i in
      if naked then ROk body else ROk (w_start t KStruct ++ body ++ w_end)
  | DUnit w16 vals, XUnit i =>
      match nth_error vals i with
      | Some n => ROk (if w16 then w_u16 t n else w_u8 t n)
      | None => RErr E_ILL
      end
  | _, _ => RErr E_ILL
  end.

(** * [from_tlv] *)

Definition dec_int (sg : bool) (w : width) (el : bytes) : rres dval :=
  if sg then
    rmap XInt (match w with W1 => el_i8 el | W2 => el_i16 el | W4 => el_i32 el | W8 => el_i64 el end)
  else
    rmap (fun n => XInt (Z.of_N n))
      (match w with W1 => el_u8 el | W2 => el_u16 el | W4 => el_u32 el | W8 => el_u64 el end).

(** [T::default()] for the padding of [[T; N]] *)
Fixpoint ddefault (d : dty) : dval :=
  match d with
  | DInt _ _ => XInt 0
  | DBool => XBool false
  | DF32 | DF64 => XBits 0
  | DOctets | DUtf8 => XBytes []
  | DOption _ => XNone
  | DNullable _ => XNull
  | DVec _ _ => XList []
  | DFixed n d' => XList (repeat (ddefault d') n)
  | DStruct _ _ fs => XRec (map (fun f => ddefault (snd f)) fs)
  | DEnum _ _ => XVar 0 XNone
  | DUnit _ _ => XUnit 0
  end.

(** the sequence a [TLVContainer] iterates: the content of the container,
    or (absent / not a container) one that yields a single error *)
Definition container_or_malformed (el : bytes) : bytes :=
  match el_container el with ROk s => s | _ => [255] end.

Fixpoint index_of (n : N) (vals : list N) (i : nat) : option nat :=
  match vals with
  | [] => None
  | x :: r => if x =? n then Some i else index_of n r (S i)
  end.

(** [TLVArray::new(element)?] then [for item in array { vec.push(item?) }]: [dec] decodes
    one item, [room count] says whether the collection still has room after [count] items *)
Fixpoint arr_loop (dec : bytes -> rres dval) (room : N -> bool) (fuel : nat) (s : bytes) (count : N)
  : rres (list dval) :=
  match fuel with
  | O => RFuel
  | S f =>
      match seq_iter_next s with
      | (ROk None, _) => ROk []
      | (ROk (Some e), s') =>
          let! x := dec e in
          let! _ := (if room count then ROk tt else RErr E_CONSTRAINT) in
          let! r := arr_loop dec room f s' (count + 1) in
          ROk (x :: r)
      | (RErr c, _) => RErr c
      | (RPanic p, _) => RPanic p
      | (RFuel, _) => RFuel
      end
  end.

Definition dec_array (dec : bytes -> rres dval) (room : N -> bool) (el : bytes) : rres (list dval) :=
  let! _ := (if is_nil el then ROk tt else rmap (fun _ => tt) (el_array el)) in
  arr_loop dec room (S (S (length el))) (container_or_malformed el) 0.

Fixpoint ddec (d : dty) (el : bytes) {struct d} : rres dval :=
  match d with
  | DInt sg w => dec_int sg w el
  | DBool => rmap XBool (el_bool el)
  | DF32 => rmap XBits (el_f32 el)
  | DF64 => rmap XBits (el_f64 el)
  | DOctets => rmap XBytes (el_str el)
  | DUtf8 => rmap XBytes (el_utf8 el)
  | DOption d' => if is_nil el then ROk XNone else rmap XSome (ddec d' el)
  | DNullable d' =>
      let! c := control el in
      match snd c with
      | TNull => ROk XNull
      | _ =>
          (* nullable_from_tlv *)
          let! x := ddec d' el in
          match d', x with
          | DInt sg w, XInt z => if (z =? int_excluded sg w)%Z then RErr E_CONSTRAINT else ROk (XNN x)
          | DUnit w16 vals, XUnit i =>
              match nth_error vals i with
              | Some n => if n =? (if w16 then 65535 else 255) then RErr E_CONSTRAINT else ROk (XNN x)
              | None => ROk (XNN x)
              end
          | _, _ => ROk (XNN x)
          end
      end
  | DVec cap d' =>
      let! l := dec_array (ddec d')
                  (fun count => match cap with Some n => count <? n | None => true end) el in
      ROk (XList l)
  | DFixed n d' =>
      let! l := dec_array (ddec d') (fun count => count <? N.of_nat n) el in
      ROk (XList (l ++ repeat (ddefault d') (n - length l)))
  | DStruct k ordered fs =>
      let! sq := (match k with
                  | KStruct => el_struct el
                  | KArray => el_array el
                  | KList => el_list el
                  end) in
      let! xs :=
        (fix go (fs : list (N * dty)) (sq : bytes) : rres (list dval) :=
           match fs with
           | [] => ROk []
           | (ft, fd) :: fr =>
               if ordered then
                 let! r := seq_scan_ctx sq ft in
                 let! x := ddec fd (fst r) in
                 let! xs := go fr (snd r) in
                 ROk (x :: xs)
               else
                 let! e := seq_find_ctx sq ft in
                 let! x := ddec fd e in
                 let! xs := go fr sq in
                 ROk (x :: xs)
           end) fs sq in
      ROk (XRec xs)
  | DEnum naked vs =>
      let! e := (if naked then ROk el
                 else
                   let! sq := el_struct el in
                   match seq_iter_next sq with
                   | (ROk (Some e), _) => ROk e
                   | (ROk None, _) => RErr E_TM
                   | (RErr c, _) => RErr c
                   | (RPanic p, _) => RPanic p
                   | (RFuel, _) => RFuel
                   end) in
      let! oc := el_try_ctx e in
      let! tg := ok_or E_TM oc in
      (fix pick (vs : list (N * dty)) (i : nat) : rres dval :=
         match vs with
         | [] => RErr E_INV
         | (vt, vd) :: r => if vt =? tg then rmap (XVar i) (ddec vd e) else pick r (S i)
         end) vs O
  | DUnit w16 vals =>
      let! n := (if w16 then el_u16 el else el_u8 el) in
      match index_of n vals O with
      | Some i => ROk (XUnit i)
      | None => RErr E_INV
      end
  end.

(** * The zoo: the descriptions of the derived types the harness instantiates
    (harness/src/bin/c16.rs, same numbering) *)
Definition u8_ := DInt false W1.
Definition u16_ := DInt false W2.
Definition u32_ := DInt false W4.
Definition u64_ := DInt false W8.
Definition i8_ := DInt true W1.
Definition i16_ := DInt true W2.
Definition i32_ := DInt true W4.
Definition i64_ := DInt true W8.

Definition z_inner : dty := DStruct KStruct false [(0, u8_); (1, DOption i32_); (2, DBool)].
Definition z_unit8 : dty := DUnit false [0; 1; 7; 254].
Definition z_unit16 : dty := DUnit true [0; 300; 65534].

Definition zoo (i : N) : option dty :=
  match i with
  | 0 => Some z_inner
  | 1 => Some (DStruct KStruct false
                 [(0, u8_); (1, u16_); (2, u32_); (3, u64_); (4, i8_); (5, i16_); (6, i32_); (7, i64_)])
  | 2 => Some (DStruct KStruct false [(0, DBool); (1, DOctets); (2, DUtf8); (3, DF32); (4, DF64)])
  | 3 => Some (DStruct KStruct false
                 [(0, DOption u8_); (1, DOption DUtf8); (2, DOption z_inner); (3, DOption (DNullable u16_))])
  | 4 => Some (DStruct KStruct false
                 [(0, DNullable u8_); (1, DNullable i64_); (2, DNullable DBool); (3, DNullable DOctets);
                  (4, DNullable z_inner); (5, DNullable z_unit8)])
  | 5 => Some (DStruct KList false [(0, DOption u16_); (1, DOption u64_)])
  | 6 => Some (DStruct KStruct false [(3, u8_); (4, u16_); (254, u8_)])          (* start = 3, tagval *)
  | 7 => Some (DStruct KStruct true [(0, u8_); (1, DOption u32_); (2, DUtf8); (5, DOption DBool)])
                                                                               (* assume_ordered *)
  | 8 => Some (DEnum false [(0, u32_); (1, z_inner)])
  | 9 => Some (DEnum true [(0, u32_); (1, DUtf8); (2, z_inner)])                (* datatype = "naked" *)
  | 10 => Some z_unit8
  | 11 => Some z_unit16
  | 12 => Some (DStruct KStruct false [(0, DVec (Some 4) u16_); (1, DVec (Some 3) z_inner)])
  | 13 => Some (DStruct KStruct false [(0, DFixed 3 u8_); (1, DFixed 2 i16_)])
  | 14 => Some (DStruct KStruct false
                 [(0, z_inner); (1, DStruct KList false [(0, DOption u16_); (1, DOption u64_)]);
                  (2, DEnum false [(0, u32_); (1, z_inner)]); (3, z_unit8)])
  | 15 => Some u32_                                                             (* newtype over u32 *)
  | 16 => Some (DEnum false [(2, u8_); (5, DOctets); (9, DVec (Some 2) u8_)])    (* enumval *)
  | 17 => Some (DStruct KStruct false [(0, DVec (Some 2) (DVec (Some 2) u8_)); (1, DOption (DVec (Some 2) DUtf8))])
  (* wire structs of rs-matter::im *)
  | 20 => Some (DStruct KList false                                             (* AttrPath *)
                  [(0, DOption DBool); (1, DOption u64_); (2, DOption u16_); (3, DOption u32_);
                   (4, DOption u32_); (5, DOption (DNullable u16_))])
  | 21 => Some (DStruct KList false                                             (* EventPath *)
                  [(0, DOption u64_); (1, DOption u16_); (2, DOption u32_); (3, DOption u32_);
                   (4, DOption DBool)])
  | 22 => Some (DStruct KList false [(0, DOption u16_); (1, DOption u32_); (2, DOption u32_)]) (* CmdPath *)
  | 23 => Some (DStruct KStruct false                                           (* DataVersionFilter *)
                  [(0, DStruct KList false [(0, DOption u64_); (1, u16_); (2, u32_)]); (1, u32_)])
  | 24 => Some (DStruct KStruct false [(0, u16_); (255, DOption u8_)])          (* TimedReq *)
  | _ => None
  end.
