(** [WriteBuf] (utils/storage/writebuf.rs) as a [TLVWrite] with a capacity:
    every [TLVWrite] method is a sequence of single-byte [write]s
    ([WriteBuf::append(&[byte])]), each of which either stores the byte at
    [end] and advances [end], or fails with [NoSpace] leaving the buffer
    as it was; [?] stops at the first failure.  [get_tail]/[rewind_to]
    read / set [end] (unchecked, as in the code).  The derived encoders
    ([denc_wb]) record an anchor and rewind to it when anything inside a
    structure / enum fails.  No proofs in this file. *)
From Coq Require Import NArith ZArith List Bool.
From RsM Require Import Model.Tlv Model.TlvDerive.
Import ListNotations.
Open Scope N_scope.

Definition E_NOSPACE : N := 6.
Definition P_BUF_INDEX : N := 7.     (* buf[end] / &buf[start..end] out of range *)

Record wbuf := mkWb {
  wb_mem : bytes;     (* the whole backing slice *)
  wb_size : N;        (* buf_size *)
  wb_start : N;
  wb_end : N
}.

(** [WriteBuf::new(&mut [0; cap])] *)
Definition wb_new (mem : bytes) : wbuf := mkWb mem (blen mem) 0 0.

Definition upd (i : nat) (b : N) (l : bytes) : bytes := firstn i l ++ b :: skipn (S i) l.

(** [TLVWrite::write] = [append(&[byte])] = [append_with(1, |x| x.buf[x.end] = byte)] *)
Definition wb_write (w : wbuf) (b : N) : rres unit * wbuf :=
  if wb_end w + 1 <=? wb_size w then
    if wb_end w <? blen (wb_mem w) then
      (ROk tt, mkWb (upd (N.to_nat (wb_end w)) b (wb_mem w)) (wb_size w) (wb_start w) (wb_end w + 1))
    else (RPanic P_BUF_INDEX, w)
  else (RErr E_NOSPACE, w).

(** [write_raw_data]: byte by byte, stop at the first failure *)
Fixpoint wb_write_all (w : wbuf) (bs : bytes) : rres unit * wbuf :=
  match bs with
  | [] => (ROk tt, w)
  | b :: r =>
      match wb_write w b with
      | (ROk _, w') => wb_write_all w' r
      | (e, w') => (e, w')
      end
  end.

Definition wb_get_tail (w : wbuf) : N := wb_end w.
Definition wb_rewind_to (w : wbuf) (pos : N) : wbuf :=
  mkWb (wb_mem w) (wb_size w) (wb_start w) pos.

(** [as_slice]: [&self.buf[self.start..self.end]] *)
Definition wb_as_slice (w : wbuf) : rres bytes :=
  if (wb_start w <=? wb_end w) && (wb_end w <=? blen (wb_mem w)) then
    ROk (firstn (N.to_nat (wb_end w - wb_start w)) (skipn (N.to_nat (wb_start w)) (wb_mem w)))
  else RPanic P_BUF_INDEX.

(** any [TLVWrite] method *)
Definition wb_op (w : wbuf) (o : wop) : rres unit * wbuf := wb_write_all w (w_op o).

(** a script against one [WriteBuf]: writer calls, anchors, rewinds *)
Inductive bop :=
| BOp (o : wop)
| BAnchor                 (* push [get_tail()] *)
| BRewind (k : nat).      (* [rewind_to] the k-th recorded anchor *)

(** results: one per [BOp] (ok / error), final buffer *)
Fixpoint wb_run (w : wbuf) (anchors : list N) (ops : list bop) : list (rres unit) * wbuf :=
  match ops with
  | [] => ([], w)
  | BOp o :: r =>
      let '(res, w') := wb_op w o in
      let '(rs, w'') := wb_run w' anchors r in (res :: rs, w'')
  | BAnchor :: r => wb_run w (anchors ++ [wb_get_tail w]) r
  | BRewind k :: r =>
      match nth_error anchors k with
      | Some a => wb_run (wb_rewind_to w a) anchors r
      | None => wb_run w anchors r
      end
  end.

(** * The derived encoders on a [WriteBuf] *)

Definition with_anchor (w : wbuf) (body : wbuf -> rres unit * wbuf) : rres unit * wbuf :=
  let anchor := wb_get_tail w in
  match body w with
  | (ROk u, w') => (ROk u, w')
  | (e, w') => (e, wb_rewind_to w' anchor)
  end.

Definition seqw (a : wbuf -> rres unit * wbuf) (b : wbuf -> rres unit * wbuf) (w : wbuf) :
  rres unit * wbuf :=
  match a w with
  | (ROk _, w') => b w'
  | (e, w') => (e, w')
  end.

Fixpoint denc_wb (d : dty) (t : tag) (v : dval) (w : wbuf) {struct d} : rres unit * wbuf :=
  match d, v with
  | DInt sg wd, XInt z => wb_write_all w (w_int sg wd t z)
  | DBool, XBool b => wb_write_all w (w_bool t b)
  | DF32, XBits b => wb_write_all w (w_f32 t b)
  | DF64, XBits b => wb_write_all w (w_f64 t b)
  | DOctets, XBytes s => wb_write_all w (w_str t s)
  | DUtf8, XBytes s => wb_write_all w (w_utf8 t s)
  | DOption _, XNone => (ROk tt, w)
  | DOption d', XSome x => denc_wb d' t x w
  | DNullable _, XNull => wb_write_all w (w_null t)
  | DNullable d', XNN x =>
      match d', x with
      | DInt sg wd, XInt z =>
          if (z =? int_excluded sg wd)%Z then (RErr E_CONSTRAINT, w) else denc_wb d' t x w
      | DUnit w16 vals, XUnit i =>
          match nth_error vals i with
          | Some n => if n =? (if w16 then 65535 else 255) then (RErr E_CONSTRAINT, w)
                      else denc_wb d' t x w
          | None => (RErr E_ILL, w)
          end
      | _, _ => denc_wb d' t x w
      end
  | DVec _ d', XList l | DFixed _ d', XList l =>
      (* to_tlv_array: no anchor of its own *)
      seqw (fun w => wb_write_all w (w_start t KArray))
        (seqw
           ((fix go (l : list dval) (w : wbuf) : rres unit * wbuf :=
               match l with
               | [] => (ROk tt, w)
               | x :: r => seqw (denc_wb d' TgAnon x) (go r) w
               end) l)
           (fun w => wb_write_all w w_end)) w
  | DStruct k _ fs, XRec vs =>
      with_anchor w
        (seqw (fun w => wb_write_all w (w_start t k))
           (seqw
              ((fix go (fs : list (N * dty)) (vs : list dval) (w : wbuf) : rres unit * wbuf :=
                  match fs, vs with
                  | [], [] => (ROk tt, w)
                  | (ft, fd) :: fr, fv :: vr => seqw (denc_wb fd (TgCtx ft) fv) (go fr vr) w
                  | _, _ => (RErr E_ILL, w)
                  end) fs vs)
              (fun w => wb_write_all w w_end)))
  | DEnum naked vs, XVar i x =>
      let body :=
        (fix pick (vs : list (N * dty)) (i : nat) (w : wbuf) : rres unit * wbuf :=
           match vs, i with
           | (vt, vd) :: _, O => denc_wb vd (TgCtx vt) x w
           | _ :: r, S j => pick r j w
           | [], _ => (RErr E_ILL, w)
           end) vs i in
      with_anchor w
        (if naked then body
         else seqw (fun w => wb_write_all w (w_start t KStruct))
                (seqw body (fun w => wb_write_all w w_end)))
  | DUnit w16 vals, XUnit i =>
      match nth_error vals i with
      | Some n => with_anchor w (fun w => wb_write_all w (if w16 then w_u16 t n else w_u8 t n))
      | None => (RErr E_ILL, w)
      end
  | _, _ => (RErr E_ILL, w)
  end.

(** * Monitors for the capacity cases (run on the implementation's outputs) *)

(** types whose derived [to_tlv] records an anchor and rewinds on failure *)
Definition atomic_ty (d : dty) : bool :=
  match d with DStruct _ _ _ | DEnum _ _ | DUnit _ _ => true | _ => false end.

Fixpoint bytes_eqb' (a b : bytes) : bool :=
  match a, b with
  | [], [] => true
  | x :: a', y :: b' => (x =? y) && bytes_eqb' a' b'
  | _, _ => false
  end.

(** whatever the outcome of a write, what was in the buffer before it is still there;
    a failed write of an atomic type leaves exactly that *)
Definition mon_prefix_intact (d : dty) (prefix slice : bytes) (ok : bool) : bool :=
  bytes_eqb' prefix (firstn (length prefix) slice)
  && (ok || negb (atomic_ty d) || bytes_eqb' prefix slice).
