(** Executable form of property C17 (the monitors): boolean checks that are
    evaluated on the IMPLEMENTATION's outputs.  Two shapes per format:
      [mon_*_rt]  : a legal value was encoded by the implementation and its
                    encoding (plus a suffix) decoded again: the decoder must
                    return exactly the value, and consume exactly the encoding;
      [mon_*_dec] : the decoder was given an arbitrary string: it must not
                    panic, and whatever it accepts must be well-formed (and,
                    for the canonical formats, be the encoding of what it
                    returned). *)
From RsM Require Export Lib.MachInt Model.Headers Model.Codecs.
Open Scope N_scope.

Definition plain_eqb (a b : plain_hdr) : bool :=
  (p_flags a =? p_flags b) && (p_sess a =? p_sess b) && (p_sec a =? p_sec b) &&
  (p_ctr a =? p_ctr b) && (p_src a =? p_src b) && (p_dst a =? p_dst b).

Definition proto_eqb (a b : proto_hdr) : bool :=
  (x_exch a =? x_exch b) && (x_flags a =? x_flags b) && (x_proto a =? x_proto b) &&
  (x_opcode a =? x_opcode b) && (x_vendor a =? x_vendor b) && (x_ack a =? x_ack b).

(** decoder outputs as the harness reports them: header and number of bytes consumed *)
Definition mon_plain_rt (h : plain_hdr) (enc : list N)
           (dec : res (plain_hdr * nat)) : bool :=
  if plain_wf h then
    Nat.leb (length enc) 24 && bytesb enc &&
    match dec with
    | Ok (h', n) => plain_eqb h h' && Nat.eqb n (length enc)
    | _ => false
    end
  else match dec with Panic _ => false | _ => true end.

Definition mon_plain_dec (input : list N) (dec : res (plain_hdr * nat)) : bool :=
  match dec with
  | Ok (h, n) => plain_wf h && Nat.leb n (length input) &&
                 list_eqb (plain_encode h) (firstn n input)
  | Err _ => true
  | Panic _ => false
  end.

Definition mon_proto_rt (h : proto_hdr) (enc : list N)
           (dec : res (proto_hdr * nat)) : bool :=
  if proto_wf h then
    Nat.leb (length enc) 12 && bytesb enc &&
    match dec with
    | Ok (h', n) => proto_eqb h h' && Nat.eqb n (length enc)
    | _ => false
    end
  else match dec with Panic _ => false | _ => true end.

Definition mon_proto_dec (input : list N) (dec : res (proto_hdr * nat)) : bool :=
  match dec with
  | Ok (h, n) => proto_wf h && Nat.leb n (length input) &&
                 list_eqb (proto_encode h) (firstn n input)
  | Err _ => true
  | Panic _ => false
  end.

(** base-38 *)
Definition mon_b38_rt (bs : list N) (enc : list N) (dec : res (list N)) : bool :=
  forallb (fun c => existsb (N.eqb c) B38_CHARS) enc &&
  match dec with Ok bs' => list_eqb bs bs' | _ => false end.

Definition mon_b38_dec (s : list N) (dec : res (list N)) : bool :=
  match dec with
  | Ok bs => bytesb bs && list_eqb (b38_encode bs) s
  | Err _ => true
  | Panic _ => false
  end.

(** manual pairing code *)
Definition manual_eqb (a b : manual_payload) : bool :=
  Bool.eqb (m_long a) (m_long b) && (m_short_disc a =? m_short_disc b) &&
  (m_passcode a =? m_passcode b) && (m_vid a =? m_vid b) && (m_pid a =? m_pid b).

Definition mon_manual_rt (passcode disc : N) (code : res (list N))
           (parsed : res manual_payload) : bool :=
  if (passcode <? 134217728) && (disc <? 4096) then
    match code, parsed with
    | Ok c, Ok p =>
        Nat.eqb (length c) 11 &&
        manual_eqb p (mkManual false (disc / 256) passcode 0 0)
    | _, _ => false
    end
  else
    (* outside the legal range the encoder may refuse (it panics when the digit groups
       do not fit ten characters); if it printed a code, parsing it must not panic *)
    match code, parsed with Ok _, Panic _ => false | _, _ => true end.

(** whatever the parser accepts has a valid check digit over all its digits,
    the right length for its form, and fields in range *)
Definition mon_manual_dec (code : list N) (parsed : res manual_payload) : bool :=
  match parsed with
  | Ok p =>
      match manual_strip code [] with
      | Ok ds =>
          Nat.eqb (length ds) (if m_long p then 21 else 11) && vh_validate ds &&
          (m_passcode p <? 134217728) && (m_short_disc p <? 16) &&
          (m_vid p <? two16) && (m_pid p <? two16) &&
          (dec_val (slice ds 0 1) <=? 7)
      | _ => false
      end
  | Err _ => true
  | Panic _ => false
  end.

(** QR payload *)
Definition qr_eqb (a b : qr_payload) : bool :=
  (q_version a =? q_version b) && (q_vid a =? q_vid b) && (q_pid a =? q_pid b) &&
  (q_flow a =? q_flow b) && (q_caps a =? q_caps b) && (q_disc a =? q_disc b) &&
  (q_pass a =? q_pass b).

Definition mon_qr_rt (p : qr_payload) (tail : list N) (enc : list N)
           (dec : res (qr_payload * list N)) : bool :=
  if qr_valid p && bytesb tail then
    match dec with
    | Ok (p', t') => qr_eqb p p' && list_eqb tail t'
    | _ => false
    end
  else match dec with Panic _ => false | _ => true end.

Definition mon_qr_dec (s : list N) (dec : res (qr_payload * list N)) : bool :=
  match dec with
  | Ok (p, t) => qr_valid p && bytesb t
  | Err _ => true
  | Panic _ => false
  end.

(** StatusReport *)
Definition sr_eqb (a b : status_report) : bool :=
  (sr_general a =? sr_general b) && (sr_proto_id a =? sr_proto_id b) &&
  (sr_proto_code a =? sr_proto_code b) && list_eqb (sr_data a) (sr_data b).

Definition mon_sr_rt (r : status_report) (enc : list N) (dec : res status_report) : bool :=
  if sr_valid r then
    match dec with Ok r' => sr_eqb r r' | _ => false end
  else match dec with Panic _ => false | _ => true end.

Definition mon_sr_dec (input : list N) (dec : res status_report) : bool :=
  match dec with
  | Ok r => sr_valid r && list_eqb (sr_encode r) input
  | Err _ => true
  | Panic _ => false
  end.

(** what the model itself answers, in the shape the monitors take *)
Definition consumed {A} (input : list N) (r : res (A * list N)) : res (A * nat) :=
  match r with
  | Ok (h, rest) => Ok (h, (length input - length rest)%nat)
  | Err e => Err e
  | Panic s => Panic s
  end.
