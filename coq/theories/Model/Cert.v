(** Model of the operational-certificate chain verifier of rs-matter:
      rs-matter/src/cert.rs        CertRef accessors, CertVerifier (add_cert / finalise / verify_usage)
      rs-matter/src/sc/case/casep.rs   CaseP::validate_certs  (+ the node-id extraction of the Sigma handlers)
      rs-matter/src/failsafe.rs    add_trusted_root_cert, add_noc, update_noc, validate_certs
    over ABSTRACT certificates.  Transcribed check by check, in the order
    of the code, with the error code of every exit.  No proofs in this file.

    ECDSA is IDEAL (symbolic): a certificate carries [signer], the identity
    of the one key pair whose public half verifies its signature over its
    own to-be-signed bytes ([None] = no key verifies it: a flipped signature
    bit, or any field changed after signing).  EUF-CMA / uniqueness of the
    verifying key are assumed by this construction, not proved. *)
From RsM Require Export Lib.MachInt.
Open Scope N_scope.

(** Error classes (the harness maps [ErrorCode] onto the same numbers). *)
Definition E_INVALID      : N := 1.   (* ErrorCode::Invalid *)
Definition E_AUTHKEY      : N := 2.   (* ErrorCode::InvalidAuthKey *)
Definition E_SIG          : N := 3.   (* ErrorCode::InvalidSignature *)
Definition E_TIME         : N := 4.   (* ErrorCode::InvalidTime *)
Definition E_DATA         : N := 5.   (* ErrorCode::InvalidData *)
Definition E_NONODE       : N := 6.   (* ErrorCode::NoNodeId *)
Definition E_NOFABRIC     : N := 7.   (* ErrorCode::NoFabricId *)
Definition E_NOC_INVALID  : N := 8.   (* ErrorCode::NocInvalidNoc *)
Definition E_NOC_PUBKEY   : N := 9.   (* ErrorCode::NocInvalidPublicKey *)
Definition E_NOC_CONFLICT : N := 10.  (* ErrorCode::NocFabricConflict *)
Definition E_NOC_ADMIN    : N := 11.  (* ErrorCode::NocInvalidAdminSubject *)
Definition E_INVCMD       : N := 12.  (* ErrorCode::InvalidCommand *)

(** Distinguished-name attribute tags ([DNTag]). *)
Definition DN_NODE   : N := 17.
Definition DN_ICA    : N := 19.
Definition DN_RCA    : N := 20.
Definition DN_FABRIC : N := 21.
Definition DN_CAT    : N := 22.

(** Key-usage bits in the Matter-TLV encoding ([x509::key_usage_tlv]). *)
Definition KU_DIGITAL_SIGNATURE : N := 1.
Definition KU_KEY_CERT_SIGN     : N := 32.
(** Extended key usage purposes. *)
Definition EKU_SERVER_AUTH : N := 1.
Definition EKU_CLIENT_AUTH : N := 2.

(** A distinguished name: the attributes in certificate order, (tag, value). *)
Definition dn := list (N * N).

Record cert := mkCert {
  subject    : dn;
  issuer     : dn;
  skid       : option N;                    (* SubjectKeyId extension *)
  akid       : option N;                    (* AuthorityKeyId extension *)
  pubkey     : N;                           (* identity of the certified key pair *)
  signer     : option N;                    (* ideal ECDSA, see above *)
  not_before : N;                           (* u32, Matter-epoch seconds *)
  not_after  : N;                           (* u32, 0 = no expiry *)
  bc         : option (bool * option N);    (* BasicConstraints (cA, pathLen) *)
  ku         : option N;                    (* KeyUsage bits *)
  eku        : option (list N);             (* ExtendedKeyUsage purposes *)
  crit_ext   : bool                         (* a future-extension with critical = TRUE *)
}.

(** [UtcTime]: micro-seconds since the Matter epoch. *)
Inductive clock := Reliable (us : N) | LastKnown (us : N).

Definition any_secs (t : clock) : N :=
  match t with Reliable us | LastKnown us => us / 1000000 end.
Definition reliable_secs (t : clock) : option N :=
  match t with Reliable us => Some (us / 1000000) | LastKnown _ => None end.

(** [subject().iter().do_try_find(|dn| dn.tag() == tag)] then [uint()] *)
Fixpoint dn_find (tag : N) (l : dn) : option N :=
  match l with
  | [] => None
  | (t, v) :: r => if t =? tag then Some v else dn_find tag r
  end.

Definition get_node_id (c : cert) : option N := dn_find DN_NODE (subject c).
Definition get_fabric_id (c : cert) : option N := dn_find DN_FABRIC (subject c).

(** [CertRef::cert_type]: the first type attribute of the subject. *)
Inductive ctype := TNoc | TIcac | TRcac.
Fixpoint cert_type_of (l : dn) : option ctype :=
  match l with
  | [] => None
  | (t, _) :: r =>
      if t =? DN_NODE then Some TNoc
      else if t =? DN_ICA then Some TIcac
      else if t =? DN_RCA then Some TRcac
      else cert_type_of r
  end.

(** attribute-wise comparison of two names ([CertRef::is_issued_by_name]) *)
Fixpoint dn_eqb (a b : dn) : bool :=
  match a, b with
  | [], [] => true
  | (t1, v1) :: r1, (t2, v2) :: r2 => (t1 =? t2) && (v1 =? v2) && dn_eqb r1 r2
  | _, _ => false
  end.

(** [CertRef::is_authority]: [their.get_subject_key_id()?] fails with
    [Invalid] when the parent has no SubjectKeyId. *)
Definition is_authority (c p : cert) : res bool :=
  match skid p with
  | None => Err E_INVALID
  | Some s => Ok (match akid c with Some a => a =? s | None => false end)
  end.

(** ideal [PublicKey::verify] of the certificate's signature under key [k] *)
Definition verify_sig (c : cert) (k : N) : bool :=
  match signer c with Some s => s =? k | None => false end.

Definition has_bits (v mask : N) : bool := negb (N.land v mask =? 0).
Definition mem (x : N) (l : list N) : bool := existsb (N.eqb x) l.

(** [CertVerifier::verify_usage]; [root] = the step made by [finalise]. *)
Definition verify_usage (depth : N) (root : bool) (c : cert) : res unit :=
  if crit_ext c then Err E_DATA else
  match cert_type_of (subject c) with
  | None => Err E_DATA
  | Some ty =>
    match ku c with
    | None => Err E_DATA
    | Some k =>
      let leaf := (depth =? 0) && negb root in
      match ty with
      | TNoc =>
          if negb leaf then Err E_DATA else
          match bc c with
          | None => Err E_DATA
          | Some (ca, _) =>
              if ca then Err E_DATA else
              if negb (has_bits k KU_DIGITAL_SIGNATURE) then Err E_DATA else
              match eku c with
              | None => Err E_DATA
              | Some e =>
                  if mem EKU_SERVER_AUTH e && mem EKU_CLIENT_AUTH e then Ok tt
                  else Err E_DATA
              end
          end
      | TIcac | TRcac =>
          if leaf then Err E_DATA else
          match bc c with
          | None => Err E_DATA
          | Some (ca, pl) =>
              if negb ca then Err E_DATA else
              if negb (has_bits k KU_KEY_CERT_SIGN) then Err E_DATA else
              match pl with
              | Some m => if (0 <? depth) && (m <? depth - 1) then Err E_DATA else Ok tt
              | None => Ok tt
              end
          end
      end
    end
  end.

(** One step of the verifier ([add_cert], or [finalise] when [root]):
    the certificate [c] at [depth] against its claimed issuer [p]. *)
Definition step (t : clock) (depth : N) (c p : cert) (root : bool) : res unit :=
  let? a := is_authority c p in
  if negb a then Err E_AUTHKEY else
  if negb (dn_eqb (issuer c) (subject p)) then Err E_AUTHKEY else
  if negb (verify_sig c (pubkey p)) then Err E_SIG else
  if (0 <? not_after c) && (not_after c <? any_secs t) then Err E_TIME else
  if (match reliable_secs t with Some s => s <? not_before c | None => false end)
  then Err E_TIME else
  verify_usage depth root c.

(** [self.depth.saturating_add(1)] on u8 *)
Definition sat_inc (d : N) : N := if d <? 255 then d + 1 else 255.

(** [c.verify_chain_start(..).add_cert(p1)?.add_cert(p2)? ... .finalise()] *)
Fixpoint verify_from (t : clock) (depth : N) (c : cert) (rest : list cert) : res unit :=
  match rest with
  | [] => step t depth c c true
  | p :: rest' =>
      let? _ := step t depth c p false in
      verify_from t (sat_inc depth) p rest'
  end.

Definition verify_chain (t : clock) (cs : list cert) : res unit :=
  match cs with
  | [] => Err E_INVALID
  | c :: rest => verify_from t 0 c rest
  end.

Definition opt_list {A} (o : option A) : list A :=
  match o with Some x => [x] | None => [] end.

(** [CaseP::validate_certs] (casep.rs) *)
Definition case_validate (t : clock) (fabric_id : N) (root noc : cert) (icac : option cert)
  : res unit :=
  match get_fabric_id noc with
  | None => Err E_NOFABRIC
  | Some f =>
    if negb (f =? fabric_id) then Err E_INVALID else
    if (match icac with
        | Some i => match get_fabric_id i with Some fi => negb (fi =? fabric_id) | None => false end
        | None => false
        end) then Err E_INVALID else
    verify_from t 0 noc (opt_list icac ++ [root])
  end.

(** What the Sigma2 / Sigma3 handlers do with the peer's chain: validate,
    then take the peer node id from the NOC ([get_node_id()?]). *)
Definition case_admit (t : clock) (fabric_id : N) (root noc : cert) (icac : option cert)
  : res N :=
  let? _ := case_validate t fabric_id root noc icac in
  match get_node_id noc with
  | None => Err E_NONODE
  | Some n => Ok n
  end.

(** [FailSafe::validate_certs] (failsafe.rs) *)
Definition fs_validate (t : clock) (root noc : cert) (icac : option cert) : res unit :=
  match icac with
  | Some i =>
      let? self_signed := is_authority i i in
      if self_signed then Err E_DATA else verify_from t 0 noc [i; root]
  | None => verify_from t 0 noc [root]
  end.

Definition map_err {A} (r : res A) (code : N) : res A :=
  match r with Ok v => Ok v | Err _ => Err code | Panic s => Panic s end.

(** [acl::is_node], [acl::is_noc_cat] *)
Definition is_node (id : N) : bool := (1 <=? id) && (id <=? 18446744004990074879).
Definition is_noc_cat (id : N) : bool :=
  (id / two32 =? 4294967293) && (0 <? id mod two32).

(** [FailSafe::add_trusted_root_cert] after [check_state]. *)
Definition add_root (t : clock) (root : cert) : res unit :=
  let? _ := map_err (verify_from t 0 root []) E_INVCMD in
  match bc root with
  | Some (_, Some m) => if 1 <? m then Err E_INVCMD else Ok tt
  | _ => Ok tt
  end.

(** [FailSafe::add_noc] after [check_state], followed by [Fabrics::add]
    (fabric table not full).  [fabrics]: (fabric id, root public key) of
    the installed fabrics; [csr_key]: the key pair generated by the last
    CSRRequest; [root]: the staged trusted root.  Result: (fabric id,
    node id, root public key) of the new fabric. *)
Definition add_noc (t : clock) (fabrics : list (N * N)) (csr_key admin : N)
    (root noc : cert) (icac : option cert) : res (N * N * N) :=
  if negb (is_node admin) && negb (is_noc_cat admin) then Err E_NOC_ADMIN else
  let? _ := map_err (fs_validate t root noc icac) E_NOC_INVALID in
  if negb (csr_key =? pubkey noc) then Err E_NOC_PUBKEY else
  match get_fabric_id noc with
  | None => Err E_NOFABRIC
  | Some fid =>
      if existsb (fun f => (fid =? fst f) && (pubkey root =? snd f)) fabrics
      then Err E_NOC_CONFLICT else
      match get_node_id noc with
      | None => Err E_NONODE
      | Some nid => Ok (fid, nid, pubkey root)
      end
  end.

(** [FailSafe::update_noc] after [check_state], followed by
    [Fabrics::update].  [fabric_id], [root]: of the fabric the CASE
    session belongs to. *)
Definition update_noc (t : clock) (fabric_id : N) (csr_key : N)
    (root noc : cert) (icac : option cert) : res (N * N) :=
  let? _ := map_err (fs_validate t root noc icac) E_NOC_INVALID in
  if negb (csr_key =? pubkey noc) then Err E_NOC_PUBKEY else
  match get_fabric_id noc with
  | None => Err E_NOFABRIC
  | Some fid =>
      if negb (fid =? fabric_id) then Err E_NOC_CONFLICT else
      match get_node_id noc with
      | None => Err E_NONODE
      | Some nid => Ok (fid, nid)
      end
  end.
