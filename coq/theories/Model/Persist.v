(** Model for property C11 - persisted state survives a crash at any point and
    reloads to what was committed.  Executable definitions only (no proofs).

    Transcribed from rs-matter (tree with the repairs listed in design.d/C11.md):
      persist.rs                 key layout, Persist::store / store_tlv / remove
      lib.rs                     Matter::startup / factory_reset (order of the loads / removes)
      fabric.rs                  Fabrics::load_persist / add_load / reset_persist, FabricPersist
      im.rs                      InteractionModel::startup / factory_reset, notify_fabric_removed,
                                 check_timeouts
      failsafe.rs                arm / expire / check_disarm / is_armed_for / has_pending_noc_for
      dm/clusters/acl.rs, grp_key_mgmt.rs, noc.rs (UpdateFabricLabel, SetVIDVerificationStatement,
      RemoveFabric, AddNOC, UpdateNOC), gen_comm.rs (ArmFailSafe, SetRegulatoryConfig,
      CommissioningComplete), basic_info.rs, binding.rs, user_label.rs, net_comm.rs,
      sc/case/resumption.rs      load_persist (soft-fail), store_persist, retain_fabrics

    A node is RAM (the in-memory copy of every persisted structure, the
    fail-safe context, the commissioner's PASE session) plus the key-value
    store.  Every operation returns the list of its effects IN CODE ORDER:
    key-value operations and the answer to the peer, so that a power loss can
    be placed after any key-value operation ([replay] of a prefix) and the
    position of the answer relative to the writes is explicit.

    Abstractions.  The contents of a structure are tokens (a number names an
    access control list, a label, a binding list ...; the harness builds the
    real value from the token and maps what it reads back to the token, up to
    the capacity limits).  The byte encodings are the section variables
    [enc_* / dec_*] with the hypotheses [dec (enc v) = Some v] (checked on the
    real codecs by the harness).  Certificates, keys and sessions are as in
    C08 (tokens; every fabric has the administrator's entry). *)
From Coq Require Import NArith Arith List Bool.
Import ListNotations.
Open Scope N_scope.

(** ** Constants of the build under test *)
Definition MAX_FABRICS : nat := 5.
Definition MAX_NETS : nat := 3.
Definition MAX_RESUMPTION : nat := 15.     (* min(3 * MAX_FABRICS, MAX_SESSIONS, 16, budget) *)
Definition NSUBS : N := 15.                (* DEFAULT_MAX_SUBSCRIPTIONS = 3 * MAX_FABRICS *)
Definition VENDOR : N := 65521.            (* 0xFFF1: vendor id given with AddNOC *)

(** ** Key layout (persist.rs) *)
Definition FABRIC_KEYS_START : N := 0.
Definition fabric_key (i : N) : N := FABRIC_KEYS_START + i.
Definition K_BASIC : N := 256.
Definition K_EVENT : N := 257.
Definition K_NETS : N := 258.
Definition K_LABELS : N := 259.
Definition K_BIND : N := 260.
Definition K_LKG : N := 261.
Definition K_TTS : N := 262.
Definition K_SCENES : N := 263.
Definition K_OTA : N := 264.
Definition K_ICD_CLIENTS : N := 265.
Definition K_ICD_COUNTER : N := 266.
Definition K_RESUMP : N := 267.
Definition K_TZ : N := 268.
Definition K_GCTR : N := 269.
Definition SINGLETON_KEYS_END : N := 270.
Definition SUBS_START : N := 2048.
Definition SUBS_END : N := 4096.           (* = VENDOR_KEYS_START *)

Fixpoint nrange (start : N) (n : nat) : list N :=
  match n with O => [] | S n' => start :: nrange (start + 1) n' end.

(** fabric indices 1..255 (Fabrics::load_persist / reset_persist scan exactly these) *)
Definition fab_indices : list N := nrange 1 255.

(** every key rs-matter itself can use: fabrics, singletons, subscription range *)
Definition layout_keys : list N :=
  map fabric_key fab_indices ++ nrange K_BASIC 14 ++ nrange SUBS_START 2048.

(** ** Association maps (fabric table, key-value store, binding registry) *)
Section AMap.
  Context {V : Type}.
  Fixpoint aget (m : list (N * V)) (k : N) : option V :=
    match m with
    | [] => None
    | (k', v) :: t => if k =? k' then Some v else aget t k
    end.
  Definition adel (m : list (N * V)) (k : N) : list (N * V) :=
    filter (fun p => negb (fst p =? k)) m.
  (** replace = remove + push at the end (Fabrics: remove / push; order is not observable) *)
  Definition aset (m : list (N * V)) (k : N) (v : V) : list (N * V) := adel m k ++ [(k, v)].
  Definition akeys (m : list (N * V)) : list N := map fst m.
  Definition amem (m : list (N * V)) (k : N) : bool :=
    match aget m k with Some _ => true | None => false end.
End AMap.

Definition nmax (l : list N) : N := fold_right N.max 0 l.

(** ** Data *)
Record fabric := mkFabric {
  f_nid : N;       (* node id of the NOC *)
  f_vid : N;       (* vendor id *)
  f_label : N;     (* fabric label token; 0 = empty *)
  f_acl : N;       (* access control list token; 0 = [admin] *)
  f_gkm : N        (* group key map token; 0 = empty *)
}.

Record basic := mkBasic {
  b_label : N;              (* node label token; 0 = empty *)
  b_loc : option N;         (* location *)
  b_reg : option N          (* regulatory location type *)
}.
Definition basic_default := mkBasic 0 None None.

Record nets := mkNets { n_managed : bool; n_ids : list N }.
Definition nets_reset := mkNets false [].

Record ram := mkRam {
  r_fabs : list (N * fabric);     (* fabric table, by local index *)
  r_basic : basic;
  r_nets : nets;
  r_labels : N;                   (* UserLabel list of the application endpoint; 0 = empty *)
  r_binds : list (N * N);         (* binding list token of the application endpoint, per fabric *)
  r_resump : list (N * N);        (* resumption records (fabric, peer), oldest first *)
  r_tz : N;                       (* time zone list token; 0 = the default list *)
  r_tts : option (N * N);         (* trusted time source: (fabric, node) *)
  r_icd : list (N * N);           (* ICD registration of the administrator's client, per fabric *)
  r_ota : list (N * N);           (* default OTA provider, per fabric *)
  r_scenes : list (N * N);        (* the scene of the application endpoint, per fabric *)
  r_subs : list (N * N)           (* the subscription table, in table order: (fabric, tag) *)
}.
Definition ram_factory := mkRam [] basic_default nets_reset 0 [] [] 0 None [] [] [] [].

(** fail-safe: context fabric (0 = PASE before AddNOC) and whether AddNOC / UpdateNOC was accepted;
    [stage]: 0 nothing yet, 1 CSR and root consumed (AddNOC refused), 2 NOC accepted *)
Inductive fs := Idle | Armed (ctx : N) (stage : N).

Inductive caller := SP | SC (f : N).

Inductive op :=
| OAcl (c : caller) (v : N)        (* ACL attribute := list v *)
| OGkm (c : caller) (v : N)        (* GroupKeyMap attribute := list v *)
| OLabel (c : caller) (v : N)      (* UpdateFabricLabel *)
| OVid (c : caller) (v : N)        (* SetVIDVerificationStatement(vendor id v) *)
| OBind (c : caller) (v : N)       (* Binding attribute of the application endpoint := list v *)
| OULabel (c : caller) (v : N)     (* UserLabel LabelList := list v *)
| ONodeLabel (c : caller) (v : N)
| OLocation (c : caller) (v : N)
| OReg (c : caller) (v : N)        (* SetRegulatoryConfig(type v mod 3, country v) *)
| OTz (c : caller) (v : N)         (* SetTimeZone(list v) *)
| OTts (c : caller) (v : N)        (* SetTrustedTimeSource(node v); 0 = null *)
| OIcd (c : caller) (v : N)        (* RegisterClient(monitored subject v); 0 = UnregisterClient *)
| OOta (c : caller) (v : N)        (* DefaultOTAProviders := [provider v]; 0 = [] *)
| OScene (c : caller) (v : N)      (* AddScene(transition time v); 0 = RemoveScene *)
| OSub (c : caller) (v : N)        (* SubscribeRequest (KeepSubscriptions = false) tagged v *)
| ORemove (c : caller) (g : N)     (* RemoveFabric(g) *)
| OArm (c : caller)                (* ArmFailSafe(60) *)
| OAddNoc (nid : N)                (* over PASE: CSRRequest, AddTrustedRootCertificate, AddNOC *)
| OUpdNoc (f : N) (nid : N)        (* over CASE on f: CSRRequest(update), UpdateNOC *)
| ONet (c : caller) (k : N)        (* AddOrUpdateWiFiNetwork(ssid k) *)
| OComplete (f : N)                (* CommissioningComplete over CASE on f *)
| OExpire                          (* the fail-safe timer fires *)
| OResume (f p : N)                (* a CASE handshake with peer p on fabric f completes *)
| OFlush                           (* the debounced task stores the resumption cache *)
| OReset                           (* Matter::factory_reset + InteractionModel::factory_reset *)
| OPase                            (* a new PASE session *)
| OCrash.                          (* power loss, restart from the store *)

Inductive status := Ok | Refused.

Section Codecs.
  (** the persisted form of each structure: a byte string the model does not look into *)
  Variable blob : Type.
  Variable enc_fab : N -> fabric -> blob.       (* the blob carries the fabric index *)
  Variable dec_fab : blob -> option (N * fabric).
  Variable enc_basic : basic -> blob.
  Variable dec_basic : blob -> option basic.
  Variable enc_nets : nets -> blob.
  Variable dec_nets : blob -> option nets.
  Variable enc_labels : N -> blob.
  Variable dec_labels : blob -> option N.
  Variable enc_binds : list (N * N) -> blob.
  Variable dec_binds : blob -> option (list (N * N)).
  Variable enc_res : list (N * N) -> blob.
  Variable dec_res : blob -> option (list (N * N)).
  Variable enc_tz : N -> blob.
  Variable dec_tz : blob -> option N.
  Variable enc_tts : N * N -> blob.
  Variable dec_tts : blob -> option (N * N).
  Variable enc_icd : list (N * N) -> blob.
  Variable dec_icd : blob -> option (list (N * N)).
  Variable enc_ota : list (N * N) -> blob.
  Variable dec_ota : blob -> option (list (N * N)).
  Variable enc_scenes : list (N * N) -> blob.
  Variable dec_scenes : blob -> option (list (N * N)).
  Variable enc_sub : N * N -> blob.
  Variable dec_sub : blob -> option (N * N).

  Inductive kvop := KStore (k : N) (b : blob) | KRemove (k : N).
  Inductive ev := EKv (o : kvop) | EAck (s : status).

  Definition kv := list (N * blob).

  Definition kv_apply (m : kv) (o : kvop) : kv :=
    match o with KStore k b => aset m k b | KRemove k => adel m k end.
  Definition replay (m : kv) (log : list kvop) : kv := fold_left kv_apply log m.

  Fixpoint kvlog (evs : list ev) : list kvop :=
    match evs with
    | [] => []
    | EKv o :: t => o :: kvlog t
    | EAck _ :: t => kvlog t
    end.

  Record state := mkState {
    s_ram : ram;
    s_fs : fs;
    s_pase : option N;        (* fabric of the commissioner's PASE session, if there is one *)
    s_kv : kv
  }.

  (** *** Start-up (Matter::startup, then InteractionModel::startup) *)

  (** Fabrics::load_persist: keys 1..255 in order; a blob that does not decode or a full table is an error *)
  Fixpoint load_fabs (ks : list N) (m : kv) (acc : list (N * fabric)) : option (list (N * fabric)) :=
    match ks with
    | [] => Some acc
    | i :: t =>
        match aget m (fabric_key i) with
        | None => load_fabs t m acc
        | Some b =>
            match dec_fab b with
            | None => None
            | Some (j, f) =>        (* the index is the one inside the blob *)
                if (MAX_FABRICS <=? length acc)%nat then None
                else load_fabs t m (acc ++ [(j, f)])
            end
        end
    end.

  Definition load_opt {A} (m : kv) (k : N) (dec : blob -> option A) (dflt : A) : option A :=
    match aget m k with
    | None => Some dflt
    | Some b => dec b
    end.

  (** ResumableSessions::load_persist (a blob that does not parse is dropped, not an error),
      then Matter::startup drops the records of fabrics that are not in the table and
      rewrites the blob if it dropped any.  Returns the cache and the key-value operations. *)
  Definition load_resump (m : kv) (fabs : list (N * fabric)) : list (N * N) * list kvop :=
    match aget m K_RESUMP with
    | None => ([], [])
    | Some b =>
        match dec_res b with
        | None => ([], [KRemove K_RESUMP])
        | Some l =>
            let l' := filter (fun r => amem fabs (fst r)) l in
            if (length l' =? length l)%nat then (l, [])
            else (l', [KStore K_RESUMP (enc_res l')])
        end
    end.

  (** Subscriptions::persist_all: one record per slot, the slots past the table removed *)
  Fixpoint sub_stores (slot : N) (l : list (N * N)) : list kvop :=
    match l with
    | [] => []
    | x :: t => KStore slot (enc_sub x) :: sub_stores (slot + 1) t
    end.
  Definition persist_subs (l : list (N * N)) : list kvop :=
    let l' := firstn (N.to_nat NSUBS) l in
    sub_stores SUBS_START l' ++
    map KRemove (nrange (SUBS_START + N.of_nat (length l')) (N.to_nat NSUBS - length l')).

  (** Subscriptions::load_persist: the slots in order, the first empty one ends the set; a record
      that does not decode is an error *)
  Fixpoint load_subs (slots : list N) (m : kv) : option (list (N * N)) :=
    match slots with
    | [] => Some []
    | k :: t =>
        match aget m k with
        | None => Some []
        | Some b =>
            match dec_sub b with
            | None => None
            | Some x => match load_subs t m with Some l => Some (x :: l) | None => None end
            end
        end
    end.

  (** Subscriptions::remove: as long as there is a subscription to drop, the FIRST one is taken out by
      [swap_remove] - the last one of the table moves into its place (the order of the table is the
      order of the slots in the store) *)
  Fixpoint find_idx (p : N * N -> bool) (l : list (N * N)) : option nat :=
    match l with
    | [] => None
    | x :: t => if p x then Some O else option_map S (find_idx p t)
    end.
  Definition swap_remove (i : nat) (l : list (N * N)) : list (N * N) :=
    match rev (skipn (S i) l) with
    | [] => firstn i l
    | lst :: before => firstn i l ++ lst :: rev before
    end.
  Fixpoint drop_loop (fuel : nat) (p : N * N -> bool) (l : list (N * N)) : list (N * N) :=
    match fuel with
    | O => l
    | S k => match find_idx p l with
             | None => l
             | Some i => drop_loop k p (swap_remove i l)
             end
    end.
  Definition drop_where (p : N * N -> bool) (l : list (N * N)) : list (N * N) :=
    drop_loop (length l) p l.
  Definition drop_subs (g : N) (l : list (N * N)) : list (N * N) :=
    drop_where (fun x => fst x =? g) l.

  (** resume_subscriptions: load, drop the subscriptions of fabrics that are not in the table and
      write the table back if any was dropped *)
  Definition resume_subs (m : kv) (fabs : list (N * fabric)) : option (list (N * N) * list kvop) :=
    match load_subs (nrange SUBS_START (N.to_nat NSUBS)) m with
    | None => None
    | Some l =>
        let l' := drop_where (fun x => negb (amem fabs (fst x))) l in
        if (length l' =? length l)%nat then Some (l, []) else Some (l', persist_subs l')
    end.

  Definition startup (m : kv) : option (ram * list kvop) :=
    match load_fabs fab_indices m [] with
    | None => None
    | Some fabs =>
      match load_opt m K_BASIC dec_basic basic_default with
      | None => None
      | Some bs =>
        let (res, ops) := load_resump m fabs in
        match load_opt m K_NETS dec_nets nets_reset with
        | None => None
        | Some ns =>
          match load_opt m K_BIND dec_binds [] with
          | None => None
          | Some bd =>
            match load_opt m K_LABELS dec_labels 0 with
            | None => None
            | Some lb =>
              match load_opt m K_SCENES dec_scenes [], load_opt m K_OTA dec_ota [],
                    load_opt m K_TZ dec_tz 0, load_opt m K_ICD_CLIENTS dec_icd [] with
              | Some sc, Some ot, Some tz, Some ic =>
                  (* the trusted time source: absent = none *)
                  match (match aget m K_TTS with None => Some None
                         | Some b => option_map Some (dec_tts b) end) with
                  | Some ts =>
                      match resume_subs m fabs with
                      | Some (sb, ops2) => Some (mkRam fabs bs ns lb bd res tz ts ic ot sc sb, ops ++ ops2)
                      | None => None
                      end
                  | None => None
                  end
              | _, _, _, _ => None
              end
            end
          end
        end
      end
    end.

  (** *** Factory reset: the keys removed, in code order *)
  Definition reset_keys : list N :=
    map fabric_key fab_indices                (* Fabrics::reset_persist *)
    ++ [K_BASIC; K_LKG; K_TTS; K_RESUMP; K_GCTR]   (* basic info, rtc, resumption, group counter *)
    ++ [K_EVENT; K_NETS]                      (* InteractionModelState::reset_persist *)
    ++ nrange SUBS_START (N.to_nat NSUBS)     (* Subscriptions::reset_persist: slots of THIS table *)
    ++ [K_SCENES; K_OTA; K_ICD_CLIENTS; K_ICD_COUNTER; K_LABELS; K_BIND; K_TZ].
                                              (* LifecycleOp::FactoryReset of the handlers, the one chained last first *)

  (** *** Helpers of the handlers *)
  Definition armed_for (s : fs) (f : N) : bool :=
    match s with Idle => false | Armed ctx _ => ctx =? f end.
  Definition pending_noc_for (s : fs) (f : N) : bool :=
    match s with Idle => false | Armed ctx st => (ctx =? f) && (st =? 2) end.

  (** the fabric a command is executed for: the session's fabric, if the session can be used *)
  Definition caller_fab (st : state) (c : caller) : option N :=
    match c with
    | SP => s_pase st
    | SC f => if amem (r_fabs (s_ram st)) f then Some f else None
    end.

  Definition set_fabs (r : ram) (x : list (N * fabric)) : ram :=
    mkRam x (r_basic r) (r_nets r) (r_labels r) (r_binds r) (r_resump r) (r_tz r) (r_tts r) (r_icd r) (r_ota r) (r_scenes r) (r_subs r).
  Definition set_basic (r : ram) (x : basic) : ram :=
    mkRam (r_fabs r) x (r_nets r) (r_labels r) (r_binds r) (r_resump r) (r_tz r) (r_tts r) (r_icd r) (r_ota r) (r_scenes r) (r_subs r).
  Definition set_nets (r : ram) (x : nets) : ram :=
    mkRam (r_fabs r) (r_basic r) x (r_labels r) (r_binds r) (r_resump r) (r_tz r) (r_tts r) (r_icd r) (r_ota r) (r_scenes r) (r_subs r).
  Definition set_labels (r : ram) (x : N) : ram :=
    mkRam (r_fabs r) (r_basic r) (r_nets r) x (r_binds r) (r_resump r) (r_tz r) (r_tts r) (r_icd r) (r_ota r) (r_scenes r) (r_subs r).
  Definition set_binds (r : ram) (x : list (N * N)) : ram :=
    mkRam (r_fabs r) (r_basic r) (r_nets r) (r_labels r) x (r_resump r) (r_tz r) (r_tts r) (r_icd r) (r_ota r) (r_scenes r) (r_subs r).
  Definition set_resump (r : ram) (x : list (N * N)) : ram :=
    mkRam (r_fabs r) (r_basic r) (r_nets r) (r_labels r) (r_binds r) x (r_tz r) (r_tts r) (r_icd r) (r_ota r) (r_scenes r) (r_subs r).
  Definition set_tz (r : ram) (x : N) : ram :=
    mkRam (r_fabs r) (r_basic r) (r_nets r) (r_labels r) (r_binds r) (r_resump r) x (r_tts r) (r_icd r) (r_ota r) (r_scenes r) (r_subs r).
  Definition set_tts (r : ram) (x : option (N * N)) : ram :=
    mkRam (r_fabs r) (r_basic r) (r_nets r) (r_labels r) (r_binds r) (r_resump r) (r_tz r) x (r_icd r) (r_ota r) (r_scenes r) (r_subs r).
  Definition set_icd (r : ram) (x : list (N * N)) : ram :=
    mkRam (r_fabs r) (r_basic r) (r_nets r) (r_labels r) (r_binds r) (r_resump r) (r_tz r) (r_tts r) x (r_ota r) (r_scenes r) (r_subs r).
  Definition set_ota (r : ram) (x : list (N * N)) : ram :=
    mkRam (r_fabs r) (r_basic r) (r_nets r) (r_labels r) (r_binds r) (r_resump r) (r_tz r) (r_tts r) (r_icd r) x (r_scenes r) (r_subs r).
  Definition set_scenes (r : ram) (x : list (N * N)) : ram :=
    mkRam (r_fabs r) (r_basic r) (r_nets r) (r_labels r) (r_binds r) (r_resump r) (r_tz r) (r_tts r) (r_icd r) (r_ota r) x (r_subs r).

  Definition set_subs (r : ram) (x : list (N * N)) : ram :=
    mkRam (r_fabs r) (r_basic r) (r_nets r) (r_labels r) (r_binds r) (r_resump r) (r_tz r) (r_tts r) (r_icd r) (r_ota r) (r_scenes r) x.

  Definition with_ram (st : state) (r : ram) : state := mkState r (s_fs st) (s_pase st) (s_kv st).

  (** apply the key-value operations of an event list to the store of the state *)
  Definition commit (st : state) (evs : list ev) : state * list ev :=
    (mkState (s_ram st) (s_fs st) (s_pase st) (replay (s_kv st) (kvlog evs)), evs).

  Definition refuse (st : state) : state * list ev := (st, [EAck Refused]).

  (** a change of fabric [f]'s data: in memory first, stored at once unless [staged] *)
  Definition fabric_write (st : state) (f : N) (upd : fabric -> fabric) (staged : bool) : state * list ev :=
    match aget (r_fabs (s_ram st)) f with
    | None => refuse st
    | Some fb =>
        let fb' := upd fb in
        let st' := with_ram st (set_fabs (s_ram st) (aset (r_fabs (s_ram st)) f fb')) in
        if staged then (st', [EAck Ok])
        else commit st' [EKv (KStore (fabric_key f) (enc_fab f fb')); EAck Ok]
    end.

  Definition label_conflict (fabs : list (N * fabric)) (f v : N) : bool :=
    existsb (fun p => negb (fst p =? f) && negb (f_label (snd p) =? 0) && (f_label (snd p) =? v)) fabs.

  (** what `notify_fabric_removed(g)` does: resumption records of g dropped and the cache stored;
      then the FabricRemoval lifecycle operation, the handler chained last first: scenes, OTA
      providers, ICD registrations, bindings of g dropped, each registry stored if it dropped any *)
  Definition drop_for (m : list (N * N)) (g : N) (k : N) (enc : list (N * N) -> blob)
      : list (N * N) * list ev :=
    if amem m g then (adel m g, [EKv (KStore k (enc (adel m g)))]) else (m, []).

  Definition fabric_removed (r : ram) (g : N) : ram * list ev :=
    let res' := filter (fun x => negb (fst x =? g)) (r_resump r) in
    let e1 := [EKv (KStore K_RESUMP (enc_res res'))] in
    (* the subscriptions of the fabric; the table is written back if any was dropped *)
    let sb := drop_subs g (r_subs r) in
    let e1s := if (length sb =? length (r_subs r))%nat then [] else map EKv (persist_subs sb) in
    let (sc, e2) := drop_for (r_scenes r) g K_SCENES enc_scenes in
    let (ot, e3) := drop_for (r_ota r) g K_OTA enc_ota in
    let (ic, e4) := drop_for (r_icd r) g K_ICD_CLIENTS enc_icd in
    let (bd, e5) := drop_for (r_binds r) g K_BIND enc_binds in
    (set_binds (set_icd (set_ota (set_scenes (set_subs (set_resump r res') sb) sc) ot) ic) bd,
     e1 ++ e1s ++ e2 ++ e3 ++ e4 ++ e5).

  (** ResumableSessions::insert_or_update *)
  Definition resump_insert (l : list (N * N)) (f p : N) : list (N * N) :=
    let l1 := filter (fun x => negb ((fst x =? f) && (snd x =? p))) l in
    let l2 := if (MAX_RESUMPTION <=? length l1)%nat then tl l1 else l1 in
    l2 ++ [(f, p)].

  (** Fabrics::add_with_post_init: the index after the largest one in use while that is below 254,
      else the first unused one of 1..254 *)
  Definition new_index (fabs : list (N * fabric)) : option N :=
    let mx := nmax (akeys fabs) in
    if mx <? 254 then Some (mx + 1)
    else find (fun i => negb (amem fabs i)) (nrange 1 254).

  Definition net_add (n : nets) (k : N) : option nets :=
    if existsb (N.eqb k) (n_ids n) then Some (mkNets false (n_ids n))
    else if (MAX_NETS <=? length (n_ids n))%nat then None
    else Some (mkNets false (n_ids n ++ [k])).

  (** [label_fix]: UpdateFabricLabel stores the fabric (the repaired handler) *)
  Variable label_fix : bool.

  Definition step (st : state) (o : op) : state * list ev :=
    let r := s_ram st in
    match o with
    | OAcl c v =>
        match caller_fab st c with
        | Some f => if f =? 0 then refuse st
                    else fabric_write st f (fun x => mkFabric (f_nid x) (f_vid x) (f_label x) v (f_gkm x))
                                      (armed_for (s_fs st) f)
        | None => refuse st
        end
    | OGkm c v =>
        match caller_fab st c with
        | Some f => if f =? 0 then refuse st
                    else fabric_write st f (fun x => mkFabric (f_nid x) (f_vid x) (f_label x) (f_acl x) v)
                                      (armed_for (s_fs st) f)
        | None => refuse st
        end
    | OLabel c v =>
        match caller_fab st c with
        | Some f => if (f =? 0) || label_conflict (r_fabs r) f v then refuse st
                    else fabric_write st f (fun x => mkFabric (f_nid x) (f_vid x) v (f_acl x) (f_gkm x))
                                      (negb label_fix || armed_for (s_fs st) f)
        | None => refuse st
        end
    | OVid c v =>
        match caller_fab st c with
        | Some f => if f =? 0 then refuse st
                    else fabric_write st f (fun x => mkFabric (f_nid x) v (f_label x) (f_acl x) (f_gkm x))
                                      (pending_noc_for (s_fs st) f)
        | None => refuse st
        end
    | OBind c v =>
        match caller_fab st c with
        | Some f => if f =? 0 then refuse st
                    else let b' := if v =? 0 then adel (r_binds r) f else aset (r_binds r) f v in
                         commit (with_ram st (set_binds r b')) [EKv (KStore K_BIND (enc_binds b')); EAck Ok]
        | None => refuse st
        end
    | OULabel c v =>
        match caller_fab st c with
        | Some _ => commit (with_ram st (set_labels r v)) [EKv (KStore K_LABELS (enc_labels v)); EAck Ok]
        | None => refuse st
        end
    | ONodeLabel c v =>
        match caller_fab st c with
        | Some _ => let b' := mkBasic v (b_loc (r_basic r)) (b_reg (r_basic r)) in
                    commit (with_ram st (set_basic r b')) [EKv (KStore K_BASIC (enc_basic b')); EAck Ok]
        | None => refuse st
        end
    | OLocation c v =>
        match caller_fab st c with
        | Some _ => let b' := mkBasic (b_label (r_basic r)) (Some v) (b_reg (r_basic r)) in
                    commit (with_ram st (set_basic r b')) [EKv (KStore K_BASIC (enc_basic b')); EAck Ok]
        | None => refuse st
        end
    | OReg c v =>
        match caller_fab st c with
        | Some _ => let b' := mkBasic (b_label (r_basic r)) (Some v) (Some (v mod 3)) in
                    commit (with_ram st (set_basic r b')) [EKv (KStore K_BASIC (enc_basic b')); EAck Ok]
        | None => refuse st
        end
    | OTz c v =>
        match caller_fab st c with
        | Some _ => commit (with_ram st (set_tz r v)) [EKv (KStore K_TZ (enc_tz v)); EAck Ok]
        | None => refuse st
        end
    | OTts c v =>
        match caller_fab st c with
        | Some f =>
            if f =? 0 then refuse st
            else if v =? 0 then
              (* null: the key is removed - if there was a source *)
              match r_tts r with
              | None => (st, [EAck Ok])
              | Some _ => commit (with_ram st (set_tts r None)) [EKv (KRemove K_TTS); EAck Ok]
              end
            else if (match r_tts r with Some (f0, v0) => (f0 =? f) && (v0 =? v) | None => false end)
            then (st, [EAck Ok])               (* unchanged: nothing is written *)
            else commit (with_ram st (set_tts r (Some (f, v)))) [EKv (KStore K_TTS (enc_tts (f, v))); EAck Ok]
        | None => refuse st
        end
    | OIcd c v =>
        match caller_fab st c with
        | Some f =>
            if f =? 0 then refuse st
            else if v =? 0 then
              if amem (r_icd r) f
              then let m' := adel (r_icd r) f in
                   commit (with_ram st (set_icd r m')) [EKv (KStore K_ICD_CLIENTS (enc_icd m')); EAck Ok]
              else refuse st                   (* NotFound *)
            else let m' := aset (r_icd r) f v in
                 commit (with_ram st (set_icd r m')) [EKv (KStore K_ICD_CLIENTS (enc_icd m')); EAck Ok]
        | None => refuse st
        end
    | OOta c v =>
        match caller_fab st c with
        | Some f =>
            if f =? 0 then refuse st
            else let m' := if v =? 0 then adel (r_ota r) f else aset (r_ota r) f v in
                 commit (with_ram st (set_ota r m')) [EKv (KStore K_OTA (enc_ota m')); EAck Ok]
        | None => refuse st
        end
    | OScene c v =>
        match caller_fab st c with
        | Some f =>
            if f =? 0 then refuse st
            else if v =? 0 then
              if amem (r_scenes r) f
              then let m' := adel (r_scenes r) f in
                   commit (with_ram st (set_scenes r m')) [EKv (KStore K_SCENES (enc_scenes m')); EAck Ok]
              else refuse st                   (* NOT_FOUND *)
            else let m' := aset (r_scenes r) f v in
                 commit (with_ram st (set_scenes r m')) [EKv (KStore K_SCENES (enc_scenes m')); EAck Ok]
        | None => refuse st
        end
    | OSub c v =>
        match caller_fab st c with
        | Some f =>
            if f =? 0 then refuse st
            else
              (* the earlier subscriptions of this peer on this fabric go, the new one is appended;
                 the answer leaves BEFORE the table is written (persisting is best-effort) *)
              let sb := drop_subs f (r_subs r) ++ [(f, v)] in
              commit (with_ram st (set_subs r sb)) (EAck Ok :: map EKv (persist_subs sb))
        | None => refuse st
        end
    | ORemove c g =>
        match caller_fab st c with
        | Some _ =>
            if amem (r_fabs r) g then
              let r1 := set_fabs r (adel (r_fabs r) g) in
              (* the trusted time source goes with the fabric that configured it *)
              let tts_of_g := match r_tts r with Some (f0, _) => f0 =? g | None => false end in
              let r1' := if tts_of_g then set_tts r1 None else r1 in
              let e0 := if tts_of_g then [EKv (KRemove K_TTS)] else [] in
              let (r2, evs) := fabric_removed r1' g in
              commit (with_ram st r2) ([EKv (KRemove (fabric_key g))] ++ e0 ++ evs ++ [EAck Ok])
            else refuse st
        | None => refuse st
        end
    | OArm c =>
        match caller_fab st c with
        | Some cf =>
            match s_fs st with
            | Idle => (mkState r (Armed cf 0) (s_pase st) (s_kv st), [EAck Ok])
            | Armed ctx _ => if ctx =? cf then (st, [EAck Ok]) else refuse st
            end
        | None => refuse st
        end
    | OAddNoc nid =>
        match s_pase st, s_fs st with
        | Some pf, Armed ctx 0 =>
            if ctx =? pf then
              if (MAX_FABRICS <=? length (r_fabs r))%nat
              then (mkState r (Armed ctx 1) (s_pase st) (s_kv st), [EAck Refused])
              else match new_index (r_fabs r) with
                   | Some idx =>
                       (mkState (set_fabs r (aset (r_fabs r) idx (mkFabric nid VENDOR 0 0 0)))
                                (Armed idx 2) (Some idx) (s_kv st), [EAck Ok])
                   | None => (mkState r (Armed ctx 1) (s_pase st) (s_kv st), [EAck Refused])
                   end
            else refuse st
        | _, _ => refuse st
        end
    | OUpdNoc f nid =>
        match aget (r_fabs r) f, s_fs st with
        | Some fb, Armed ctx 0 =>
            if ctx =? f then
              (mkState (set_fabs r (aset (r_fabs r) f (mkFabric nid (f_vid fb) (f_label fb) (f_acl fb) (f_gkm fb))))
                       (Armed ctx 2) (s_pase st) (s_kv st), [EAck Ok])
            else refuse st
        | _, _ => refuse st
        end
    | ONet c k =>
        match caller_fab st c, s_fs st with
        | Some cf, Armed ctx _ =>
            if ctx =? cf then
              match net_add (r_nets r) k with
              | Some n' => (with_ram st (set_nets r n'), [EAck Ok])
              | None => refuse st
              end
            else refuse st
        | _, _ => refuse st
        end
    | OComplete f =>
        match aget (r_fabs r) f, s_fs st with
        | Some fb, Armed ctx _ =>
            if (ctx =? f) && negb (f =? 0) then
              let n' := mkNets true (n_ids (r_nets r)) in
              commit (mkState (set_nets r n') Idle None (s_kv st))
                     [EKv (KStore (fabric_key f) (enc_fab f fb)); EKv (KStore K_NETS (enc_nets n')); EAck Ok]
            else refuse st
        | _, _ => refuse st
        end
    | OExpire =>
        match s_fs st with
        | Idle => (st, [])
        | Armed ctx _ =>
            (* nets reloaded from the store (or reset) *)
            let reload_nets (r0 : ram) : ram :=
              match aget (s_kv st) K_NETS with
              | None => set_nets r0 nets_reset
              | Some b => match dec_nets b with Some n => set_nets r0 n | None => r0 end
              end in
            if ctx =? 0 then (mkState (reload_nets r) Idle None (s_kv st), [])
            else if amem (r_fabs r) ctx then
              let fabs1 := adel (r_fabs r) ctx in
              match aget (s_kv st) (fabric_key ctx) with
              | Some b =>
                  match dec_fab b with
                  | Some (_, fb) => (mkState (reload_nets (set_fabs r (fabs1 ++ [(ctx, fb)]))) Idle None (s_kv st), [])
                  | None => (st, [])      (* add_load fails: the error leaves the fail-safe armed *)
                  end
              | None =>
                  let (r2, evs) := fabric_removed (reload_nets (set_fabs r fabs1)) ctx in
                  commit (mkState r2 Idle None (s_kv st)) evs
              end
            else
              (* the fabric of the context is gone already (RemoveFabric meanwhile): the expiry goes
                 ahead, finds nothing to reload and reports the fabric as removed *)
              let (r2, evs) := fabric_removed (reload_nets r) ctx in
              commit (mkState r2 Idle None (s_kv st)) evs
        end
    | OResume f p =>
        if amem (r_fabs r) f then (with_ram st (set_resump r (resump_insert (r_resump r) f p)), [])
        else (st, [])
    | OFlush => commit st [EKv (KStore K_RESUMP (enc_res (r_resump r)))]
    | OReset =>
        (* Subscriptions::reset_persist removes the records; the table in memory stays as it is *)
        commit (with_ram st (set_subs ram_factory (r_subs r))) (map (fun k => EKv (KRemove k)) reset_keys)
    | OPase => (mkState r (s_fs st) (Some 0) (s_kv st), [])
    | OCrash =>
        match startup (s_kv st) with
        | Some (r', ops) => commit (mkState r' Idle None (s_kv st)) (map EKv ops)
        | None => (st, [])                (* the node does not come up (never from a state the code wrote) *)
        end
    end.

  Fixpoint run (st : state) (ops : list op) : state * list (list ev) :=
    match ops with
    | [] => (st, [])
    | o :: t => let (st1, e) := step st o in
                let (st2, es) := run st1 t in (st2, e :: es)
    end.

  (** the states after each operation (the first is the initial one) *)
  Fixpoint states (st : state) (ops : list op) : list state :=
    st :: match ops with [] => [] | o :: t => states (fst (step st o)) t end.

  (** what the node restarted from store [m] comes up with *)
  Definition boot (m : kv) : option ram :=
    match startup m with Some (r, _) => Some r | None => None end.

End Codecs.

Arguments s_ram {blob}.
Arguments s_fs {blob}.
Arguments s_pase {blob}.
Arguments s_kv {blob}.
Arguments KStore {blob}.
Arguments KRemove {blob}.
Arguments EKv {blob}.
Arguments EAck {blob}.
