(** Model of the event queue of rs-matter/src/im/events.rs (three byte buffers of
    the same capacity: every event is written to the debug buffer; what falls
    out of a buffer is promoted to the next one if its priority allows, else it
    is gone) and of the range filter of [EventReader::process_read].  Events are
    (number, priority, encoded length); no proofs in this file. *)
From RsM Require Export Lib.MachInt.
Open Scope N_scope.

Record ev := mkEv { v_num : N; v_prio : N; v_len : N }.

(** oldest first in each buffer *)
Record evq := mkQ { q_crit : list ev; q_info : list ev; q_dbg : list ev; q_next : N }.

Definition evq_init : evq := mkQ [] [] [] 1.

Definition used (l : list ev) : N := fold_right (fun e a => v_len e + a) 0 l.

(** [while capacity(critical) < len { evict(critical) }]: nothing above, the first event is gone *)
Fixpoint room_crit (fuel : nat) (cap len : N) (l : list ev) : list ev :=
  match fuel with
  | O => l
  | S f => if cap - used l <? len then match l with [] => l | _ :: t => room_crit f cap len t end else l
  end.

(** [evict(info)]: a critical event moves on to the critical buffer *)
Definition evict_info (cap : N) (q : evq) : evq :=
  match q_info q with
  | [] => q
  | e :: t =>
      if 2 <=? v_prio e then
        mkQ (room_crit (length (q_crit q)) cap (v_len e) (q_crit q) ++ [e]) t (q_dbg q) (q_next q)
      else mkQ (q_crit q) t (q_dbg q) (q_next q)
  end.

Fixpoint room_info (fuel : nat) (cap len : N) (q : evq) : evq :=
  match fuel with
  | O => q
  | S f => if cap - used (q_info q) <? len then
             match q_info q with [] => q | _ :: _ => room_info f cap len (evict_info cap q) end
           else q
  end.

(** [evict(debug)]: an info or critical event moves on to the info buffer *)
Definition evict_dbg (cap : N) (q : evq) : evq :=
  match q_dbg q with
  | [] => q
  | e :: t =>
      if 1 <=? v_prio e then
        let q1 := room_info (length (q_info q)) cap (v_len e) q in
        mkQ (q_crit q1) (q_info q1 ++ [e]) t (q_next q)
      else mkQ (q_crit q) (q_info q) t (q_next q)
  end.

Fixpoint room_dbg (fuel : nat) (cap len : N) (q : evq) : evq :=
  match fuel with
  | O => q
  | S f => if cap - used (q_dbg q) <? len then
             match q_dbg q with [] => q | _ :: _ => room_dbg f cap len (evict_dbg cap q) end
           else q
  end.

(** [next_event_number.wrapping_add(1).max(1)] *)
Definition next_num (n : N) : N := N.max ((n + 1) mod two64) 1.

(** [Events::push] of an event of priority [prio] whose encoding takes [len] bytes.  The number is
    consumed first.  An event larger than a buffer is refused - after the writer has pushed everything
    else out of the debug buffer on its way. *)
Definition push (cap prio len : N) (q : evq) : evq * bool :=
  let n := q_next q in
  if cap <? len then
    let q1 := room_dbg (length (q_dbg q)) cap cap q in
    (mkQ (q_crit q1) (q_info q1) (q_dbg q1) (next_num n), false)
  else
    let q1 := room_dbg (length (q_dbg q)) cap len q in
    (mkQ (q_crit q1) (q_info q1) (q_dbg q1 ++ [mkEv n prio len]) (next_num n), true).

(** the order in which readers iterate: critical, info, debug buffer *)
Definition all_events (q : evq) : list ev := q_crit q ++ q_info q ++ q_dbg q.

Definition retained (q : evq) (n : N) : bool := existsb (fun e => v_num e =? n) (all_events q).

(** [EventReader::process_read] over the iteration: an event is taken if its number lies in
    (seen, upto]; taking it moves [seen] to its number *)
Fixpoint read_range (seen upto : N) (l : list ev) : list N :=
  match l with
  | [] => []
  | e :: t =>
      if (seen <? v_num e) && (v_num e <=? upto) then v_num e :: read_range (v_num e) upto t
      else read_range seen upto t
  end.

(** what a report with event range (seen, upto] delivers *)
Definition report_events (q : evq) (seen upto : N) : list N := read_range seen upto (all_events q).

Fixpoint push_all (cap : N) (q : evq) (l : list (N * N)) : evq :=
  match l with
  | [] => q
  | (prio, len) :: t => push_all cap (fst (push cap prio len q)) t
  end.

(** an event the subscriber has not been sent (its number is above the subscriber's watermark)
    and that the queue no longer holds: it can never be reported *)
Definition evicted_undelivered (q : evq) (seen n : N) : bool :=
  (seen <? n) && (n <? q_next q) && negb (retained q n).

(** * executable form of the queue invariant (evaluated on dumps of the real queue) *)
Fixpoint ascending (lo : N) (l : list ev) : bool :=
  match l with
  | [] => true
  | e :: t => (lo <? v_num e) && ascending (v_num e) t
  end.

Definition qinv_b (cap : N) (q : evq) : bool :=
  ascending 0 (all_events q) && forallb (fun e => v_num e <? q_next q) (all_events q) &&
  (used (q_crit q) <=? cap) && (used (q_info q) <=? cap) && (used (q_dbg q) <=? cap) &&
  forallb (fun e => 2 <=? v_prio e) (q_crit q) && forallb (fun e => 1 <=? v_prio e) (q_info q).
