(** C11: a concrete instance of the codecs (shows the section hypotheses of
    Model/Persist.v are satisfiable and gives the extracted model something to
    run on), the initial states of the correspondence harness, and the
    executable form of the property (monitor) evaluated on the
    IMPLEMENTATION's own observations.  Definitions only. *)
From Coq Require Import NArith Arith List Bool.
From RsM Require Import Model.Persist.
Import ListNotations.
Open Scope N_scope.

(** ** Codec instance: a blob is the value it encodes, tagged by its kind; [BJunk] stands for
    every byte string that is not the encoding of anything *)
Inductive cblob :=
| BFab (i : N) (f : fabric)
| BBasic (b : basic)
| BNets (n : nets)
| BLabels (t : N)
| BBinds (l : list (N * N))
| BRes (l : list (N * N))
| BTz (t : N)
| BTts (x : N * N)
| BIcd (l : list (N * N))
| BOta (l : list (N * N))
| BScenes (l : list (N * N))
| BSub (x : N * N)
| BJunk (n : N).

Definition c_dec_fab (b : cblob) := match b with BFab i f => Some (i, f) | _ => None end.
Definition c_dec_basic (b : cblob) := match b with BBasic x => Some x | _ => None end.
Definition c_dec_nets (b : cblob) := match b with BNets x => Some x | _ => None end.
Definition c_dec_labels (b : cblob) := match b with BLabels x => Some x | _ => None end.
Definition c_dec_binds (b : cblob) := match b with BBinds x => Some x | _ => None end.
Definition c_dec_res (b : cblob) := match b with BRes x => Some x | _ => None end.
Definition c_dec_tz (b : cblob) := match b with BTz x => Some x | _ => None end.
Definition c_dec_tts (b : cblob) := match b with BTts x => Some x | _ => None end.
Definition c_dec_icd (b : cblob) := match b with BIcd x => Some x | _ => None end.
Definition c_dec_ota (b : cblob) := match b with BOta x => Some x | _ => None end.
Definition c_dec_scenes (b : cblob) := match b with BScenes x => Some x | _ => None end.
Definition c_dec_sub (b : cblob) := match b with BSub x => Some x | _ => None end.

Definition c_state := state cblob.
Definition c_step (fix_label : bool) : c_state -> op -> c_state * list (ev cblob) :=
  step cblob BFab c_dec_fab BBasic c_dec_basic BNets c_dec_nets BLabels c_dec_labels
       BBinds c_dec_binds BRes c_dec_res BTz c_dec_tz BTts c_dec_tts BIcd c_dec_icd BOta c_dec_ota
       BScenes c_dec_scenes BSub c_dec_sub fix_label.
Definition c_startup : kv cblob -> option (ram * list (kvop cblob)) :=
  startup cblob c_dec_fab c_dec_basic c_dec_nets c_dec_labels c_dec_binds BRes c_dec_res
          c_dec_tz c_dec_tts c_dec_icd c_dec_ota c_dec_scenes BSub c_dec_sub.
Definition c_replay : kv cblob -> list (kvop cblob) -> kv cblob := replay cblob.
Definition c_kvlog : list (ev cblob) -> list (kvop cblob) := kvlog cblob.

(** A power loss INSIDE an operation: only the first [j] of its key-value operations (not counting
    the keys of other properties, which the harness does not count either) reach the store, then the
    node restarts from it.  Not an [op]: the theorems speak of whole operations and of arbitrary cuts
    of the log; this is the second kind made a point of a history that GOES ON afterwards. *)
Definition foreign_kvop (o : kvop cblob) : bool :=
  match o with KStore k _ | KRemove k => (k =? 257) || (k =? 269) end.
Fixpoint take_scoped (j : nat) (l : list (kvop cblob)) : list (kvop cblob) :=
  match j, l with
  | O, _ | _, [] => []
  | S j', o :: t => if foreign_kvop o then o :: take_scoped j t else o :: take_scoped j' t
  end.
Definition c_step_cut (fix_label : bool) (st : c_state) (o : op) (j : nat) : c_state * list (ev cblob) :=
  let kvs := take_scoped j (c_kvlog (snd (c_step fix_label st o))) in
  let st1 := mkState cblob (s_ram st) (s_fs st) (s_pase st) (c_replay (s_kv st) kvs) in
  let (st2, evs) := c_step fix_label st1 OCrash in
  (st2, map (@EKv cblob) kvs ++ evs).

(** ** Initial states of the harness: [n] commissioned fabrics (1 and 2), a PASE session or not *)
Definition DEV_NODE : N := 8738.   (* 0x2222 *)
Definition init_fabric (i : N) : fabric := mkFabric (DEV_NODE + i - 1) VENDOR 0 0 0.
Definition init_fabs (n : N) : list (N * fabric) :=
  map (fun i => (i, init_fabric i)) (nrange 1 (N.to_nat n)).
Definition init_state (n : N) (pase : bool) : c_state :=
  mkState cblob
    (mkRam (init_fabs n) basic_default nets_reset 0 [] [] 0 None [] [] [] [])
    Idle (if pase then Some 0 else None)
    (map (fun p => (fabric_key (fst p), BFab (fst p) (snd p))) (init_fabs n)).

(** a node that has seen many commissionings and removals: fabrics at arbitrary local indexes
    (the harness derives their blobs from the one of fabric 1) *)
Definition init_state_at (idxs : list N) (pase : bool) : c_state :=
  let fabs := map (fun i => (i, init_fabric 1)) idxs in
  mkState cblob
    (mkRam fabs basic_default nets_reset 0 [] [] 0 None [] [] [] [])
    Idle (if pase then Some 0 else None)
    (map (fun p => (fabric_key (fst p), BFab (fst p) (snd p))) fabs).

(** ** The property in executable form, over what was OBSERVED on the implementation.

    A cell is a persisted structure as seen from outside: its identifier is its
    key (fabric index, 256 basic information, 258 networks, 259 user labels,
    260 bindings, 267 resumption cache), its value an opaque number naming
    the printed contents (0 = absent / factory default). *)
Definition cells := list (N * N).

Definition cell (c : cells) (k : N) : N :=
  match aget c k with Some v => v | None => 0 end.

Record oprec := mkOp {
  o_ok : bool;              (* the peer was answered OK *)
  o_nkv : N;                (* key-value operations issued by this operation *)
  o_ack : option N;         (* how many of them had been issued when the answer left the node *)
  o_fs : option N;          (* fail-safe armed for this fabric (after the operation) *)
  o_end : N;                (* key-value operations issued by the history up to here *)
  o_left : option N;        (* factory reset: how many keys were left in the store *)
  o_best_effort : bool;     (* a subscribe request: persisted after the answer, by design *)
  o_cells : cells;          (* the live node after the operation *)
  (* the resumption cache and the fabrics it speaks of, in the open *)
  o_restart : bool;         (* this record is a start-up (power loss between or inside operations) *)
  o_session : option (N * N); (* a CASE session (fabric, peer) was established by this operation *)
  o_fabs : list N;          (* fabric indexes in the table *)
  o_res : list (N * N);     (* records (fabric, peer) of the cache in memory *)
  o_kres : list (N * N);    (* records of the cache in the store *)
  o_inc : list (N * N);     (* fabric index -> which commissioning it stands for (numbered by the harness) *)
  (* the subscription table and its slots in the store *)
  o_subscribed : option (N * N); (* a subscription (fabric, tag) was established by this operation *)
  o_pass : bool;            (* the operation wrote or removed subscription slots: a persist pass ran (to its end) *)
  o_reset : bool;           (* a factory reset (removes the slots, leaves the table in memory: by design) *)
  o_subs : list (N * N);    (* the table in memory *)
  o_ksubs : list (N * (N * N)) (* the slots in the store: (slot, subscription) *)
}.

Record cutrec := mkCut {
  c_n : N;                  (* restarted from the first [c_n] key-value operations *)
  c_boot : bool;            (* start-up succeeded *)
  c_cells : cells;
  c_fabs : list N;
  c_kres : list (N * N);    (* the stored cache once start-up is through *)
  c_ksubs : list (N * (N * N)) (* the stored subscription slots once start-up is through *)
}.

Definition find_cut (cuts : list cutrec) (n : N) : option cutrec :=
  find (fun c => c_n c =? n) cuts.

Definition cell_ids (a b : cells) : list N := map fst a ++ map fst b.

(** the resumption cache is written by a background task, the subscription table after the answer
    and without regard to errors: neither is ever "committed" *)
Definition K_CACHE : N := 267.
Definition K_SUBS_CELL : N := 2048.
Definition K_STORED_CACHE_CELL : N := 9267.   (* the cache as it is in the store: start-up may rewrite it *)
Definition K_STORED_SUBS_CELL : N := 9268.    (* the subscription slots as they are in the store *)
Definition best_effort_cell (k : N) : bool :=
  (k =? K_CACHE) || (k =? K_SUBS_CELL) || (k =? K_STORED_CACHE_CELL) || (k =? K_STORED_SUBS_CELL).
Definition K_NETS_CELL : N := 258.

Definition staged_cell (fsx : option N) (k : N) : bool :=
  match fsx with
  | None => false
  | Some ctx => (k =? ctx) || (k =? K_NETS_CELL)
  end.

(** cells on which a restart from the store may differ from the live node *)
Definition same_committed (fsx : option N) (live boot : cells) : bool :=
  forallb (fun k => best_effort_cell k || staged_cell fsx k || (cell live k =? cell boot k))
          (cell_ids live boot).

(** equal on everything that is ever "committed" (the cache is not) *)
Definition same_cells (a b : cells) : bool :=
  forallb (fun k => best_effort_cell k || (cell a k =? cell b k)) (cell_ids a b).

(** violation codes *)
Definition V_NO_BOOT : N := 1.          (* a restart from a prefix of the log does not come up *)
Definition V_ACK_EARLY : N := 2.        (* answered before the last write of the operation *)
Definition V_LOST : N := 3.             (* committed state differs after a restart at an operation boundary *)
Definition V_PARTIAL : N := 4.          (* restart state is not the state after a whole number of operations *)
Definition V_LEFTOVER : N := 5.         (* factory reset left keys behind *)
Definition V_FLUSHED : N := 6.          (* the store of a fabric under the fail-safe changed without CommissioningComplete *)

(** (code, position): position = index of the operation, or the cut *)
Definition check_boot (cuts : list cutrec) : list (N * N) :=
  flat_map (fun c => if c_boot c then [] else [(V_NO_BOOT, c_n c)]) cuts.

Fixpoint check_ops (i : N) (ops : list oprec) (cuts : list cutrec) : list (N * N) :=
  match ops with
  | [] => []
  | o :: t =>
      (match o_ack o with
       | Some a => if o_ok o && negb (o_best_effort o) && negb (a =? o_nkv o) then [(V_ACK_EARLY, i)] else []
       | None => []
       end) ++
      (match find_cut cuts (o_end o) with
       | Some c => if same_committed (o_fs o) (o_cells o) (c_cells c) then [] else [(V_LOST, i)]
       | None => [(V_LOST, i)]
       end) ++
      (match o_left o with
       | Some n => if n =? 0 then [] else [(V_LEFTOVER, i)]
       | None => []
       end) ++
      check_ops (i + 1) t cuts
  end.

(** the boundaries: 0 and the end of every operation *)
Definition boundaries (ops : list oprec) : list N := 0 :: map o_end ops.

Definition check_whole (ops : list oprec) (cuts : list cutrec) : list (N * N) :=
  flat_map (fun c =>
    if existsb (fun n => match find_cut cuts n with
                         | Some b => same_cells (c_cells c) (c_cells b)
                         | None => false end) (boundaries ops)
    then [] else [(V_PARTIAL, c_n c)]) cuts.

(** while the fail-safe is armed for fabric f (before and after the operation) the stored copy of
    f changes only by CommissioningComplete (which disarms): compare the restarts before / after *)
Fixpoint check_frozen (i : N) (prev_fs : option N) (prev_end : N) (ops : list oprec) (cuts : list cutrec) : list (N * N) :=
  match ops with
  | [] => []
  | o :: t =>
      (match prev_fs, o_fs o with
       | Some a, Some b =>
           if (a =? b) && negb (a =? 0) then
             match find_cut cuts prev_end, find_cut cuts (o_end o) with
             | Some c1, Some c2 =>
                 if (cell (c_cells c1) a =? cell (c_cells c2) a) || (cell (c_cells c2) a =? 0)
                 then [] else [(V_FLUSHED, i)]
             | _, _ => []
             end
           else []
       | _, _ => []
       end) ++ check_frozen (i + 1) (o_fs o) (o_end o) t cuts
  end.

(** The resumption cache is best effort in what it REMEMBERS, not in whom it remembers it for.

    (a) Once start-up is through, the stored cache holds no record of a fabric that is not in the
        table: whatever a cut left behind, start-up cleans up - in the store too, because the next
        power loss may come before anything else is written.  Checked on the restart from EVERY cut
        and on the restarts that are part of the history. *)
Definition V_STALE : N := 7.            (* cut position *)
Definition V_STALE_LIVE : N := 8.       (* operation index *)
Definition stale (fabs : list N) (kres : list (N * N)) : bool :=
  existsb (fun x => negb (existsb (N.eqb (fst x)) fabs)) kres.

Definition check_stale_cuts (cuts : list cutrec) : list (N * N) :=
  flat_map (fun c => if c_boot c && stale (c_fabs c) (c_kres c) then [(V_STALE, c_n c)] else []) cuts.

Fixpoint check_stale_ops (i : N) (ops : list oprec) : list (N * N) :=
  match ops with
  | [] => []
  | o :: t => (if o_restart o && stale (o_fabs o) (o_kres o) then [(V_STALE_LIVE, i)] else [])
              ++ check_stale_ops (i + 1) t
  end.

(** (b) A record belongs to the commissioning it was made for.  A fabric index is handed out again
        after a removal; the record (fabric, peer) of the old holder must never be live under the
        new one (it would let the old peer resume a session onto the new fabric).  A record is
        followed from the operation it first appears in - in memory or in the store - for as long as
        it is in either; establishing the session anew binds it anew. *)
Definition V_REBOUND : N := 9.
Definition peq (a b : N * N) : bool := (fst a =? fst b) && (snd a =? snd b).
Definition bound (b : list ((N * N) * N)) (k : N * N) : option N :=
  match find (fun x => peq (fst x) k) b with Some x => Some (snd x) | None => None end.

Section Rebound.
  Variable code : N.
  Variable live stored : oprec -> list (N * N).
  Variable established : oprec -> option (N * N).
  Fixpoint check_rebound_gen (i : N) (b : list ((N * N) * N)) (ops : list oprec) : list (N * N) :=
    match ops with
    | [] => []
    | o :: t =>
        let anywhere := live o ++ stored o in
        let b1 := filter (fun x => existsb (peq (fst x)) anywhere) b in
        let b2 := match established o with
                  | Some k => filter (fun x => negb (peq (fst x) k)) b1
                  | None => b1
                  end in
        let moved (k : N * N) : bool :=
          match bound b2 k, aget (o_inc o) (fst k) with
          | Some n, Some m => negb (n =? m)
          | _, _ => false
          end in
        let bad := existsb moved (live o) in
        (* reported once: the record is followed under its new holder from here on *)
        let b3 := filter (fun x => negb (existsb (peq (fst x)) (live o) && moved (fst x))) b2 in
        let b4 := b3 ++ flat_map (fun k => match bound b3 k, aget (o_inc o) (fst k) with
                                           | None, Some m => [(k, m)]
                                           | _, _ => []
                                           end) anywhere in
        (if bad then [(code, i)] else []) ++ check_rebound_gen (i + 1) b4 t
    end.
End Rebound.

Definition check_rebound : N -> list ((N * N) * N) -> list oprec -> list (N * N) :=
  check_rebound_gen V_REBOUND o_res o_kres o_session.

(** The subscription table is best effort in the same sense: a subscription may be lost by a power
    loss, but what the store holds is what a restart RESUMES.

    (c) A persist pass that ran to its end leaves the slots an exact mirror of the table in memory
        (slot k = k-th subscription, nothing behind them); so does every operation that changed the
        table (every such operation ends with a pass) - a factory reset aside, which clears the
        slots only.
    (d) Once start-up is through, the slots a restart would resume (slot 0 up to the first empty
        one) hold no subscription of a fabric that is not in the table.
    (e) A subscription (fabric, tag) belongs to the commissioning it was made under, as (b). *)
Definition V_SUBS_MIRROR : N := 10.      (* operation index *)
Definition V_SUBS_STALE : N := 11.       (* cut position *)
Definition V_SUBS_STALE_LIVE : N := 12.  (* operation index *)
Definition V_SUBS_REBOUND : N := 13.

Fixpoint mirror (k : N) (tbl : list (N * N)) (slots : list (N * (N * N))) : bool :=
  match tbl, slots with
  | [], [] => true
  | x :: t, (k', y) :: t' => (k =? k') && peq x y && mirror (k + 1) t t'
  | _, _ => false
  end.

Fixpoint same_list (a b : list (N * N)) : bool :=
  match a, b with
  | [], [] => true
  | x :: t, y :: t' => peq x y && same_list t t'
  | _, _ => false
  end.

Fixpoint check_subs_mirror (i : N) (prev : list (N * N)) (ops : list oprec) : list (N * N) :=
  match ops with
  | [] => []
  | o :: t =>
      (if negb (o_restart o) && negb (o_reset o) && (o_pass o || negb (same_list prev (o_subs o)))
          && negb (mirror 0 (o_subs o) (o_ksubs o))
       then [(V_SUBS_MIRROR, i)] else [])
      ++ check_subs_mirror (i + 1) (o_subs o) t
  end.

Fixpoint resumable (k : N) (slots : list (N * (N * N))) : list (N * N) :=
  match slots with
  | (k', y) :: t => if k =? k' then y :: resumable (k + 1) t else []
  | [] => []
  end.

Definition check_subs_stale_cuts (cuts : list cutrec) : list (N * N) :=
  flat_map (fun c => if c_boot c && stale (c_fabs c) (resumable 0 (c_ksubs c)) then [(V_SUBS_STALE, c_n c)] else []) cuts.

Fixpoint check_subs_stale_ops (i : N) (ops : list oprec) : list (N * N) :=
  match ops with
  | [] => []
  | o :: t => (if o_restart o && stale (o_fabs o) (resumable 0 (o_ksubs o)) then [(V_SUBS_STALE_LIVE, i)] else [])
              ++ check_subs_stale_ops (i + 1) t
  end.

Definition check_subs_rebound : N -> list ((N * N) * N) -> list oprec -> list (N * N) :=
  check_rebound_gen V_SUBS_REBOUND o_subs (fun o => map snd (o_ksubs o)) o_subscribed.

Definition monitor (ops : list oprec) (cuts : list cutrec) : list (N * N) :=
  check_boot cuts ++ check_ops 0 ops cuts ++ check_whole ops cuts ++ check_frozen 0 None 0 ops cuts
  ++ check_stale_cuts cuts ++ check_stale_ops 0 ops ++ check_rebound 0 [] ops
  ++ check_subs_mirror 0 [] ops ++ check_subs_stale_cuts cuts ++ check_subs_stale_ops 0 ops
  ++ check_subs_rebound 0 [] ops.

(** a corrupt resumption blob: boot must succeed; a blob that does not parse must be gone and the
    cache empty; one that parses stays and gives at most its records *)
Definition bad_cache_ok (boot_ok parse_ok present : bool) (records parsed : N) : bool :=
  boot_ok &&
  (if parse_ok then (records <=? parsed) && (present || (records =? 0))
   else negb present && (records =? 0)).

(** key census after a factory reset of a store in which every key 0..hi held a blob *)
Definition census_left (hi : N) : list N :=
  filter (fun k => negb (existsb (N.eqb k) (reset_keys))) (nrange 0 (S (N.to_nat hi))).
