(** Declarative form of property C19: the sentence "a chain is valid under
    the Matter rules" as a conjunction of independent rules, each of which
    quantifies over the whole chain (no loop, no early exit, no order).
    [chain_validb] / [case_validb] / [install_validb] are the executable
    forms; they are extracted and used as the MONITOR on the
    implementation's decisions.  No proofs in this file. *)
From RsM Require Export Model.Cert.
Open Scope N_scope.

(** The rules of the property's sentence. *)
Inductive rule :=
| RSigned          (* every certificate is signed by the next one; the root by itself *)
| RKeyId           (* authority key id of each = subject key id of the next (root: its own) *)
| RName            (* issuer name of each = subject name of the next (root: its own) *)
| RNotAfter        (* no certificate has expired at the node's time *)
| RNotBefore       (* with a reliable clock: every certificate is already valid *)
| RNoCritical      (* no unknown critical extension anywhere *)
| RLeafType        (* the leaf is a node certificate (node-id attribute) *)
| RLeafNotCa       (* ... with basicConstraints cA = FALSE *)
| RLeafKeyUsage    (* ... keyUsage digitalSignature *)
| RLeafExtKeyUsage (* ... extendedKeyUsage serverAuth and clientAuth *)
| RAuthType        (* every authority is an ICAC / RCAC by name *)
| RAuthIsCa        (* ... with basicConstraints cA = TRUE *)
| RAuthKeyUsage    (* ... keyUsage keyCertSign *)
| RAuthPathLen.    (* ... at most pathLen intermediates below it *)

Definition all_rules : list rule :=
  [RSigned; RKeyId; RName; RNotAfter; RNotBefore; RNoCritical;
   RLeafType; RLeafNotCa; RLeafKeyUsage; RLeafExtKeyUsage;
   RAuthType; RAuthIsCa; RAuthKeyUsage; RAuthPathLen].

(** A chain [c0; c1; ...; cn] (leaf first, self-signed root last) is the
    set of links (i, ci, c(i+1)) plus the closing link (n, cn, cn). *)
Record link := mkLink { l_depth : N; l_child : cert; l_parent : cert; l_root : bool }.

Fixpoint links_from (d : N) (c : cert) (rest : list cert) : list link :=
  match rest with
  | [] => [mkLink d c c true]
  | p :: rest' => mkLink d c p false :: links_from (d + 1) p rest'
  end.

Definition links (cs : list cert) : list link :=
  match cs with [] => [] | c :: rest => links_from 0 c rest end.

(** The leaf is the bottom certificate of a chain of at least two; a
    chain of one is a root on its own. *)
Definition is_leaf (l : link) : bool := (l_depth l =? 0) && negb (l_root l).

Definition rule_link (t : clock) (r : rule) (l : link) : bool :=
  let c := l_child l in
  let p := l_parent l in
  match r with
  | RSigned => match signer c with Some k => k =? pubkey p | None => false end
  | RKeyId => match skid p, akid c with Some s, Some a => a =? s | _, _ => false end
  | RName => dn_eqb (issuer c) (subject p)
  | RNotAfter => (not_after c =? 0) || (any_secs t <=? not_after c)
  | RNotBefore => match reliable_secs t with Some s => not_before c <=? s | None => true end
  | RNoCritical => negb (crit_ext c)
  | RLeafType =>
      if is_leaf l then
        match cert_type_of (subject c) with Some TNoc => true | _ => false end
      else true
  | RLeafNotCa =>
      if is_leaf l then match bc c with Some (false, _) => true | _ => false end else true
  | RLeafKeyUsage =>
      if is_leaf l then
        match ku c with Some k => has_bits k KU_DIGITAL_SIGNATURE | None => false end
      else true
  | RLeafExtKeyUsage =>
      if is_leaf l then
        match eku c with
        | Some e => mem EKU_SERVER_AUTH e && mem EKU_CLIENT_AUTH e
        | None => false
        end
      else true
  | RAuthType =>
      if is_leaf l then true else
      match cert_type_of (subject c) with Some TIcac | Some TRcac => true | _ => false end
  | RAuthIsCa =>
      if is_leaf l then true else match bc c with Some (true, _) => true | _ => false end
  | RAuthKeyUsage =>
      if is_leaf l then true else
      match ku c with Some k => has_bits k KU_KEY_CERT_SIGN | None => false end
  | RAuthPathLen =>
      if is_leaf l then true else
      match bc c with Some (_, Some m) => l_depth l - 1 <=? m | _ => true end
  end.

Definition rule_holds (t : clock) (r : rule) (cs : list cert) : bool :=
  match cs with [] => false | _ => forallb (rule_link t r) (links cs) end.

(** The property's predicate. *)
Definition chain_valid (t : clock) (cs : list cert) : Prop :=
  forall r : rule, rule_holds t r cs = true.

Definition chain_validb (t : clock) (cs : list cert) : bool :=
  forallb (fun r => rule_holds t r cs) all_rules.

(** CASE: the peer's chain [noc; icac?] must lead to the root of the
    addressed fabric, the leaf (and the intermediate, if it names one)
    must carry that fabric's identifier, the leaf a node identifier. *)
Definition icac_fabric_ok (fabric_id : N) (icac : option cert) : bool :=
  match icac with
  | Some i => match get_fabric_id i with Some f => f =? fabric_id | None => true end
  | None => true
  end.

Definition leaf_fabric_ok (fabric_id : N) (noc : cert) : bool :=
  match get_fabric_id noc with Some f => f =? fabric_id | None => false end.

Definition case_valid (t : clock) (fabric_id : N) (root noc : cert) (icac : option cert) : Prop :=
  chain_valid t (noc :: opt_list icac ++ [root]) /\
  leaf_fabric_ok fabric_id noc = true /\
  icac_fabric_ok fabric_id icac = true.

Definition case_validb (t : clock) (fabric_id : N) (root noc : cert) (icac : option cert) : bool :=
  chain_validb t (noc :: opt_list icac ++ [root]) &&
  leaf_fabric_ok fabric_id noc && icac_fabric_ok fabric_id icac.

(** Installing credentials: the chain is valid for the fabric the leaf
    names, the intermediate is not a self-issued certificate (the root
    used twice), the leaf certifies the key the node generated for this
    request, and (AddNOC) no fabric with this identifier under this root
    exists / (UpdateNOC) the leaf names the fabric being updated. *)
Definition icac_separate (icac : option cert) : bool :=
  match icac with
  | Some i => match skid i, akid i with Some s, Some a => negb (a =? s) | _, _ => true end
  | None => true
  end.

Definition fabric_exists (fabrics : list (N * N)) (fid rootkey : N) : bool :=
  existsb (fun f => (fid =? fst f) && (rootkey =? snd f)) fabrics.

Definition install_common (t : clock) (csr_key : N) (root noc : cert) (icac : option cert) : Prop :=
  chain_valid t (noc :: opt_list icac ++ [root]) /\
  icac_separate icac = true /\
  pubkey noc = csr_key.

Definition add_noc_valid (t : clock) (fabrics : list (N * N)) (csr_key admin : N)
    (root noc : cert) (icac : option cert) (fid nid : N) : Prop :=
  install_common t csr_key root noc icac /\
  get_fabric_id noc = Some fid /\ get_node_id noc = Some nid /\
  fabric_exists fabrics fid (pubkey root) = false /\
  (is_node admin = true \/ is_noc_cat admin = true).

Definition update_noc_valid (t : clock) (fabric_id csr_key : N)
    (root noc : cert) (icac : option cert) (nid : N) : Prop :=
  install_common t csr_key root noc icac /\
  get_fabric_id noc = Some fabric_id /\ get_node_id noc = Some nid.

Definition install_commonb (t : clock) (csr_key : N) (root noc : cert) (icac : option cert) : bool :=
  chain_validb t (noc :: opt_list icac ++ [root]) && icac_separate icac && (pubkey noc =? csr_key).

Definition add_noc_validb (t : clock) (fabrics : list (N * N)) (csr_key admin : N)
    (root noc : cert) (icac : option cert) : bool :=
  install_commonb t csr_key root noc icac &&
  match get_fabric_id noc, get_node_id noc with
  | Some fid, Some _ => negb (fabric_exists fabrics fid (pubkey root))
  | _, _ => false
  end && (is_node admin || is_noc_cat admin).

Definition update_noc_validb (t : clock) (fabric_id csr_key : N)
    (root noc : cert) (icac : option cert) : bool :=
  install_commonb t csr_key root noc icac &&
  match get_fabric_id noc, get_node_id noc with
  | Some fid, Some _ => fid =? fabric_id
  | _, _ => false
  end.

(** A trusted root on its own (AddTrustedRootCertificate): the chain of
    one certificate is valid and its pathLen, if any, is at most 1. *)
Definition root_validb (t : clock) (root : cert) : bool :=
  chain_validb t [root] &&
  match bc root with Some (_, Some m) => m <=? 1 | _ => true end.
