(** Values of the three enumerated X.509 extensions that rs-matter/src/cert.rs
    ([Extension::encode_extended_key_usage], [encode_key_usage],
    [BasicConstraints::encode]) writes when it converts a Matter certificate
    to X.509 DER (the content of the extension's OCTET STRING), and readers for
    them (specification side: rs-matter has no DER -> Matter converter).
    No proofs in this file. *)
From RsM Require Export Lib.MachInt Model.Headers Model.Codecs.
Open Scope N_scope.

(** a DER element with a short-form length (content below 128 bytes) *)
Definition der1 (tag : N) (c : list N) : list N := tag :: N.of_nat (length c) :: c.

(** * Extended key usage: Matter key-purpose id -> last arc of id-kp (1.3.6.1.5.5.7.3.x) *)
Definition eku_arc (id : N) : option N :=
  if id =? 1 then Some 1 else if id =? 2 then Some 2 else if id =? 3 then Some 3
  else if id =? 4 then Some 4 else if id =? 5 then Some 8 else if id =? 6 then Some 9 else None.
Definition eku_id (arc : N) : option N :=
  if arc =? 1 then Some 1 else if arc =? 2 then Some 2 else if arc =? 3 then Some 3
  else if arc =? 4 then Some 4 else if arc =? 8 then Some 5 else if arc =? 9 then Some 6 else None.
Definition KP_PREFIX : list N := [43; 6; 1; 5; 5; 7; 3].

(** ids outside 1..6 are skipped (with an error log) *)
Fixpoint eku_items (ids : list N) : list N :=
  match ids with
  | [] => []
  | id :: t =>
      match eku_arc id with
      | Some arc => der1 6 (KP_PREFIX ++ [arc]) ++ eku_items t
      | None => eku_items t
      end
  end.
Definition eku_value (ids : list N) : list N := der1 48 (eku_items ids).

Fixpoint eku_read_items (fuel : nat) (b : list N) : option (list N) :=
  match fuel with
  | O => None
  | S f =>
      match b with
      | [] => Some []
      | 6 :: 8 :: 43 :: 6 :: 1 :: 5 :: 5 :: 7 :: 3 :: arc :: t =>
          match eku_id arc, eku_read_items f t with
          | Some id, Some l => Some (id :: l)
          | _, _ => None
          end
      | _ => None
      end
  end.
Definition eku_read (v : list N) : option (list N) :=
  match v with
  | 48 :: len :: c => if N.of_nat (length c) =? len then eku_read_items (S (length c)) c else None
  | _ => None
  end.

(** * Key usage: BIT STRING, Matter bit i = named bit i (from the most significant bit) *)
Definition bitn (k i : N) : N := (k / 2 ^ i) mod 2.
(** [reverse_byte] *)
Definition rev8 (b : N) : N :=
  128 * bitn b 0 + 64 * bitn b 1 + 32 * bitn b 2 + 16 * bitn b 3 +
  8 * bitn b 4 + 4 * bitn b 5 + 2 * bitn b 6 + bitn b 7.
(** [u8::trailing_zeros] of a non-zero byte *)
Definition tz8 (b : N) : N :=
  if bitn b 0 =? 1 then 0 else if bitn b 1 =? 1 then 1 else if bitn b 2 =? 1 then 2
  else if bitn b 3 =? 1 then 3 else if bitn b 4 =? 1 then 4 else if bitn b 5 =? 1 then 5
  else if bitn b 6 =? 1 then 6 else 7.
(** [int_to_bitstring] then [bitstr(truncate = true)] *)
Definition ku_value (k : N) : list N :=
  let b0 := rev8 (k mod 256) in
  let b1 := rev8 ((k / 256) mod 256) in
  if negb (b1 =? 0) then der1 3 [tz8 b1; b0; b1]
  else if negb (b0 =? 0) then der1 3 [tz8 b0; b0]
  else der1 3 [0].
Definition ku_read (v : list N) : option N :=
  match v with
  | [3; 1; 0] => Some 0
  | [3; 2; _; b0] => Some (rev8 b0)
  | [3; 3; _; b0; b1] => Some (rev8 b0 + 256 * rev8 b1)
  | _ => None
  end.

(** * Basic constraints: [cA] only when true, then the optional path length *)
Definition bc_value (ca : bool) (path : option N) : list N :=
  der1 48 ((if ca then [1; 1; 255] else []) ++
           match path with Some p => [2; 1; p] | None => [] end).
Definition bc_read (v : list N) : option (bool * option N) :=
  match v with
  | [48; 0] => Some (false, None)
  | [48; 3; 1; 1; 255] => Some (true, None)
  | [48; 3; 2; 1; p] => Some (false, Some p)
  | [48; 6; 1; 1; 255; 2; 1; p] => Some (true, Some p)
  | _ => None
  end.

(** * Monitor: the values found in the implementation's DER read back as the fields *)
Definition optl_eqb (a : option (list N)) (b : list N) : bool :=
  match a with Some l => list_eqb l b | None => false end.
Definition mon_certext (ku : N) (ids : list N) (ca : bool) (path : option N)
           (ku_v eku_v bc_v : list N) : bool :=
  (if (ku <? 512) then match ku_read ku_v with Some k => k =? ku | None => false end else true) &&
  (if forallb (fun i => (1 <=? i) && (i <=? 6)) ids && Nat.leb (length ids) 12
   then optl_eqb (eku_read eku_v) ids else true) &&
  (if match path with Some p => p <? 256 | None => true end then
     match bc_read bc_v, path with
     | Some (c, Some p), Some q => Bool.eqb c ca && (p =? q)
     | Some (c, None), None => Bool.eqb c ca
     | _, _ => false
     end
   else true).
