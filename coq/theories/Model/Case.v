(** Symbolic model of the CASE handshake of rs-matter:
      rs-matter/src/sc/case/responder.rs   CaseResponder::{handle, handle_casesigma1, handle_casesigma3,
                                            try_handle_sigma1_resume}
      rs-matter/src/sc/case/initiator.rs   CaseInitiator::{perform, finalize_sigma2_resume}
      rs-matter/src/sc/case/casep.rs       destination id, S2K / S3K, TBE / TBS, validate_certs, session keys,
                                            S1RK / S2RK, Resume1MIC / Resume2MIC, resumption session keys
      rs-matter/src/sc/case/resumption.rs  ResumableSessions::{find_by_resumption_id, find_by_peer, insert_or_update}
      rs-matter/src/fabric.rs              Fabrics::{get_by_dest_id, get}, Fabric::compute_dest_id
      rs-matter/src/transport/session.rs   ReservedSession::{reserve, update, complete, drop}
    Transcribed check by check in the order of the code.  No proofs in this file.

    CRYPTOGRAPHY IS SYMBOLIC (DESIGN.md section 3): keys, nonces, hashes, ciphertexts and signatures are
    terms of the free algebra [term]; decryption / verification succeed exactly on terms built by the
    matching constructor with the matching key.  Collision freeness of SHA-256, INT-CTXT of AES-CCM,
    EUF-CMA of ECDSA-P256, CDH are assumed BY THIS CONSTRUCTION, not proved.  A byte string that leaves
    the algebra (a flipped ciphertext bit) is [TJunk n], accepted by no destructor.  The certificate
    verifier is C19's ([Model.Cert], ideal ECDSA through [signer]). *)
From RsM Require Export Model.Cert Model.CertSpec.
Open Scope N_scope.

(* ------------------------------------------------------------------ terms *)

Inductive term :=
| TNum (n : N)                     (* public constant / identifier *)
| TNonce (n : N)                   (* fresh random value or ephemeral secret, by identity *)
| TKey (k : N)                     (* long-term signing key pair, identity [k] as in [Model.Cert.pubkey] *)
| TPub (t : term)                  (* public half of secret [t] *)
| TDh (a b : N)                    (* ECDH of the two ephemeral secrets [TNonce a], [TNonce b], a <= b *)
| TDhBad (sk pk : term)            (* ECDH with an operand outside the expected shape *)
| THash (t : term)
| THkdf (salt ikm info : term)
| THmac (k m : term)
| TAead (k n pt : term)
| TSig (sk m : term)
| TPair (a b : term)
| TNil
| TCert (c : cert)
| TJunk (n : N).                   (* bytes outside the algebra *)

(** [SecretKey::derive_shared_secret] with the commutation normalised *)
Definition dh (sk pk : term) : term :=
  match sk, pk with
  | TNonce a, TPub (TNonce b) => TDh (N.min a b) (N.max a b)
  | _, _ => TDhBad sk pk
  end.

(* ---- boolean equality (correctness: Proofs/CaseFacts.v) *)
Definition opt_eqb {A} (e : A -> A -> bool) (a b : option A) : bool :=
  match a, b with Some x, Some y => e x y | None, None => true | _, _ => false end.
Fixpoint list_eqb {A} (e : A -> A -> bool) (a b : list A) : bool :=
  match a, b with
  | [], [] => true
  | x :: r, y :: s => e x y && list_eqb e r s
  | _, _ => false
  end.
Definition bc_eqb (a b : bool * option N) : bool :=
  Bool.eqb (fst a) (fst b) && opt_eqb N.eqb (snd a) (snd b).
Definition cert_eqb (a b : cert) : bool :=
  dn_eqb (subject a) (subject b) && dn_eqb (issuer a) (issuer b) &&
  opt_eqb N.eqb (skid a) (skid b) && opt_eqb N.eqb (akid a) (akid b) &&
  (pubkey a =? pubkey b) && opt_eqb N.eqb (signer a) (signer b) &&
  (not_before a =? not_before b) && (not_after a =? not_after b) &&
  opt_eqb bc_eqb (bc a) (bc b) && opt_eqb N.eqb (ku a) (ku b) &&
  opt_eqb (list_eqb N.eqb) (eku a) (eku b) && Bool.eqb (crit_ext a) (crit_ext b).

Fixpoint term_eqb (x y : term) : bool :=
  match x, y with
  | TNum a, TNum b => a =? b
  | TNonce a, TNonce b => a =? b
  | TKey a, TKey b => a =? b
  | TPub a, TPub b => term_eqb a b
  | TDh a1 a2, TDh b1 b2 => (a1 =? b1) && (a2 =? b2)
  | TDhBad a1 a2, TDhBad b1 b2 => term_eqb a1 b1 && term_eqb a2 b2
  | THash a, THash b => term_eqb a b
  | THkdf a1 a2 a3, THkdf b1 b2 b3 => term_eqb a1 b1 && term_eqb a2 b2 && term_eqb a3 b3
  | THmac a1 a2, THmac b1 b2 => term_eqb a1 b1 && term_eqb a2 b2
  | TAead a1 a2 a3, TAead b1 b2 b3 => term_eqb a1 b1 && term_eqb a2 b2 && term_eqb a3 b3
  | TSig a1 a2, TSig b1 b2 => term_eqb a1 b1 && term_eqb a2 b2
  | TPair a1 a2, TPair b1 b2 => term_eqb a1 b1 && term_eqb a2 b2
  | TNil, TNil => true
  | TCert a, TCert b => cert_eqb a b
  | TJunk a, TJunk b => a =? b
  | _, _ => false
  end.

(** AEAD decryption / signature verification: ideal *)
Definition adec (k n c : term) : option term :=
  match c with
  | TAead k' n' pt => if term_eqb k k' && term_eqb n n' then Some pt else None
  | _ => None
  end.
(** [PublicKey::verify] under the key pair with identity [kid] *)
Definition sig_ok (kid : N) (m s : term) : bool :=
  match s with
  | TSig (TKey k) m' => (k =? kid) && term_eqb m m'
  | _ => false
  end.

(* ------------------------------------------------------------------ constants *)
Definition OP_SIGMA1   : N := 48.   (* 0x30 *)
Definition OP_SIGMA2   : N := 49.
Definition OP_SIGMA3   : N := 50.
Definition OP_SIGMA2R  : N := 51.
Definition OP_STATUS   : N := 64.   (* 0x40 *)
Definition SC_SUCCESS  : N := 0.    (* SessionEstablishmentSuccess, GeneralCode::Success *)
Definition SC_NOROOTS  : N := 1.    (* NoSharedTrustRoots  (GeneralCode::Failure) *)
Definition SC_INVPARAM : N := 2.    (* InvalidParameter    (GeneralCode::Failure) *)

Definition INFO_S2K : N := 1.   Definition INFO_S3K : N := 2.   Definition INFO_SEKEYS : N := 3.
Definition INFO_S1RK : N := 4.  Definition INFO_S2RK : N := 5.  Definition INFO_RSEKEYS : N := 6.
Definition NONCE_S2 : N := 1.   Definition NONCE_S3 : N := 2.
Definition NONCE_R1 : N := 3.   Definition NONCE_R2 : N := 4.

(** model-only error classes of a handler (what the peer can observe is the message list) *)
Definition E_TLV    : N := 20.  (* TLV / field error surfacing through [?] *)
Definition E_OPCODE : N := 21.
Definition E_STATE  : N := 22.

(* ------------------------------------------------------------------ messages *)

(** TLV element kinds the parsers distinguish *)
Inductive kind := KBytes | KUint | KStruct.
Definition kind_eqb (a b : kind) : bool :=
  match a, b with KBytes, KBytes | KUint, KUint | KStruct, KStruct => true | _, _ => false end.

Record field := mkField { fd_tag : N; fd_kind : kind; fd_val : term }.

(** An unsecured secure-channel message: opcode + the top-level TLV structure as the list of its
    elements in wire order; [m_closed = false]: the end-of-container (and whatever followed) is cut off.
    A StatusReport (not TLV) is the two fields (0, general code), (1, protocol code). *)
Record msg := mkMsg { m_op : N; m_fields : list field; m_closed : bool }.

Definition kind_num (k : kind) : N := match k with KBytes => 0 | KUint => 1 | KStruct => 2 end.
Fixpoint fields_term (l : list field) : term :=
  match l with
  | [] => TNil
  | f :: r => TPair (TPair (TNum (fd_tag f)) (TPair (TNum (kind_num (fd_kind f))) (fd_val f))) (fields_term r)
  end.
(** the payload bytes as a term (what goes into the transcript hash); the opcode is not part of it *)
Definition msg_term (m : msg) : term :=
  TPair (fields_term (m_fields m)) (TNum (if m_closed m then 1 else 0)).

(** [TLVSequence::find_ctx]: first element with the tag; running off the end of a cut-off container is
    the end of the container (no error): [m_closed] matters to the transcript hash only. *)
Fixpoint find_field (tag : N) (l : list field) : option field :=
  match l with
  | [] => None
  | f :: r => if fd_tag f =? tag then Some f else find_field tag r
  end.
Definition get_opt (m : msg) (tag : N) (k : kind) : res (option term) :=
  match find_field tag (m_fields m) with
  | Some f => if kind_eqb (fd_kind f) k then Ok (Some (fd_val f)) else Err E_TLV
  | None => Ok None
  end.
Definition get_req (m : msg) (tag : N) (k : kind) : res term :=
  let? o := get_opt m tag k in
  match o with Some v => Ok v | None => Err E_TLV end.

Definition status_msg (code : N) : msg :=
  mkMsg OP_STATUS [mkField 0 KUint (TNum (if code =? SC_SUCCESS then 0 else 1));
                   mkField 1 KUint (TNum code)] true.
(** [StatusReport::read] + the success test of the callers *)
Definition status_is_success (m : msg) : res bool :=
  let? g := get_req m 0 KUint in
  let? c := get_req m 1 KUint in
  Ok (term_eqb g (TNum 0) && term_eqb c (TNum SC_SUCCESS)).

(** an EC point the backend accepts ([crypto.pub_key(..)?], 65 bytes) *)
Definition is_pub (t : term) : bool := match t with TPub _ => true | _ => false end.

(* ------------------------------------------------------------------ node state *)

Record fabric := mkFabric {
  f_idx  : N;                 (* local fabric index, non-zero *)
  f_root : cert;              (* trusted root *)
  f_noc  : cert;              (* own NOC *)
  f_icac : option cert;       (* own ICAC *)
  f_sk   : N;                 (* identity of the own operational key pair *)
  f_ipk  : term;              (* operational IPK *)
  f_fid  : N;                 (* fabric id   (Fabrics::add takes both from the NOC) *)
  f_nid  : N                  (* own node id *)
}.

Record record := mkRecord {
  r_fab : N; r_peer : N; r_cats : list N; r_rid : term; r_secret : term
}.

Record session := mkSession {
  s_id : N;
  s_reserved : bool;
  s_fab : N;                  (* SessionMode::Case { fab_idx, cat_ids } ; 0 while not updated *)
  s_cats : list N;
  s_peer : N;                 (* peer node id *)
  s_dec : term;
  s_enc : term;
  s_att : term
}.

Record node := mkNode {
  n_fabrics  : list fabric;
  n_cache    : list record;   (* oldest first *)
  n_sessions : list session;
  n_next_id  : N;             (* Sessions::add: next unique id *)
  n_clock    : clock
}.

Definition set_sessions (st : node) (l : list session) : node :=
  mkNode (n_fabrics st) (n_cache st) l (n_next_id st) (n_clock st).
Definition set_cache (st : node) (c : list record) : node :=
  mkNode (n_fabrics st) c (n_sessions st) (n_next_id st) (n_clock st).

(** [ReservedSession::reserve_now] (table not full) *)
Definition blank_session (id : N) : session := mkSession id true 0 [] 0 TNil TNil TNil.
Definition reserve (st : node) : node * N :=
  (mkNode (n_fabrics st) (n_cache st) (n_sessions st ++ [blank_session (n_next_id st)])
          (n_next_id st + 1) (n_clock st), n_next_id st).
(** [ReservedSession::drop] without [complete] *)
Definition release (st : node) (id : N) : node :=
  set_sessions st (filter (fun s => negb (s_id s =? id)) (n_sessions st)).
(** [ReservedSession::update] *)
Definition update_sess (st : node) (id fab : N) (cats : list N) (peer : N) (dec enc att : term) : node :=
  set_sessions st (map (fun s => if s_id s =? id
                                 then mkSession id (s_reserved s) fab cats peer dec enc att else s)
                       (n_sessions st)).
(** [complete] then [drop] *)
Definition complete (st : node) (id : N) : node :=
  set_sessions st (map (fun s => if s_id s =? id
                                 then mkSession id false (s_fab s) (s_cats s) (s_peer s) (s_dec s) (s_enc s) (s_att s)
                                 else s) (n_sessions st)).

Fixpoint get_fabric (idx : N) (l : list fabric) : option fabric :=
  match l with
  | [] => None
  | f :: r => if f_idx f =? idx then Some f else get_fabric idx r
  end.

Definition root_pub (f : fabric) : term := TPub (TKey (pubkey (f_root f))).

(** [Fabric::compute_dest_id] *)
Definition dest_id (f : fabric) (random : term) (target_node : N) : term :=
  THmac (f_ipk f) (TPair random (TPair (root_pub f) (TPair (TNum (f_fid f)) (TNum target_node)))).

(** [Fabrics::get_by_dest_id]: first fabric whose destination id (for OUR node id) matches *)
Fixpoint get_by_dest_id (l : list fabric) (random target : term) : option fabric :=
  match l with
  | [] => None
  | f :: r => if term_eqb (dest_id f random (f_nid f)) target then Some f else get_by_dest_id r random target
  end.

(** resumption cache *)
Fixpoint find_by_rid (l : list record) (rid : term) : option record :=
  match l with
  | [] => None
  | r :: t => if term_eqb (r_rid r) rid then Some r else find_by_rid t rid
  end.
Fixpoint find_by_peer (l : list record) (fab peer : N) : option record :=
  match l with
  | [] => None
  | r :: t => if (r_fab r =? fab) && (r_peer r =? peer) then Some r else find_by_peer t fab peer
  end.
Definition MAX_RECORDS : nat := 16.   (* the crate's bound is build dependent, at most 16 *)
Definition insert_or_update (l : list record) (r : record) : list record :=
  let l1 := filter (fun x => negb ((r_fab x =? r_fab r) && (r_peer x =? r_peer r))) l in
  let l2 := if Nat.leb MAX_RECORDS (length l1) then tl l1 else l1 in
  l2 ++ [r].

(** [CertRef::get_cat_ids] into [NocCatIds = [u32; 3]]: more than three is an error *)
Fixpoint cat_list (l : dn) : list N :=
  match l with
  | [] => []
  | (t, v) :: r => if t =? DN_CAT then (v mod two32) :: cat_list r else cat_list r
  end.
Definition cats_of (c : cert) : res (list N) :=
  let l := cat_list (subject c) in
  if Nat.leb (length l) 3 then Ok l else Err E_DATA.

(* ------------------------------------------------------------------ key schedule (casep.rs) *)

Definition icac_term (i : option cert) : term := match i with Some c => TCert c | None => TNil end.

(** TBSData2 / TBSData3: {1: noc, 2: icac?, 3: sender eph pub, 4: receiver eph pub} *)
Definition tbs (noc : cert) (icac : option cert) (sender_pub receiver_pub : term) : term :=
  TPair (TCert noc) (TPair (icac_term icac) (TPair sender_pub (TPair receiver_pub TNil))).

Definition s2k (ipk rrand rpub h1 shared : term) : term :=
  THkdf (TPair ipk (TPair rrand (TPair rpub h1))) shared (TNum INFO_S2K).
Definition s3k (ipk h12 shared : term) : term :=
  THkdf (TPair ipk h12) shared (TNum INFO_S3K).
(** the i-th 16-byte slice of the 48-byte session key material *)
Definition sess_key (i : N) (ipk h123 shared : term) : term :=
  THkdf (TPair ipk h123) shared (TPair (TNum INFO_SEKEYS) (TNum i)).
Definition resume_key (info : N) (secret irand rid : term) : term :=
  THkdf (TPair irand rid) secret (TNum info).
Definition resume_mic (info nonce : N) (secret irand rid : term) : term :=
  TAead (resume_key info secret irand rid) (TNum nonce) TNil.
Definition rsess_key (i : N) (secret irand rid : term) : term :=
  THkdf (TPair irand rid) secret (TPair (TNum INFO_RSEKEYS) (TNum i)).

Definition h1 (s1 : term) : term := THash (TPair s1 TNil).
Definition h12 (s1 s2 : term) : term := THash (TPair s1 (TPair s2 TNil)).
Definition h123 (s1 s2 s3 : term) : term := THash (TPair s1 (TPair s2 (TPair s3 TNil))).

Definition tbe2_plain (noc : cert) (icac : option cert) (sig rid : term) : term :=
  TPair (TCert noc) (TPair (icac_term icac) (TPair sig (TPair rid TNil))).
Definition tbe3_plain (noc : cert) (icac : option cert) (sig : term) : term :=
  TPair (TCert noc) (TPair (icac_term icac) (TPair sig TNil)).

(** [TBEData2Decrypt::from_tlv] / [Sigma3Decrypt::from_tlv] on a decrypted plaintext *)
Definition parse_icac (t : term) : option (option cert) :=
  match t with TNil => Some None | TCert c => Some (Some c) | _ => None end.
Definition parse_tbe2 (t : term) : option (cert * option cert * term * term) :=
  match t with
  | TPair (TCert noc) (TPair i (TPair sig (TPair rid TNil))) =>
      match parse_icac i with Some ic => Some (noc, ic, sig, rid) | None => None end
  | _ => None
  end.
Definition parse_tbe3 (t : term) : option (cert * option cert * term) :=
  match t with
  | TPair (TCert noc) (TPair i (TPair sig TNil)) =>
      match parse_icac i with Some ic => Some (noc, ic, sig) | None => None end
  | _ => None
  end.

(** fresh values a handler draws: ephemeral secret, random, resumption id, local session id *)
Record fresh := mkFresh { fr_eph : N; fr_rand : N; fr_rid : N; fr_sid : N }.

(* ------------------------------------------------------------------ responder *)

Record rctx := mkRctx {
  rc_slot : N;                (* the reserved session *)
  rc_fab : N;                 (* casep.local_fabric_idx; 0 = [start] never ran *)
  rc_our_pub : term;
  rc_peer_pub : term;
  rc_shared : term;
  rc_rid : term;
  rc_s1 : term;               (* payload terms in the transcript so far *)
  rc_s2 : term
}.

Inductive rstate :=
| RIdle
| RAwait3 (c : rctx)
| RAwaitStatus (slot : N) (r : record) (new_rid : term)
| RDone.

(** model arms, for the evidence (which branch a run took) *)
Definition A_R_BADOP := 1.  Definition A_R_S1PARSE := 2. Definition A_R_MISMATCH := 3.
Definition A_R_NOFABRIC := 4. Definition A_R_BADPUB := 5. Definition A_R_SIGMA2 := 6.
Definition A_R_RESUME := 7. Definition A_R_RES_NOFAB := 8. Definition A_R_S3_BADOP := 9.
Definition A_R_S3_UNSTARTED := 10. Definition A_R_S3_OUTER := 11. Definition A_R_S3_DECRYPT := 12.
Definition A_R_S3_INNER := 13. Definition A_R_S3_CERTS := 14. Definition A_R_S3_SIG := 15.
Definition A_R_S3_CATS := 16. Definition A_R_S3_OK := 17. Definition A_R_FIN_OK := 18.
Definition A_R_FIN_BAD := 19. Definition A_R_IGNORED := 20. Definition A_R_S3_NONODE := 21.

Record rout := mkRout { ro_node : node; ro_state : rstate; ro_msgs : list msg; ro_arm : N }.

Definition opt_field (tag : N) (k : kind) (o : option term) : list field :=
  match o with Some v => [mkField tag k v] | None => [] end.

(** [Sigma1Req::from_tlv] *)
Record sigma1 := mkSigma1 {
  g1_random : term; g1_sid : term; g1_dest : term; g1_pub : term;
  g1_params : option term; g1_rid : option term; g1_mic : option term
}.
Definition parse_sigma1 (m : msg) : res sigma1 :=
  let? a := get_req m 1 KBytes in
  let? b := get_req m 2 KUint in
  let? c := get_req m 3 KBytes in
  let? d := get_req m 4 KBytes in
  let? e := get_opt m 5 KStruct in
  let? f := get_opt m 6 KBytes in
  let? g := get_opt m 7 KBytes in
  Ok (mkSigma1 a b c d e f g).

(** [try_handle_sigma1_resume] up to the point where Sigma2_Resume is sent and the reserved session is
    loaded; [None] = fall through to the full handshake. *)
Definition resp_try_resume (st : node) (slot : N) (fr : fresh) (q : sigma1) : option rout :=
  match g1_rid q, g1_mic q with
  | Some rid, Some mic =>
      match find_by_rid (n_cache st) rid with
      | None => None
      | Some r =>
          if negb (term_eqb mic (resume_mic INFO_S1RK NONCE_R1 (r_secret r) (g1_random q) (r_rid r)))
          then None else
          let new_rid := TNonce (fr_rid fr) in
          let m := mkMsg OP_SIGMA2R
                     [mkField 1 KBytes new_rid;
                      mkField 2 KBytes (resume_mic INFO_S2RK NONCE_R2 (r_secret r) (g1_random q) new_rid);
                      mkField 3 KUint (TNonce (fr_sid fr));
                      mkField 4 KStruct (TNum 0)] true in
          (* Sigma2_Resume is on the wire before the fabric is looked up *)
          match get_fabric (r_fab r) (n_fabrics st) with
          | None => Some (mkRout (release st slot) RDone [m] A_R_RES_NOFAB)
          | Some _ =>
              let st1 := update_sess st slot (r_fab r) (r_cats r) (r_peer r)
                           (rsess_key 0 (r_secret r) (g1_random q) (r_rid r))
                           (rsess_key 1 (r_secret r) (g1_random q) (r_rid r))
                           (rsess_key 2 (r_secret r) (g1_random q) (r_rid r)) in
              Some (mkRout st1 (RAwaitStatus slot r new_rid) [m] A_R_RESUME)
          end
      end
  | _, _ => None
  end.

Definition unstarted (slot : N) : rctx := mkRctx slot 0 TNil TNil TNil TNil TNil TNil.

(** the Sigma2 of fabric [f] answering a Sigma1 with payload [s1] and ephemeral key [peer_pub]
    ([casep.start], [compute_sigma2_signature], [sigma2_encrypt]) *)
Definition build_sigma2 (f : fabric) (fr : fresh) (peer_pub s1 : term) : msg :=
  let e := TNonce (fr_eph fr) in
  let our_pub := TPub e in
  let shared := dh e peer_pub in
  let rrand := TNonce (fr_rand fr) in
  let rid := TNonce (fr_rid fr) in
  let sig := TSig (TKey (f_sk f)) (tbs (f_noc f) (f_icac f) our_pub peer_pub) in
  let tbe := TAead (s2k (f_ipk f) rrand our_pub (h1 s1) shared) (TNum NONCE_S2)
                   (tbe2_plain (f_noc f) (f_icac f) sig rid) in
  mkMsg OP_SIGMA2
        [mkField 1 KBytes rrand; mkField 2 KUint (TNonce (fr_sid fr));
         mkField 3 KBytes our_pub; mkField 4 KBytes tbe; mkField 5 KStruct (TNum 0)] true.

(** [handle_casesigma1] *)
Definition resp_sigma1 (st : node) (slot : N) (fr : fresh) (m : msg) (q : sigma1) : rout :=
  match g1_rid q, g1_mic q with
  | Some _, None | None, Some _ =>
      (* status sent, [Ok(())] returned: [handle] goes on to wait for the next message *)
      mkRout st (RAwait3 (unstarted slot)) [status_msg SC_INVPARAM] A_R_MISMATCH
  | _, _ =>
      match get_by_dest_id (n_fabrics st) (g1_random q) (g1_dest q) with
      | None => mkRout st (RAwait3 (unstarted slot)) [status_msg SC_NOROOTS] A_R_NOFABRIC
      | Some f =>
          if negb (is_pub (g1_pub q)) then mkRout (release st slot) RDone [] A_R_BADPUB else
          let m2 := build_sigma2 f fr (g1_pub q) (msg_term m) in
          mkRout st (RAwait3 (mkRctx slot (f_idx f) (TPub (TNonce (fr_eph fr))) (g1_pub q)
                                     (dh (TNonce (fr_eph fr)) (g1_pub q)) (TNonce (fr_rid fr))
                                     (msg_term m) (msg_term m2)))
                 [m2] A_R_SIGMA2
      end
  end.

(** the first message of the exchange: [handle] = reserve, resume attempt, [handle_casesigma1] *)
Definition resp_first (st0 : node) (fr : fresh) (m : msg) : rout :=
  let (st, slot) := reserve st0 in
  if negb (m_op m =? OP_SIGMA1) then mkRout (release st slot) RDone [] A_R_BADOP else
  match parse_sigma1 m with
  | Ok q =>
      match resp_try_resume st slot fr q with
      | Some o => o
      | None => resp_sigma1 st slot fr m q
      end
  | _ => mkRout (release st slot) RDone [] A_R_S1PARSE
  end.

(** [handle_casesigma3] *)
Definition resp_sigma3 (st : node) (c : rctx) (m : msg) : rout :=
  let fail arm := mkRout (release st (rc_slot c)) RDone [status_msg SC_INVPARAM] arm in
  if negb (m_op m =? OP_SIGMA3) then
    (* expect_opcode: the report is sent unless the message is itself a status report *)
    mkRout (release st (rc_slot c)) RDone
           (if m_op m =? OP_STATUS then [] else [status_msg SC_INVPARAM]) A_R_S3_BADOP
  else
  match get_fabric (rc_fab c) (n_fabrics st) with
  | None => mkRout (release st (rc_slot c)) RDone [status_msg SC_NOROOTS] A_R_S3_UNSTARTED
  | Some f =>
      match get_req m 1 KBytes with
      | Ok enc =>
          let s12 := h12 (rc_s1 c) (rc_s2 c) in
          match adec (s3k (f_ipk f) s12 (rc_shared c)) (TNum NONCE_S3) enc with
          | None => fail A_R_S3_DECRYPT
          | Some pt =>
              match parse_tbe3 pt with
              | None => fail A_R_S3_INNER
              | Some (noc, icac, sig) =>
                  match case_validate (n_clock st) (f_fid f) (f_root f) noc icac with
                  | Ok _ =>
                      if negb (sig_ok (pubkey noc) (tbs noc icac (rc_peer_pub c) (rc_our_pub c)) sig)
                      then fail A_R_S3_SIG else
                      match cats_of noc with
                      | Ok cats =>
                          match get_node_id noc with
                          | None => mkRout (release st (rc_slot c)) RDone [] A_R_S3_NONODE
                          | Some peer =>
                              let s3 := msg_term m in
                              let hh := h123 (rc_s1 c) (rc_s2 c) s3 in
                              let st1 := update_sess st (rc_slot c) (f_idx f) cats peer
                                           (sess_key 0 (f_ipk f) hh (rc_shared c))
                                           (sess_key 1 (f_ipk f) hh (rc_shared c))
                                           (sess_key 2 (f_ipk f) hh (rc_shared c)) in
                              let st2 := set_cache st1 (insert_or_update (n_cache st1)
                                           (mkRecord (f_idx f) peer cats (rc_rid c) (rc_shared c))) in
                              mkRout (complete st2 (rc_slot c)) RDone [status_msg SC_SUCCESS] A_R_S3_OK
                          end
                      | _ => mkRout (release st (rc_slot c)) RDone [] A_R_S3_CATS
                      end
                  | _ => fail A_R_S3_CERTS
                  end
              end
          end
      | _ => fail A_R_S3_OUTER
      end
  end.

(** SigmaFinished after Sigma2_Resume *)
Definition resp_finished (st : node) (slot : N) (r : record) (new_rid : term) (m : msg) : rout :=
  let ok := (m_op m =? OP_STATUS) &&
            match status_is_success m with Ok b => b | _ => false end in
  if ok then
    let st1 := complete st slot in
    mkRout (set_cache st1 (insert_or_update (n_cache st1)
                             (mkRecord (r_fab r) (r_peer r) (r_cats r) new_rid (r_secret r))))
           RDone [] A_R_FIN_OK
  else mkRout (release st slot) RDone [] A_R_FIN_BAD.

Definition resp_step (st : node) (rs : rstate) (fr : fresh) (m : msg) : rout :=
  match rs with
  | RIdle => resp_first st fr m
  | RAwait3 c => resp_sigma3 st c m
  | RAwaitStatus slot r new_rid => resp_finished st slot r new_rid m
  | RDone => mkRout st RDone [] A_R_IGNORED
  end.

(** the handler's future dropped while waiting (receive timeout, transport gone) *)
Definition resp_abort (st : node) (rs : rstate) : node :=
  match rs with
  | RAwait3 c => release st (rc_slot c)
  | RAwaitStatus slot _ _ => release st slot
  | _ => st
  end.

(* ------------------------------------------------------------------ initiator *)

Record ictx := mkIctx {
  ic_slot : N;
  ic_fab : N;                 (* the fabric index given to [perform] *)
  ic_peer : N;                (* the node id given to [perform] *)
  ic_eph : term;              (* ephemeral secret *)
  ic_pub : term;
  ic_rand : term;
  ic_s1 : term;
  ic_cached : option record
}.
Record ictx2 := mkIctx2 {
  i2_c : ictx; i2_s2 : term; i2_s3 : term; i2_shared : term; i2_cats : list N; i2_rid : term
}.
Inductive istate :=
| IAwait2 (c : ictx)
| IAwaitStatus (c : ictx2)
| IFinishing (r : record) (new_rid : term)   (* session complete, SigmaFinished being sent *)
| IDone (ok : bool).

Definition A_I_NOFABRIC := 31. Definition A_I_START := 32. Definition A_I_START_RESUME := 33.
Definition A_I_STATUS := 34. Definition A_I_UNREQ_RESUME := 35. Definition A_I_RES_PARSE := 36.
Definition A_I_RES_MIC := 37. Definition A_I_RES_OK := 38. Definition A_I_BADOP := 39.
Definition A_I_S2_PARSE := 40. Definition A_I_S2_FIELDS := 41. Definition A_I_S2_DECRYPT := 42.
Definition A_I_S2_INNER := 43. Definition A_I_S2_CERTS := 44. Definition A_I_S2_NODEID := 45.
Definition A_I_S2_SIG := 46. Definition A_I_S2_CATS := 47. Definition A_I_SIGMA3 := 48.
Definition A_I_FIN_BADOP := 49. Definition A_I_FIN_FAIL := 50. Definition A_I_FIN_OK := 51.
Definition A_I_IGNORED := 52. Definition A_I_RES_NOFAB := 53.

Record iout := mkIout { io_node : node; io_state : istate; io_msgs : list msg; io_arm : N }.

(** [CaseInitiator::perform] up to the point where Sigma1 is sent *)
Definition init_start (st0 : node) (fr : fresh) (fab peer : N) : iout :=
  let (st, slot) := reserve st0 in
  let cached := find_by_peer (n_cache st) fab peer in
  match get_fabric fab (n_fabrics st) with
  | None => mkIout (release st slot) (IDone false) [] A_I_NOFABRIC
  | Some f =>
      let e := TNonce (fr_eph fr) in
      let rand := TNonce (fr_rand fr) in
      let resume := match cached with
                    | Some r => [mkField 6 KBytes (r_rid r);
                                 mkField 7 KBytes (resume_mic INFO_S1RK NONCE_R1 (r_secret r) rand (r_rid r))]
                    | None => []
                    end in
      let m := mkMsg OP_SIGMA1
                 ([mkField 1 KBytes rand; mkField 2 KUint (TNonce (fr_sid fr));
                   mkField 3 KBytes (dest_id f rand peer); mkField 4 KBytes (TPub e)] ++ resume) true in
      mkIout st (IAwait2 (mkIctx slot fab peer e (TPub e) rand (msg_term m) cached)) [m]
             (match cached with Some _ => A_I_START_RESUME | None => A_I_START end)
  end.

(** [finalize_sigma2_resume] *)
Definition init_resume (st : node) (c : ictx) (r : record) (m : msg) : iout :=
  let quiet arm := mkIout (release st (ic_slot c)) (IDone false) [] arm in
  let parsed :=
    let? rid := get_req m 1 KBytes in
    let? mic := get_req m 2 KBytes in
    let? sid := get_req m 3 KUint in
    let? _ := get_opt m 4 KStruct in
    Ok (rid, mic) in
  match parsed with
  | Ok (new_rid, mic) =>
      if negb (term_eqb mic (resume_mic INFO_S2RK NONCE_R2 (r_secret r) (ic_rand c) new_rid))
      then mkIout (release st (ic_slot c)) (IDone false) [status_msg SC_INVPARAM] A_I_RES_MIC else
      match get_fabric (ic_fab c) (n_fabrics st) with
      | None => quiet A_I_RES_NOFAB
      | Some _ =>
          let st1 := update_sess st (ic_slot c) (r_fab r) (r_cats r) (r_peer r)
                       (rsess_key 1 (r_secret r) (ic_rand c) (r_rid r))
                       (rsess_key 0 (r_secret r) (ic_rand c) (r_rid r))
                       (rsess_key 2 (r_secret r) (ic_rand c) (r_rid r)) in
          (* [session.complete()] comes before SigmaFinished is sent; the cache is rotated after
             the send succeeded ([init_sent]) *)
          mkIout (complete st1 (ic_slot c)) (IFinishing r new_rid) [status_msg SC_SUCCESS] A_I_RES_OK
      end
  | _ => quiet A_I_RES_PARSE
  end.

(** outcome of the reliable send of SigmaFinished: acknowledged ([delivered]) or given up
    ([complete_with_status(..).await?] returns the error before the cache is touched) *)
Definition init_sent (st : node) (s : istate) (delivered : bool) : node * istate :=
  match s with
  | IFinishing r new_rid =>
      if delivered then
        (set_cache st (insert_or_update (n_cache st)
                         (mkRecord (r_fab r) (r_peer r) (r_cats r) new_rid (r_secret r))), IDone true)
      else (st, IDone false)
  | _ => (st, s)
  end.

(** the Sigma3 of fabric [f] ([compute_sigma3_signature], [sigma3_encrypt]) *)
Definition build_sigma3 (f : fabric) (own_pub rpub s1 s2 shared : term) : msg :=
  let sig3 := TSig (TKey (f_sk f)) (tbs (f_noc f) (f_icac f) own_pub rpub) in
  let tbe := TAead (s3k (f_ipk f) (h12 s1 s2) shared) (TNum NONCE_S3)
                   (tbe3_plain (f_noc f) (f_icac f) sig3) in
  mkMsg OP_SIGMA3 [mkField 1 KBytes tbe] true.

(** Sigma2 received: steps 5-7 of [perform] *)
Definition init_sigma2 (st : node) (c : ictx) (m : msg) : iout :=
  let quiet arm := mkIout (release st (ic_slot c)) (IDone false) [] arm in
  let fail arm := mkIout (release st (ic_slot c)) (IDone false) [status_msg SC_INVPARAM] arm in
  let parsed :=
    let? rr := get_req m 1 KBytes in
    let? sid := get_req m 2 KUint in
    let? rpub := get_req m 3 KBytes in
    let? enc := get_req m 4 KBytes in
    Ok (rr, rpub, enc) in
  match parsed with
  | Ok (rr, rpub, enc) =>
      match get_fabric (ic_fab c) (n_fabrics st) with
      | None => fail A_I_S2_FIELDS
      | Some f =>
          if negb (is_pub rpub) then fail A_I_S2_FIELDS else
          let shared := dh (ic_eph c) rpub in
          let s2 := msg_term m in
          match adec (s2k (f_ipk f) rr rpub (h1 (ic_s1 c)) shared) (TNum NONCE_S2) enc with
          | None => fail A_I_S2_DECRYPT
          | Some pt =>
              match parse_tbe2 pt with
              | None => fail A_I_S2_INNER
              | Some (noc, icac, sig, rid) =>
                  match case_validate (n_clock st) (f_fid f) (f_root f) noc icac with
                  | Ok _ =>
                      match get_node_id noc with
                      | None => fail A_I_S2_NODEID
                      | Some nid =>
                          if negb (nid =? ic_peer c) then fail A_I_S2_NODEID else
                          if negb (sig_ok (pubkey noc) (tbs noc icac rpub (ic_pub c)) sig)
                          then fail A_I_S2_SIG else
                          match cats_of noc with
                          | Ok cats =>
                              let m3 := build_sigma3 f (ic_pub c) rpub (ic_s1 c) s2 shared in
                              mkIout st (IAwaitStatus (mkIctx2 c s2 (msg_term m3) shared cats rid))
                                     [m3] A_I_SIGMA3
                          | _ => fail A_I_S2_CATS
                          end
                      end
                  | _ => fail A_I_S2_CERTS
                  end
              end
          end
      end
  | _ => quiet A_I_S2_PARSE
  end.

(** the final StatusReport: steps 8-9 of [perform] *)
Definition init_finish (st : node) (c2 : ictx2) (m : msg) : iout :=
  let c := i2_c c2 in
  let quiet arm := mkIout (release st (ic_slot c)) (IDone false) [] arm in
  if negb (m_op m =? OP_STATUS) then quiet A_I_FIN_BADOP else
  match status_is_success m with
  | Ok true =>
      match get_fabric (ic_fab c) (n_fabrics st) with
      | None => quiet A_I_FIN_FAIL
      | Some f =>
          let hh := h123 (ic_s1 c) (i2_s2 c2) (i2_s3 c2) in
          let st1 := update_sess st (ic_slot c) (ic_fab c) (i2_cats c2) (ic_peer c)
                       (sess_key 1 (f_ipk f) hh (i2_shared c2))
                       (sess_key 0 (f_ipk f) hh (i2_shared c2))
                       (sess_key 2 (f_ipk f) hh (i2_shared c2)) in
          let st2 := complete st1 (ic_slot c) in
          mkIout (set_cache st2 (insert_or_update (n_cache st2)
                                   (mkRecord (ic_fab c) (ic_peer c) (i2_cats c2) (i2_rid c2) (i2_shared c2))))
                 (IDone true) [] A_I_FIN_OK
      end
  | _ => quiet A_I_FIN_FAIL
  end.

Definition init_step (st : node) (s : istate) (m : msg) : iout :=
  match s with
  | IAwait2 c =>
      if m_op m =? OP_STATUS then
        mkIout (release st (ic_slot c)) (IDone false) [] A_I_STATUS
      else if m_op m =? OP_SIGMA2R then
        match ic_cached c with
        | None => mkIout (release st (ic_slot c)) (IDone false) [status_msg SC_INVPARAM] A_I_UNREQ_RESUME
        | Some r => init_resume st c r m
        end
      else if negb (m_op m =? OP_SIGMA2) then
        mkIout (release st (ic_slot c)) (IDone false) [] A_I_BADOP
      else init_sigma2 st c m
  | IAwaitStatus c2 => init_finish st c2 m
  | IFinishing r new_rid => mkIout st (IFinishing r new_rid) [] A_I_IGNORED
  | IDone ok => mkIout st (IDone ok) [] A_I_IGNORED
  end.

Definition init_abort (st : node) (s : istate) : node :=
  match s with
  | IAwait2 c => release st (ic_slot c)
  | IAwaitStatus c2 => release st (ic_slot (i2_c c2))
  | IFinishing _ _ | IDone _ => st
  end.

(* ------------------------------------------------------------------ runs *)

(** the responder handler fed a whole sequence of messages (whatever an attacker delivers on the exchange) *)
Fixpoint resp_run (st : node) (rs : rstate) (fr : fresh) (ms : list msg) : node * rstate * list msg :=
  match ms with
  | [] => (st, rs, [])
  | m :: r =>
      let o := resp_step st rs fr m in
      let '(st', rs', out) := resp_run (ro_node o) (ro_state o) fr r in
      (st', rs', ro_msgs o ++ out)
  end.

Fixpoint init_run (st : node) (s : istate) (ms : list msg) : node * istate * list msg :=
  match ms with
  | [] => (st, s, [])
  | m :: r =>
      let o := init_step st s m in
      let '(st', s', out) := init_run (io_node o) (io_state o) r in
      (st', s', io_msgs o ++ out)
  end.

(** Two nodes joined by a network under the control of [mitm]: every message in flight is handed to
    [mitm dir k m] (dir 0 = initiator to responder, k = number of messages seen so far in that
    direction); what it returns is delivered ([None]: nothing is).  Ping-pong until nothing is in
    flight. *)
Record pair_state := mkPair {
  p_i : node; p_is : istate; p_r : node; p_rs : rstate;
  p_arms : list N;              (* arms taken, in order *)
  p_wire : list (N * msg);      (* (direction, message as sent) *)
  p_last_status : option msg    (* last StatusReport delivered to the initiator *)
}.

Definition mitm_t := N -> N -> msg -> option msg.

Fixpoint count_dir (d : N) (w : list (N * msg)) : N :=
  match w with
  | [] => 0
  | (d', _) :: r => (if d' =? d then 1 else 0) + count_dir d r
  end.

Fixpoint pump (fuel : nat) (mitm : mitm_t) (fr : fresh) (p : pair_state) (flight : list (N * msg)) : pair_state :=
  match fuel with
  | O => p
  | S fuel' =>
      match flight with
      | [] => p
      | (d, m) :: rest =>
          let k := count_dir d (p_wire p) in
          let verdict := mitm d k m in
          let '(ni, nis) := if d =? 0
                            then init_sent (p_i p) (p_is p) (match verdict with Some _ => true | None => false end)
                            else (p_i p, p_is p) in
          let p1 := mkPair ni nis (p_r p) (p_rs p) (p_arms p) (p_wire p ++ [(d, m)]) (p_last_status p) in
          match verdict with
          | None => pump fuel' mitm fr p1 rest
          | Some m' =>
              if d =? 0 then
                let o := resp_step (p_r p1) (p_rs p1) fr m' in
                pump fuel' mitm fr
                  (mkPair (p_i p1) (p_is p1) (ro_node o) (ro_state o) (p_arms p1 ++ [ro_arm o]) (p_wire p1)
                          (p_last_status p1))
                  (rest ++ map (fun x => (1, x)) (ro_msgs o))
              else
                let o := init_step (p_i p1) (p_is p1) m' in
                pump fuel' mitm fr
                  (mkPair (io_node o) (io_state o) (p_r p1) (p_rs p1) (p_arms p1 ++ [io_arm o]) (p_wire p1)
                          (if m_op m' =? OP_STATUS then Some m' else p_last_status p1))
                  (rest ++ map (fun x => (0, x)) (io_msgs o))
          end
      end
  end.

(** one handshake attempt between initiator node [a] and responder node [b]; at the end both handlers
    are gone (a handler still waiting is dropped: its reserved session is released) *)
Definition handshake (mitm : mitm_t) (a b : node) (fra frb : fresh) (fab peer : N) : pair_state :=
  let o := init_start a fra fab peer in
  let p0 := mkPair (io_node o) (io_state o) b RIdle [io_arm o] [] None in
  let p := pump 12 mitm frb p0 (map (fun x => (0, x)) (io_msgs o)) in
  mkPair (init_abort (p_i p) (p_is p)) (p_is p) (resp_abort (p_r p) (p_rs p)) (p_rs p)
         (p_arms p) (p_wire p) (p_last_status p).
