(** The single TX buffer on top of the transport model of Model/Exchange.v:
    rs-matter/src/transport/exchange.rs (ExchangeId::init_send, TxMessage::complete,
    TxMessage drop) and transport.rs (process_tx, process_dropped_exchanges taking
    the TX buffer).  No proofs in this file.

    The TX buffer is [TxEmpty] (unlocked, empty), [TxQueued] (unlocked, holds a
    finished packet that process_tx has not picked up yet) or [TxTaken] (locked by
    the TxMessage of an Exchange that is building a packet).  A send is the label
    sequence [XInitSend; XComplete] here; the core label [LSend] (which fuses the
    two) is not a label of this system. *)
From RsM Require Export Model.Exchange.
Open Scope N_scope.

Inductive txslot :=
| TxEmpty
| TxQueued (sess : option N)      (* NotEncoded { session id } / already encoded *)
| TxTaken (sid : N) (idx : nat).

Record sysx := mkSysx { core : sys; tx : txslot }.

Definition sysx_init (t0 : N) : sysx := mkSysx (sys_init t0) TxEmpty.

Inductive labelx :=
| XCore (l : label)
| XInitSend (sid : N) (idx : nat)                          (* init_send obtains the TX buffer *)
| XComplete (sid : N) (idx : nat) (ctr : N) (rel : bool)   (* TxMessage::complete *)
| XAbandon (sid : N) (idx : nat)                           (* the TxMessage is dropped unfinished *)
| XFlush.                                                   (* process_tx: one packet *)

Inductive eventx :=
| XEv (e : event)
| XWire (sess : option N)                 (* the packet reached the network *)
| XTxNoSession (sid : N)                  (* process_tx: no session to encode with, dropped *)
| XTxSwallow (sid : N) (idx : nat) (victim : option N).
    (* (unrepaired code only) init_send of a dangling Exchange cleared a queued packet *)

Definition is_lsend (l : label) : bool := match l with LSend _ _ _ _ => true | _ => false end.

Definition tx_release (t : txslot) (sid : N) (idx : nat) : txslot :=
  match t with
  | TxTaken sid' idx' => if (sid' =? sid) && (idx' =? idx)%nat then TxEmpty else t
  | _ => t
  end.

(** the packet the closer queued, if any *)
Definition closer_tx (ev : list event) : txslot :=
  match ev with
  | [EvStandaloneAck sid _ _] => TxQueued (Some sid)
  | [EvCloseSession _ _] => TxQueued None      (* encoded at once: its session is gone *)
  | _ => TxEmpty
  end.

(** [Session::pre_send] succeeded: the packet stays in the buffer *)
Definition send_ok (c : sys) (sid : N) (idx : nat) (ctr : N) (rel : bool) : bool :=
  match find_sid (sessions c) sid with
  | Some se =>
      match nth_error (s_exchs se) idx with
      | Some (Some e) =>
          negb (s_group se) &&
          match snd (rm_pre_send (e_mrp e) ctr rel None) with Ok _ => true | _ => false end
      | _ => false
      end
  | None => false
  end.

Definition holds_rx (c : sys) (sid : N) (idx : nat) : bool :=
  match rx c with
  | RxTaken _ sid' idx' => (sid' =? sid) && (idx' =? idx)%nat
  | _ => false
  end.

(** [bug = true]: [init_send] as it was — an Exchange whose session vanished while it
    waited for the TX buffer took the buffer whatever it held, and cleared it. *)
Definition stepx (bug : bool) (s : sysx) (l : labelx) : option (sysx * list eventx) :=
  match l with
  | XCore lc =>
      if is_lsend lc then None else
      match lc with
      | LCloseDropped =>
          (* process_dropped_exchanges first waits for an empty TX buffer *)
          match tx s with
          | TxEmpty =>
              match step false (core s) lc with
              | Some (c', ev) => Some (mkSysx c' (closer_tx ev), map XEv ev)
              | None => None
              end
          | _ => None
          end
      | LDropExch sid idx =>
          match step false (core s) lc with
          | Some (c', ev) => Some (mkSysx c' (tx_release (tx s) sid idx), map XEv ev)
          | None => None
          end
      | _ =>
          match step false (core s) lc with
          | Some (c', ev) => Some (mkSysx c' (tx s), map XEv ev)
          | None => None
          end
      end
  | XInitSend sid idx =>
      if has_handle (core s) sid idx && negb (holds_rx (core s) sid idx) then
        match find_sid (sessions (core s)) sid with
        | Some _ =>
            match tx s with
            | TxEmpty => Some (mkSysx (core s) (TxTaken sid idx), [])
            | _ => None
            end
        | None =>
            (* the session vanished while the Exchange waited for the buffer:
               repaired code returns NoSession and leaves the buffer alone *)
            if bug then
              match tx s with
              | TxQueued v => Some (mkSysx (core s) TxEmpty, [XTxSwallow sid idx v])
              | _ => None
              end
            else None
        end
      else None
  | XComplete sid idx ctr rel =>
      match tx s with
      | TxTaken sid' idx' =>
          if (sid' =? sid) && (idx' =? idx)%nat then
            match step false (core s) (LSend sid idx ctr rel) with
            | Some (c', ev) =>
                Some (mkSysx c' (if send_ok (core s) sid idx ctr rel then TxQueued (Some sid) else TxEmpty),
                      map XEv ev)
            | None => Some (mkSysx (core s) TxEmpty, [])   (* complete failed: the TxMessage is dropped *)
            end
          else None
      | _ => None
      end
  | XAbandon sid idx =>
      match tx s with
      | TxTaken sid' idx' =>
          if (sid' =? sid) && (idx' =? idx)%nat then Some (mkSysx (core s) TxEmpty, []) else None
      | _ => None
      end
  | XFlush =>
      match tx s with
      | TxQueued v =>
          Some (mkSysx (core s) TxEmpty,
                match v with
                | Some sid =>
                    match find_sid (sessions (core s)) sid with
                    | Some _ => [XWire v]
                    | None => [XTxNoSession sid]
                    end
                | None => [XWire None]
                end)
      | _ => None
      end
  end.

Definition stepx_or_stay (bug : bool) (s : sysx) (l : labelx) : sysx :=
  match stepx bug s l with Some (s', _) => s' | None => s end.

Fixpoint runx (bug : bool) (s : sysx) (ls : list labelx) : sysx :=
  match ls with
  | [] => s
  | l :: t => runx bug (stepx_or_stay bug s l) t
  end.

Definition reachablex (s : sysx) : Prop := exists t0 ls, s = runx false (sysx_init t0) ls.
