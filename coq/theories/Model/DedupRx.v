(** The group receive path around the group counter store
    (transport.rs [decode_packet] + session.rs [get_or_create_for_group_rx],
    after the repairs 6198879 and a2da8bb): an authenticated group data
    message of sender [node] to group [group] is run through the sender's
    entry of the group counter store - whether or not an ephemeral session of
    that sender for that group is alive - and then through the receive window
    of that session (a fresh one if there is none).  No proofs in this file. *)
From RsM Require Export Lib.MachInt Model.Dedup.
Open Scope N_scope.

(** live ephemeral sessions: (sender node, group, the session's own window) *)
Record grx := mkGrx { gx_store : gstore; gx_live : list (N * N * rx) }.

Definition grx_new : grx := mkGrx gstore_new [].

Definition live_is (node group : N) (e : N * N * rx) : bool :=
  (fst (fst e) =? node) && (snd (fst e) =? group).

Definition live_get (l : list (N * N * rx)) (node group : N) : option rx :=
  match find (live_is node group) l with Some e => Some (snd e) | None => None end.

Definition live_set (l : list (N * N * rx)) (node group : N) (w : rx) : list (N * N * rx) :=
  (node, group, w) :: filter (fun e => negb (live_is node group e)) l.

(** [keep]: the handler is still busy with the message, the session stays;
    otherwise the handler is done at once and - in the harness - every
    ephemeral session is gone again *)
Definition grx_recv (s : grx) (fab node group ctr : N) (keep : bool) : grx * bool :=
  let '(st', a) := g_post_recv (gx_store s) fab node ctr in
  if a then
    let w := match live_get (gx_live s) node group with Some w => w | None => rx_unsynced end in
    let '(w', a2) := post_recv w ctr true false in
    (mkGrx st' (if keep then live_set (gx_live s) node group w' else []), a2)
  else
    (mkGrx st' (if keep then gx_live s else []), false).

(** the path BEFORE the repairs: a live session of the sender (whatever group
    it stands for) takes the message and only its own window is asked; the
    store is consulted only when no session is found *)
Definition live_any (node : N) (e : N * N * rx) : bool := fst (fst e) =? node.

Definition grx_recv_old (s : grx) (fab node group ctr : N) (keep : bool) : grx * bool :=
  match find (live_any node) (gx_live s) with
  | Some e =>
      let '(w', a2) := post_recv (snd e) ctr true false in
      let g0 := snd (fst e) in
      (mkGrx (gx_store s) (if keep then live_set (gx_live s) node g0 w' else []), a2)
  | None =>
      let '(st', a) := g_post_recv (gx_store s) fab node ctr in
      if a then
        let '(w', a2) := post_recv rx_unsynced ctr true false in
        (mkGrx st' (if keep then live_set (gx_live s) node group w' else []), a2)
      else (mkGrx st' (if keep then gx_live s else []), false)
  end.

(** one received message: (fabric, node, group, counter, keep) *)
Definition gmsg := (N * N * N * N * bool)%type.

Definition grx_step (f : grx -> N -> N -> N -> N -> bool -> grx * bool) (acc : grx * list bool) (m : gmsg) : grx * list bool :=
  let '(fab, node, group, ctr, keep) := m in
  let '(s', a) := f (fst acc) fab node group ctr keep in
  (s', snd acc ++ [a]).

Definition grx_run (f : grx -> N -> N -> N -> N -> bool -> grx * bool) (s : grx) (ms : list gmsg) : grx * list bool :=
  fold_left (grx_step f) ms (s, []).
