(** Byte layout of the ICD Check-In message, rs-matter/src/sc/checkin.rs
    ([CheckIn::generate] / [CheckIn::parse]):
        nonce (13) || AEAD( counter (4, little endian) || application data ) || MIC (16)
    The cryptography is symbolic: for the one symmetric key a [CheckIn] value is
    bound to, the nonce derivation (leading 13 bytes of HMAC-SHA256(key, counter
    LE)) and AES-CCM are section variables; what is modelled is the framing, the
    length checks, the order of the checks and the one slice index that could
    panic.  No proofs in this file. *)
From RsM Require Export Lib.MachInt Model.Headers Model.Codecs.
Open Scope N_scope.

Definition E_BUF    : N := 6.    (* ErrorCode::BufferTooSmall *)
Definition E_MIC    : N := 4.    (* the AEAD refusing the MIC: InvalidData in the rustcrypto backend *)

Definition CI_NONCE_LEN : nat := 13.
Definition CI_COUNTER_LEN : nat := 4.
Definition CI_TAG_LEN : nat := 16.
Definition CI_MIN_LEN : nat := 33.       (* MIN_PAYLOAD_LEN = 13 + 4 + 16 *)

Section CheckIn.
  (** [generate_nonce(counter)] for the bound key *)
  Variable nonce_of : N -> list N.
  (** [aead.encrypt_in_place(key, nonce, aad = [], plaintext)] = ciphertext || tag *)
  Variable aead_enc : list N -> list N -> list N.
  (** [aead.decrypt_in_place(key, nonce, aad = [], data)]: [None] = tag refused *)
  Variable aead_dec : list N -> list N -> option (list N).

  (** [generate] into an output buffer of [cap] bytes *)
  Definition checkin_generate (cap : nat) (counter : N) (app : list N) : res (list N) :=
    if Nat.ltb cap (CI_MIN_LEN + length app) then Err E_BUF else
    let nonce := nonce_of counter in
    Ok (nonce ++ aead_enc nonce (le_bytes CI_COUNTER_LEN counter ++ app)).

  (** [parse] *)
  Definition checkin_parse (payload : list N) : res (N * list N) :=
    if Nat.ltb (length payload) CI_MIN_LEN then Err E_INVALID else
    let nonce := firstn CI_NONCE_LEN payload in
    match aead_dec nonce (skipn CI_NONCE_LEN payload) with
    | None => Err E_MIC
    | Some plaintext =>
        (* [plaintext[..COUNTER_LEN]] *)
        if Nat.ltb (length plaintext) CI_COUNTER_LEN then Panic 1 else
        let counter := le_val (firstn CI_COUNTER_LEN plaintext) in
        if negb (list_eqb (nonce_of counter) nonce) then Err E_INVALID
        else Ok (counter, skipn CI_COUNTER_LEN plaintext)
    end.
End CheckIn.

(** monitors (executable property on the implementation's outputs) *)
Definition mon_checkin_rt (cap : nat) (counter : N) (app : list N) (payload : res (list N))
           (parsed : res (N * list N)) : bool :=
  if Nat.ltb cap (CI_MIN_LEN + length app) then
    (* an output buffer that is too small is an error, not a panic *)
    match payload with Err _ => true | _ => false end
  else
    match payload, parsed with
    | Ok p, Ok (c, a) => Nat.eqb (length p) (CI_MIN_LEN + length app) && (c =? counter) && list_eqb a app
    | _, _ => false
    end.

(** the decoder given arbitrary bytes: no panic; an accepted payload carries a
    nonce that is the one derived from the counter it returned, and its length
    accounts for exactly the returned application data *)
Definition mon_checkin_dec (nonce_of : N -> list N) (payload : list N)
           (parsed : res (N * list N)) : bool :=
  match parsed with
  | Ok (c, a) =>
      (c <? two32) && bytesb a &&
      Nat.eqb (length payload) (CI_MIN_LEN + length a) &&
      list_eqb (nonce_of c) (firstn CI_NONCE_LEN payload)
  | Err _ => true
  | Panic _ => false
  end.
