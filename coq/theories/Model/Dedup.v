(** Model of rs-matter/src/transport/dedup.rs (RxCtrState, GroupCtrStore).
    Transcribed operator by operator.  No proofs in this file. *)
From RsM Require Export Lib.MachInt.
Open Scope N_scope.

Definition WIN : N := 16.            (* MSG_RX_STATE_BITMAP_LEN *)

(** [synced = false] is the state of a session that has not received any
    message yet ([RxCtrState::unsynced()]). *)
Record rx := mkRx { synced : bool; max_ctr : N; bitmap : N }.

Definition rx_unsynced : rx := mkRx false 0 0.
Definition rx_new (m : N) : rx := mkRx true m 65535.

(** [(self.ctr_bitmap & (1 << bit_number)) != 0] *)
Definition contains (s : rx) (i : N) : bool :=
  negb (N.land (bitmap s) (N.shiftl 1 i) =? 0).

(** [self.ctr_bitmap |= 1 << bit_number] *)
Definition insert (s : rx) (i : N) : rx :=
  mkRx (synced s) (max_ctr s) (N.lor (bitmap s) (N.shiftl 1 i)).

(** u16 [<<] by less than 16 keeps the low 16 bits; [checked_shl(16)] is
    [None], replaced by 0. *)
Definition shl16 (b d : N) : N :=
  if d <? 16 then (N.shiftl b d) mod two16 else 0.

Definition post_recv (s : rx) (ctr : N) (enc roll : bool) : rx * bool :=
  if negb (synced s) then (mkRx true ctr 0, true) else
  if ctr =? max_ctr s then (s, false) else
  let '(fwd, udiff) :=
    if roll then
      let f := wsub32 ctr (max_ctr s) in
      if f <=? two31 - 1 then (true, f) else (false, wsub32 (max_ctr s) ctr)
    else (max_ctr s <? ctr, absdiff ctr (max_ctr s)) in
  if negb fwd && (udiff <=? WIN) then
    let i := udiff - 1 in
    if contains s i then (s, false) else (insert s i, true)
  else if fwd then
    if udiff <=? WIN then
      (insert (mkRx true ctr (shl16 (bitmap s) udiff)) (udiff - 1), true)
    else (mkRx true ctr 0, true)
  else if negb enc then (mkRx true ctr 65535, true)
  else (s, false).

(** Run a history; output the accept flags and the final state. *)
Fixpoint run (enc roll : bool) (s : rx) (h : list N) : list bool * rx :=
  match h with
  | [] => ([], s)
  | c :: t =>
      let '(s', a) := post_recv s c enc roll in
      let '(l, sf) := run enc roll s' t in (a :: l, sf)
  end.

(** The values a history got accepted, in order. *)
Fixpoint accepted (enc roll : bool) (s : rx) (h : list N) : list N :=
  match h with
  | [] => []
  | c :: t =>
      let '(s', a) := post_recv s c enc roll in
      if a then c :: accepted enc roll s' t else accepted enc roll s' t
  end.

Fixpoint final (enc roll : bool) (s : rx) (h : list N) : rx :=
  match h with
  | [] => s
  | c :: t => final enc roll (fst (post_recv s c enc roll)) t
  end.

(** * Group counter store *)

Definition MAX_GROUP_CTR_ENTRIES : nat := 16.

Record gentry := mkGE { g_fab : N; g_node : N; g_rx : rx; g_last : N }.
Record gstore := mkGS { g_entries : list gentry; g_clock : N }.

Definition gstore_new : gstore := mkGS [] 0.

Definition gkey_eq (e : gentry) (fab node : N) : bool :=
  (g_fab e =? fab) && (g_node e =? node).

(** the [for entry in &mut self.entries] loop: first match wins *)
Fixpoint g_update (l : list gentry) (fab node ctr clock : N)
  : option (list gentry * bool) :=
  match l with
  | [] => None
  | e :: t =>
      if gkey_eq e fab node then
        let '(r, a) := post_recv (g_rx e) ctr true true in
        Some (mkGE (g_fab e) (g_node e) r clock :: t, a)
      else
        match g_update t fab node ctr clock with
        | Some (t', a) => Some (e :: t', a)
        | None => None
        end
  end.

(** [iter().enumerate().min_by_key(last_used)]: index of the first minimum *)
Fixpoint g_min_idx (l : list gentry) (i : nat) (best : nat) (bestv : N) : nat :=
  match l with
  | [] => best
  | e :: t =>
      if g_last e <? bestv then g_min_idx t (S i) i (g_last e)
      else g_min_idx t (S i) best bestv
  end.

Definition g_lru (l : list gentry) : nat :=
  match l with
  | [] => O
  | e :: t => g_min_idx t 1%nat O (g_last e)
  end.

Fixpoint replace_nth {A} (l : list A) (n : nat) (x : A) : list A :=
  match l, n with
  | [], _ => []
  | _ :: t, O => x :: t
  | y :: t, S k => y :: replace_nth t k x
  end.

Definition g_post_recv (st : gstore) (fab node ctr : N) : gstore * bool :=
  let clock := wadd32 (g_clock st) 1 in
  match g_update (g_entries st) fab node ctr clock with
  | Some (l, a) => (mkGS l clock, a)
  | None =>
      let ne := mkGE fab node (rx_new ctr) clock in
      if Nat.ltb (length (g_entries st)) MAX_GROUP_CTR_ENTRIES then
        (mkGS (g_entries st ++ [ne]) clock, true)
      else
        (mkGS (replace_nth (g_entries st) (g_lru (g_entries st)) ne) clock, true)
  end.
