(** Two-party system around the BTP model and the executable form of property
    C18 (the monitors that are run on the implementation's own outputs).
    No proofs in this file. *)
From RsM Require Export Lib.MachInt Model.Btp.
Open Scope N_scope.

Fixpoint bytes_eqb (a b : bytes) : bool :=
  match a, b with
  | [], [] => true
  | x :: a', y :: b' => (x =? y) && bytes_eqb a' b'
  | _, _ => false
  end.

Definition is_bad (r : out) : bool :=
  match r with RPanic _ => true | _ => false end.
Definition is_err (r : out) : bool :=
  match r with RErr _ => true | _ => false end.

(** * What one end must deliver: reassembly of the accepted segments

    [q_done] = SDUs completely received and not fetched yet (oldest first),
    [q_cur] = declared length and the bytes so far of the SDU in progress. *)
Record rstate := mkRS { q_done : list bytes; q_cur : option (N * bytes) }.
Definition rs_init : rstate := mkRS [] None.

(** one accepted (non-handshake) segment; [None] = a segment was accepted
    that no receiver may accept (a new SDU inside an unfinished one, more
    payload than the declared length, payload outside any SDU, an ending
    segment that does not reach the declared length) *)
Definition reasm_step (s : rstate) (h : hdr) (p : bytes) : option rstate :=
  match get_msg_len h with
  | Some L =>
      match q_cur s with
      | Some _ => None
      | None =>
          if L <? blen p then None
          else if L =? 0 then Some s
          else if blen p =? L then Some (mkRS (q_done s ++ [p]) None)
          else if fE h then None
          else Some (mkRS (q_done s) (Some (L, p)))
      end
  | None =>
      match q_cur s with
      | Some (L, pb) =>
          let pb' := pb ++ p in
          if L <? blen pb' then None
          else if blen pb' =? L then Some (mkRS (q_done s ++ [pb']) None)
          else if fE h then None
          else Some (mkRS (q_done s) (Some (L, pb')))
      | None => if blen p =? 0 then Some s else None
      end
  end.

(** * Monitor for one end fed with arbitrary (hostile) input

    The property on a trace of operations and the answers an implementation
    gave: no answer is a panic; a fetch never fails; the k-th fetched SDU is
    the k-th SDU reassembled from the accepted segments (cut to the caller's
    buffer), each being the concatenation of accepted payloads of exactly the
    declared length; an accepted handshake or a reset starts afresh. *)
Definition mon_step (s : rstate) (o : op) (r : out) : option rstate :=
  if is_bad r then None else
  match o, r with
  | OIn _ _ d, RUnit =>
      match hdr_decode d with
      | Ok (h, p) => if fH h then Some rs_init else reasm_step s h p
      | _ => None
      end
  | OIn _ _ _, _ => Some s
  | ORecv cap, RBytes m =>
      match q_done s with
      | x :: t => if bytes_eqb m (firstn (N.to_nat cap) x) then Some (mkRS t (q_cur s)) else None
      | [] => None
      end
  | ORecv _, RNone => Some s
  | ORecv _, _ => None
  | OReset, _ => Some rs_init
  | _, _ => Some s
  end.

Fixpoint mon_run (s : rstate) (ops : list op) (rs : list out) : bool :=
  match ops, rs with
  | [], [] => true
  | o :: ops', r :: rs' =>
      match mon_step s o r with
      | Some s' => mon_run s' ops' rs'
      | None => false
      end
  | _, _ => false
  end.

Definition mon_endpoint (ops : list op) (rs : list out) : bool := mon_run rs_init ops rs.

(** * Two ends joined by one reliable in-order channel per direction *)

Inductive side := SA | SB.
Definition other (x : side) : side := match x with SA => SB | SB => SA end.

Record cfg := mkCfg { gattA : option N; gattB : option N; addrA : N; addrB : N }.
Definition POLL_CAP : N := 512.
Definition RECV_CAP : N := 2048.

Record sys := mkSys { epA : inner; epB : inner; chAB : list bytes; chBA : list bytes }.

Inductive sop :=
| SSubmit (x : side) (d : bytes)     (* the application of x hands a message to BTP *)
| SPoll (x : side) (timer : bool)    (* x's GATT task calls process_outgoing *)
| SDeliver (x : side)                (* the oldest segment in flight towards x arrives *)
| SFetch (x : side).                 (* the application of x asks for a message *)

Definition ep (s : sys) (x : side) : inner := match x with SA => epA s | SB => epB s end.
Definition set_ep (s : sys) (x : side) (i : inner) : sys :=
  match x with
  | SA => mkSys i (epB s) (chAB s) (chBA s)
  | SB => mkSys (epA s) i (chAB s) (chBA s)
  end.
(** channel towards x *)
Definition ch_to (s : sys) (x : side) : list bytes := match x with SA => chBA s | SB => chAB s end.
Definition set_ch_to (s : sys) (x : side) (c : list bytes) : sys :=
  match x with
  | SA => mkSys (epA s) (epB s) (chAB s) c
  | SB => mkSys (epA s) (epB s) c (chBA s)
  end.
Definition gatt_of (c : cfg) (x : side) := match x with SA => gattA c | SB => gattB c end.
Definition addr_of (c : cfg) (x : side) := match x with SA => addrA c | SB => addrB c end.

Definition sys_step (c : cfg) (s : sys) (o : sop) : sys * out :=
  match o with
  | SSubmit x d =>
      let '(i, r) := step (ep s x) (OSend d (addr_of c (other x))) in (set_ep s x i, r)
  | SPoll x t =>
      let '(i, r) := step (ep s x) (OOut (gatt_of c x) t POLL_CAP) in
      let s1 := set_ep s x i in
      match r with
      | RBytes (b :: l) => (set_ch_to s1 (other x) (ch_to s1 (other x) ++ [b :: l]), r)
      | _ => (s1, r)
      end
  | SDeliver x =>
      match ch_to s x with
      | [] => (s, RNone)
      | d :: rest =>
          let '(i, r) := step (ep s x) (OIn (gatt_of c x) (addr_of c (other x)) d) in
          (set_ch_to (set_ep s x i) x rest, r)
      end
  | SFetch x =>
      let '(i, r) := step (ep s x) (ORecv RECV_CAP) in (set_ep s x i, r)
  end.

(** the four window numbers of one end a monitor looks at *)
Record snap := mkSnap { n_rlevel : N; n_rack : N; n_slevel : N; n_swin : N }.
Definition snap_of (i : inner) : snap :=
  mkSnap (rlevel (recv (sess i))) (rack_level (recv (sess i)))
         (slevel (send (sess i))) (swin (send (sess i))).

Fixpoint sys_run (c : cfg) (s : sys) (ops : list sop) : sys * list (out * snap * snap) :=
  match ops with
  | [] => (s, [])
  | o :: t =>
      let '(s1, r) := sys_step c s o in
      let '(s2, rs) := sys_run c s1 t in
      (s2, (r, snap_of (epA s1), snap_of (epB s1)) :: rs)
  end.

(** the system before the handshake: A is the initiator (GATT central) *)
Definition sys_fresh (relaxedB : bool) : sys :=
  mkSys (mkInner (set_initiator session_new true) 0 [] 0)
        (mkInner (set_relaxed session_new relaxedB) 0 [] 0) [] [].

(** the system right after a handshake that agreed on segment size [m] and
    window [w]: the responder B has sent its response (its sequence number 0),
    the initiator A has taken it in and owes the acknowledgement for it;
    [relB] = B runs the relaxed MTU negotiation (only read during a handshake) *)
Definition sys_established (c : cfg) (ver m w : N) (relB : bool) : sys :=
  mkSys (mkInner (mkSess true (addrB c) ver m w false (mkRW [] 0 (w - 1) 1 0 0) (mkSW w w 255) false) 0 [] 0)
        (mkInner (mkSess false (addrA c) ver m w false (mkRW [] 0 w 0 255 0) (mkSW w (w - 1) 0) relB) 0 [] 0)
        [] [].

(** * Monitor for two well-behaved ends

    State: the messages accepted from each application and not delivered yet,
    the number of data segments in flight per direction, and per direction what
    the receiver owes: the segments it has taken in since the last ACK it put
    on the wire.  The property on a trace: nothing panics; nothing well-formed
    is refused; what B's application fetches is, in order, exactly what A's
    application handed in (and vice versa); and after every step, per direction,
    (a) segments in flight plus segments received and not acknowledged never
    exceed what the sender has outstanding, which never exceeds the window, and
    the segments in flight never exceed the receiver's free window;
    (b) NO LOST ACK: the receiver's [ack_level] is exactly what it owes - it
    never forgets a segment it has not acknowledged on the wire. *)
Record pstate := mkPS {
  w_ab : list bytes; w_ba : list bytes; f_ab : N; f_ba : N; o_ab : N; o_ba : N }.
Definition ps_init : pstate := mkPS [] [] 0 0 0 0.
(** after the handshake the initiator A owes one acknowledgement (the response) *)
Definition ps_established : pstate := mkPS [] [] 0 0 0 1.

Definition is_data_seg (b : bytes) : bool :=
  match b with x :: _ => negb (N.testbit x 6) | [] => false end.

(** the segment carries the ACK flag (read off the wire) *)
Definition seg_has_ack (b : bytes) : bool :=
  match hdr_decode b with Ok (h, _) => negb (fH h) && fA h | _ => false end.

Definition win_ok (flight : N) (snd_ rcv : snap) : bool :=
  (flight + n_rack rcv <=? n_swin snd_ - n_slevel snd_)
  && (n_slevel snd_ <=? n_swin snd_)
  && ((n_swin rcv =? 0) || (flight <=? n_rlevel rcv)).

(** x has put segment [b] on the wire *)
Definition ps_emit (p : pstate) (x : side) (b : bytes) : pstate :=
  let d := if is_data_seg b then 1 else 0 in
  match x with
  | SA => mkPS (w_ab p) (w_ba p) (f_ab p + d) (f_ba p) (o_ab p) (if seg_has_ack b then 0 else o_ba p)
  | SB => mkPS (w_ab p) (w_ba p) (f_ab p) (f_ba p + d) (if seg_has_ack b then 0 else o_ab p) (o_ba p)
  end.

(** x has taken in the oldest packet in flight towards it; [data] = it was a
    data segment (a handshake response makes the initiator owe one ACK, a
    handshake request starts the responder afresh) *)
Definition ps_deliver (p : pstate) (x : side) (data : bool) : pstate :=
  match x with
  | SB => if data then mkPS (w_ab p) (w_ba p) (f_ab p - 1) (f_ba p) (o_ab p + 1) (o_ba p)
          else mkPS (w_ab p) (w_ba p) (f_ab p) (f_ba p) 0 (o_ba p)
  | SA => if data then mkPS (w_ab p) (w_ba p) (f_ab p) (f_ba p - 1) (o_ab p) (o_ba p + 1)
          else mkPS (w_ab p) (w_ba p) (f_ab p) (f_ba p) (o_ab p) 1
  end.

Definition pmon_step (p : pstate) (o : sop) (r : out) (head_is_data : bool) : option pstate :=
  if is_bad r then None else
  match o, r with
  | SSubmit x d, RTrue =>
      Some (match x with
            | SA => mkPS (w_ab p ++ [d]) (w_ba p) (f_ab p) (f_ba p) (o_ab p) (o_ba p)
            | SB => mkPS (w_ab p) (w_ba p ++ [d]) (f_ab p) (f_ba p) (o_ab p) (o_ba p) end)
  | SSubmit x d, RNone => Some p
  | SSubmit x d, RErr _ => if (blen d =? 0) || (MAX_TX <? blen d) then Some p else None
  | SPoll x _, RBytes b => Some (match b with [] => p | _ :: _ => ps_emit p x b end)
  | SDeliver x, RUnit => Some (ps_deliver p x head_is_data)
  | SDeliver x, RNone => Some p
  | SFetch x, RBytes m =>
      match x with
      | SB => match w_ab p with
              | d :: t => if bytes_eqb m d then Some (mkPS t (w_ba p) (f_ab p) (f_ba p) (o_ab p) (o_ba p)) else None
              | [] => None end
      | SA => match w_ba p with
              | d :: t => if bytes_eqb m d then Some (mkPS (w_ab p) t (f_ab p) (f_ba p) (o_ab p) (o_ba p)) else None
              | [] => None end
      end
  | SFetch x, RNone => Some p
  | _, _ => None
  end.

(** the per-state clauses: window accounting both ways, no lost ACK, and no
    stall: both send windows are never exhausted at once unless an ACK is on
    its way ([ackfly]) - otherwise neither end could ever send again *)
Definition ps_ok (p : pstate) (sa sb : snap) (ackfly : bool) : bool :=
  win_ok (f_ab p) sa sb && win_ok (f_ba p) sb sa
  && (n_rack sb =? o_ab p) && (n_rack sa =? o_ba p)
  && (negb ((0 <? n_swin sa) && (0 <? n_swin sb) && (n_slevel sa =? 0) && (n_slevel sb =? 0)) || ackfly).

(** [cab] / [cba] mirror the two channels (the packets the monitor has seen go
    out and not yet come in): a handshake packet does not count against the
    window, and an ACK in flight is what re-opens an exhausted window. *)
Definition head_is_data (c : list bytes) : bool :=
  match c with b :: _ => is_data_seg b | [] => false end.

Fixpoint pmon_run (p : pstate) (cab cba : list bytes) (ops : list sop)
    (rs : list (out * snap * snap)) : bool :=
  match ops, rs with
  | [], [] => true
  | o :: ops', (r, sa, sb) :: rs' =>
      let hd :=
        match o with
        | SDeliver SB => head_is_data cab
        | SDeliver SA => head_is_data cba
        | _ => false
        end in
      let cab' :=
        match o, r with
        | SPoll SA _, RBytes (x :: l) => cab ++ [x :: l]
        | SDeliver SB, _ => tl cab
        | _, _ => cab
        end in
      let cba' :=
        match o, r with
        | SPoll SB _, RBytes (x :: l) => cba ++ [x :: l]
        | SDeliver SA, _ => tl cba
        | _, _ => cba
        end in
      match pmon_step p o r hd with
      | Some p' =>
          ps_ok p' sa sb (existsb seg_has_ack cab' || existsb seg_has_ack cba')
          && pmon_run p' cab' cba' ops' rs'
      | None => false
      end
  | _, _ => false
  end.

(** from two fresh ends / from the state right after the handshake *)
Definition mon_pair (ops : list sop) (rs : list (out * snap * snap)) : bool :=
  pmon_run ps_init [] [] ops rs.
Definition mon_pair_est (ops : list sop) (rs : list (out * snap * snap)) : bool :=
  pmon_run ps_established [] [] ops rs.

(** * Reading a trace: what was handed in, what came out *)

Definition side_eqb (x y : side) : bool :=
  match x, y with SA, SA => true | SB, SB => true | _, _ => false end.

(** the messages the application of [x] handed to BTP and BTP took *)
Fixpoint submitted (x : side) (ops : list sop) (rs : list (out * snap * snap)) : list bytes :=
  match ops, rs with
  | SSubmit y d :: ops', (RTrue, _, _) :: rs' =>
      if side_eqb x y then d :: submitted x ops' rs' else submitted x ops' rs'
  | _ :: ops', _ :: rs' => submitted x ops' rs'
  | _, _ => []
  end.

(** the messages the application of [x] got out of BTP *)
Fixpoint fetched (x : side) (ops : list sop) (rs : list (out * snap * snap)) : list bytes :=
  match ops, rs with
  | SFetch y :: ops', (RBytes msg, _, _) :: rs' =>
      if side_eqb x y then msg :: fetched x ops' rs' else fetched x ops' rs'
  | _ :: ops', _ :: rs' => fetched x ops' rs'
  | _, _ => []
  end.

(** an answer a well-behaved pair may give: never a panic, an error only to
    an application that hands in an empty or over-long message *)
Definition answer_ok (o : sop) (r : out) : Prop :=
  match r with
  | RPanic _ => False
  | RErr _ => match o with SSubmit _ d => blen d = 0 \/ MAX_TX < blen d | _ => False end
  | _ => True
  end.
