(** Model of rs-matter/src/im/subscriptions.rs (change table, subscriptions,
    report contexts) and of the calls made on it by the reporter loop and the
    subscribe path of rs-matter/src/im.rs.  No proofs in this file.

    Time: an [Instant] is an [N] (model tick = 1 ms); [IMAX] = [Instant::MAX],
    [0] = [Instant::MIN].  The table size is the one of the harness build
    ([Subscriptions<4>]); the change table holds [MAX_CHANGED_ATTRS = 16]
    entries.  Fields marked "ghost" do not exist in the code: they record what
    each subscriber has been told, so that the property can be stated. *)
From RsM Require Export Lib.MachInt.
Open Scope N_scope.

Definition MAX_CHANGED_ATTRS : nat := 16.
Definition MAX_SUBS : N := 4.
Definition WILD_EP : N := 65535.
Definition WILD_CL : N := 4294967295.
Definition WILD_AT : N := 4294967295.
Definition IMAX : N := 18446744073709551615.

(** * Vec helpers: [swap_remove] and the "remove while scanning" loops *)

Fixpoint swap_remove {A} (i : nat) (l : list A) : list A :=
  match l with
  | [] => []
  | x :: t =>
      match i with
      | O => match t with [] => [] | _ :: _ => last t x :: removelast t end
      | S k => x :: swap_remove k t
      end
  end.

(** [let mut i = 0; while i < len { if rm(v[i]) { v.swap_remove(i) } else { i += 1 } }] *)
Fixpoint swap_filter_aux {A} (rm : A -> bool) (fuel i : nat) (l : list A) : list A :=
  match fuel with
  | O => l
  | S f =>
      match nth_error l i with
      | None => l
      | Some x =>
          if rm x then swap_filter_aux rm f i (swap_remove i l)
          else swap_filter_aux rm f (S i) l
      end
  end.
Definition swap_filter {A} (rm : A -> bool) (l : list A) : list A :=
  swap_filter_aux rm (length l) 0 l.

Fixpoint find_index {A} (f : A -> bool) (l : list A) : option nat :=
  match l with
  | [] => None
  | x :: t => if f x then Some O else option_map S (find_index f t)
  end.

(** * Changed attributes *)

Record path := mkPath { p_ep : N; p_cl : N; p_at : N }.
Record entry := mkEntry { e_ep : N; e_cl : N; e_at : N; e_id : N }.

Definition path_eqb (a b : path) : bool :=
  (p_ep a =? p_ep b) && (p_cl a =? p_cl b) && (p_at a =? p_at b).

Definition set_id (e : entry) (id : N) : entry := mkEntry (e_ep e) (e_cl e) (e_at e) id.

(** [ChangedAttr::matches] *)
Definition matches (e : entry) (p : path) : bool :=
  ((e_ep e =? WILD_EP) || (e_ep e =? p_ep p)) &&
  ((e_cl e =? WILD_CL) || (e_cl e =? p_cl p)) &&
  ((e_at e =? WILD_AT) || (e_at e =? p_at p)).

Definition cov1 (a : N) (aw : bool) (b : N) (bw : bool) : bool :=
  if aw then true else if bw then false else a =? b.

(** [ChangedAttr::covers] *)
Definition covers (a b : entry) : bool :=
  cov1 (e_ep a) (e_ep a =? WILD_EP) (e_ep b) (e_ep b =? WILD_EP) &&
  cov1 (e_cl a) (e_cl a =? WILD_CL) (e_cl b) (e_cl b =? WILD_CL) &&
  cov1 (e_at a) (e_at a =? WILD_AT) (e_at b) (e_at b =? WILD_AT).

(** [ChangedAttr::coarsen]; level 1 = (e,c,any), level 2 = (e,any,any) *)
Definition coarsen (level : N) (e : entry) : option entry :=
  if level =? 1 then
    if (e_ep e =? WILD_EP) || (e_cl e =? WILD_CL) then None
    else Some (mkEntry (e_ep e) (e_cl e) WILD_AT 0)
  else
    if e_ep e =? WILD_EP then None
    else Some (mkEntry (e_ep e) WILD_CL WILD_AT 0).

(** [next_change_id.wrapping_add(1).max(1)] *)
Definition next_id (n : N) : N := N.max ((n + 1) mod two64) 1.
(** [next_change_id.wrapping_sub(1)] *)
Definition watermark (next : N) : N := (next + two64 - 1) mod two64.

(** [entries.iter_mut().find(|x| x.covers(&new))] then [existing.change_id = id] *)
Fixpoint refresh_first (new : entry) (l : list entry) : option (list entry) :=
  match l with
  | [] => None
  | x :: t =>
      if covers x new then Some (set_id x (e_id new) :: t)
      else option_map (cons x) (refresh_first new t)
  end.

(** [entries.push(x)] on a [Vec<_, 16>] *)
Definition push_cap (l : list entry) (x : entry) : option (list entry) :=
  if Nat.ltb (length l) MAX_CHANGED_ATTRS then Some (l ++ [x]) else None.

Definition count_cov (c : entry) (l : list entry) : nat := length (filter (covers c) l).

(** the pivot loop of [promote_largest_group]: first pivot with the largest group *)
Fixpoint best_pivot (level : N) (all rest : list entry) (best : option entry) (best_count : nat)
  : option entry :=
  match rest with
  | [] => best
  | p :: t =>
      match coarsen level p with
      | None => best_pivot level all t best best_count
      | Some c =>
          let cnt := count_cov c all in
          if Nat.ltb best_count cnt then best_pivot level all t (Some p) cnt
          else best_pivot level all t best best_count
      end
  end.

Definition max_id (f : entry -> bool) (l : list entry) : N :=
  fold_left (fun m e => if f e then N.max m (e_id e) else m) l 0.

(** [promote_largest_group]: [None] = returned false *)
Definition promote (level : N) (l : list entry) : option (list entry) :=
  match best_pivot level l l None 1 with
  | None => None
  | Some pivot =>
      match coarsen level pivot with
      | None => None
      | Some c =>
          Some (swap_filter (covers c) l ++ [set_id c (max_id (covers c) l)])
      end
  end.

(** [promote_and_insert]; one promotion frees a slot, so the loop body runs at
    most twice; fuel 3 is used and running out of it is the global fallback *)
Fixpoint promote_and_insert (fuel : nat) (l : list entry) (new : entry) : list entry :=
  match fuel with
  | O => [mkEntry WILD_EP WILD_CL WILD_AT (e_id new)]
  | S f =>
      match refresh_first new l with
      | Some l' => l'
      | None =>
          match push_cap l new with
          | Some l' => l'
          | None =>
              match promote 1 l with
              | Some l' => promote_and_insert f l' new
              | None =>
                  match promote 2 l with
                  | Some l' => promote_and_insert f l' new
                  | None => [mkEntry WILD_EP WILD_CL WILD_AT (e_id new)]
                  end
              end
          end
      end
  end.

(** [ChangedAttrs::record_raw] on the entry list; [new] already carries its id *)
Definition record_entries (l : list entry) (new : entry) : list entry :=
  match refresh_first new l with
  | Some l' => l'
  | None =>
      let l1 := swap_filter (covers new) l in
      match push_cap l1 new with
      | Some l2 => l2
      | None => promote_and_insert 3 l1 new
      end
  end.

(** [contains_since] *)
Definition contains_since (l : list entry) (p : path) (since : N) : bool :=
  existsb (fun x => (since <? e_id x) && matches x p) l.
(** [any_since] *)
Definition any_since (l : list entry) (since : N) : bool :=
  existsb (fun x => since <? e_id x) l.
(** [purge_up_to] *)
Definition purge_up_to (l : list entry) (threshold : N) : list entry :=
  if threshold =? 0 then l else swap_filter (fun e => e_id e <=? threshold) l.

(** * Subscriptions *)

Record sub := mkSub {
  s_id : N; s_fab : N; s_peer : N;
  s_min : N; s_max : N;               (* seconds, u16 *)
  s_rep_at : N; s_acc : N; s_retry_at : N;   (* Instants: reported_at, accepted_at, retry_at *)
  s_fail : N;                         (* u8 *)
  s_seen : N; s_seen_ev : N;          (* watermarks *)
  s_paths : list path;                (* the subscribe request kept in the RX buffer *)
  (* ghost *)
  s_del : list (path * N);            (* per path: change id current when the value last delivered was read *)
  s_dev : N;                          (* every event up to this number was delivered (or is gone) *)
  s_since : N                         (* [now] of the last delivered report, else of the acceptance / resumption *)
}.

Definition checked_add (a d : N) : option N := if a + d <=? IMAX then Some (a + d) else None.

Definition unprimed (s : sub) : bool := s_rep_at s =? IMAX.

(** [Subscription::is_expired] *)
Definition expiry_anchor (s : sub) : N := if unprimed s then s_acc s else s_rep_at s.
Definition is_expired (s : sub) (now : N) : bool :=
  match checked_add (expiry_anchor s) (s_max s * 1000) with
  | Some e => e <=? now
  | None => false
  end.

(** [retry_backoff_secs] *)
Definition retry_backoff_secs (fail_count max_int : N) : N :=
  let shift := N.min (fail_count - 1) 15 in
  N.min (N.shiftl 2 shift) (N.max max_int 2).

Definition report_allowed_at (s : sub) : N :=
  let gate :=
    if unprimed s then 0
    else match checked_add (s_rep_at s) (s_min s * 1000) with Some x => x | None => 0 end in
  N.max gate (s_retry_at s).

Definition report_due_at (s : sub) : N :=
  if unprimed s then 0
  else match checked_add (s_rep_at s) ((s_max s - s_max s / 2) * 1000) with Some x => x | None => 0 end.

Definition is_reportable (s : sub) (now : N) (tab : list entry) (evw : N) : bool :=
  if report_allowed_at s <=? now then
    (report_due_at s <=? now) || any_since tab (s_seen s) || (s_seen_ev s <? evw)
  else false.

Definition next_report_at (s : sub) (tab : list entry) (evw : N) : N :=
  let allowed := report_allowed_at s in
  if any_since tab (s_seen s) || (s_seen_ev s <? evw) then allowed
  else N.max allowed (report_due_at s).

(** * Report contexts *)

Record ctx := mkCtx {
  x_sub : sub;
  x_prim : bool;           (* created by [add] (priming) rather than by [report] *)
  x_nseen : N; x_nseen_ev : N;
  x_now : N;               (* [next_reported_at] = the [now] given at construction *)
  (* ghost *)
  x_pend : list (path * N);   (* attributes read in this report, with the change id current at the read *)
  x_vis : list path           (* attributes the report has already passed (read or skipped) *)
}.

(** * The whole state *)

Record state := mkSt {
  next_sid : N; count : N;
  subs : list sub; tab : list entry; next_chg : N;
  reporting : option sub; cancelled : bool;
  ctxs : list ctx;                 (* live [ReportContext]s, held by the subscribe exchanges / the reporter *)
  kv : list sub;                   (* persisted records, slot order *)
  (* ghost *)
  log : list entry;                (* every change recorded since the last restart, newest first *)
  nchg : N;                        (* number of changes recorded since the last restart *)
  evn : N                          (* event number watermark *)
}.

Definition init : state := mkSt 1 0 [] [] 1 None false [] [] [] 0 0.

(** [EOk]: delivered (something was sent and acknowledged); [ESkip]: the report found no event to send -
    it is sent only if an attribute was emitted or it is the liveness report, else skipped;
    [EFail]: not delivered; [EDrop]: the subscriber refused *)
Inductive endres := EOk | ESkip | EFail | EDrop.

Inductive op :=
| OChange (ep cl at_ : N)
| OEvent
| OSubBegin (fab peer min max : N) (paths : list path) (now lag : N)
| OCtxRead (sid : N) (p : path)
| OCtxEnd (sid : N) (r : endres)
| OReportBegin (now lag : N)
| OPurge
| ORemove (fab : N) (peer : option N)
| OWake (now : N)
| OPersist
| ORestart (now lag : N).

(** observable result of a step *)
Inductive out :=
| UNone
| UBool (b : bool)
| USid (o : option N).

Definition lookup (p : path) (l : list (path * N)) : option N :=
  match find (fun q => path_eqb (fst q) p) l with Some q => Some (snd q) | None => None end.

Definition mem_path (p : path) (l : list path) : bool := existsb (path_eqb p) l.

Definition last_change (lg : list entry) (p : path) : N := max_id (fun e => matches e p) lg.

(** the subscriber's copy of [p] is older than the attribute *)
Definition stale (lg : list entry) (del : list (path * N)) (p : path) : bool :=
  match lookup p del with
  | None => true
  | Some d => d <? last_change lg p
  end.

Definition find_ctx (sid : N) (l : list ctx) : option ctx :=
  find (fun x => s_id (x_sub x) =? sid) l.
(** the context is dropped: the first one of that id (ids are unique) *)
Fixpoint remove_ctx (sid : N) (l : list ctx) : list ctx :=
  match l with
  | [] => []
  | x :: t => if s_id (x_sub x) =? sid then t else x :: remove_ctx sid t
  end.
Fixpoint replace_ctx (x' : ctx) (l : list ctx) : list ctx :=
  match l with
  | [] => []
  | x :: t => if s_id (x_sub x) =? s_id (x_sub x') then x' :: t else x :: replace_ctx x' t
  end.

(** [ReportContext::should_report_attr] *)
Definition should_report (tb : list entry) (x : ctx) (p : path) : bool :=
  if unprimed (x_sub x) then true else contains_since tb p (s_seen (x_sub x)).

(** the report passes attribute [p]; [b] = it was emitted (ghost bookkeeping only) *)
Definition visit (n : N) (x : ctx) (p : path) (b : bool) : ctx :=
  if mem_path p (x_vis x) then x
  else mkCtx (x_sub x) (x_prim x) (x_nseen x) (x_nseen_ev x) (x_now x)
             (if b then (p, n) :: x_pend x else x_pend x) (p :: x_vis x).

Definition visit_rest (tb : list entry) (n : N) (x : ctx) : ctx :=
  fold_left (fun x p => visit n x p (should_report tb x p)) (s_paths (x_sub x)) x.

Definition with_core (s : sub) (rep_at retry_at fail seen seen_ev : N) (del : list (path * N)) (dev since : N) : sub :=
  mkSub (s_id s) (s_fab s) (s_peer s) (s_min s) (s_max s) rep_at (s_acc s) retry_at fail seen seen_ev (s_paths s) del dev since.

(** [set_keep] + drop: the snapshotted watermarks are committed *)
Definition sub_after_ok (x : ctx) : sub :=
  let s := x_sub x in
  with_core s (x_now x) 0 0 (x_nseen x) (x_nseen_ev x) (x_pend x ++ s_del s) (N.max (s_dev s) (x_nseen_ev x)) (x_now x).

(** an empty report that is not the liveness report is not sent (im.rs [respond]); repaired code
    ([unsent = true], [set_unsent] + [set_keep]): the watermarks are committed, [reported_at] is not *)
Definition report_is_sent (x : ctx) : bool :=
  (report_due_at (x_sub x) <=? x_now x) || negb (match x_pend x with [] => true | _ => false end).

Definition sub_after_skip (unsent : bool) (x : ctx) : sub :=
  let s := x_sub x in
  with_core s (if unsent then s_rep_at s else x_now x) 0 0 (x_nseen x) (x_nseen_ev x) (x_pend x ++ s_del s)
            (N.max (s_dev s) (x_nseen_ev x)) (s_since s).

(** [set_keep_retry] + drop *)
Definition sub_after_fail (x : ctx) : sub :=
  let s := x_sub x in
  let fc := N.min (s_fail s + 1) 255 in
  let retry := match checked_add (x_now x) (retry_backoff_secs fc (s_max s) * 1000) with
               | Some v => v | None => IMAX end in
  with_core s (s_rep_at s) retry fc (s_seen s) (s_seen_ev s) (s_del s) (s_dev s) (s_since s).

(** does the completing context own the [reporting] slot?  Repaired code ([slot = true]): only the
    context whose subscription id is the one of the in-flight clone; before the repair: every context *)
Definition owns_slot (slot : bool) (st : state) (sid : N) : bool :=
  if slot then match reporting st with Some r => s_id r =? sid | None => false end else true.

(** [SubscriptionsInner::report_complete] *)
Definition report_complete (slot : bool) (st : state) (sid : N) (s' : sub) (keep : bool) : state :=
  let cs := remove_ctx sid (ctxs st) in
  let own := owns_slot slot st sid in
  let rep := if own then None else reporting st in
  let canc := if own then false else cancelled st in
  if own && cancelled st then
    mkSt (next_sid st) (count st - 1) (subs st) (tab st) (next_chg st) rep canc cs (kv st) (log st) (nchg st) (evn st)
  else if keep then
    mkSt (next_sid st) (count st) (subs st ++ [s']) (tab st) (next_chg st) rep canc cs (kv st) (log st) (nchg st) (evn st)
  else
    mkSt (next_sid st) (count st - 1) (subs st) (tab st) (next_chg st) rep canc cs (kv st) (log st) (nchg st) (evn st).

(** [SubscriptionsInner::add] *)
Definition fresh_sub (st : state) (now fab peer min max : N) (paths : list path) : sub :=
  mkSub (next_sid st) fab peer min max IMAX now 0 0 (watermark (next_chg st)) 0 paths [] 0 now.

Definition min_seen (l : list sub) : option N :=
  match l with
  | [] => None
  | s :: t => Some (fold_left (fun m s => N.min m (s_seen s)) t (s_seen s))
  end.

(** [purge_reported_changes]; [fixed = false] is the code before the repair *)
Definition purge (fixed : bool) (st : state) : list entry :=
  if fixed && negb (count st =? N.of_nat (length (subs st))) then tab st
  else match min_seen (subs st) with
       | Some m => purge_up_to (tab st) m
       | None => []
       end.

(** [Subscriptions::remove] with predicate [f] *)
Definition remove_where (f : sub -> bool) (st : state) : state * bool :=
  let subs' := swap_filter f (subs st) in
  let k := N.of_nat (length (subs st) - length subs') in
  let hit := if cancelled st then false
             else match reporting st with Some s => f s | None => false end in
  (mkSt (next_sid st) (count st - k) subs' (tab st) (next_chg st) (reporting st)
        (cancelled st || hit) (ctxs st) (kv st) (log st) (nchg st) (evn st),
   negb (k =? 0) || hit).

(** [load_persist]: each record goes through [add], is marked un-primed and kept *)
Fixpoint resume (recs : list sub) (st : state) (now evw : N) : state :=
  match recs with
  | [] => st
  | r :: t =>
      if MAX_SUBS <=? count st then resume t st now evw
      else
        let s := fresh_sub st now (s_fab r) (s_peer r) (s_min r) (s_max r) (s_paths r) in
        let s' := with_core s IMAX 0 0 (s_seen s) evw [] evw now in
        resume t (mkSt (next_sid st + 1) (count st + 1) (subs st ++ [s']) (tab st) (next_chg st)
                       None false (ctxs st) (kv st) (log st) (nchg st) (evn st)) now evw
  end.

Definition report_slot_free (st : state) : bool :=
  negb (existsb (fun x => negb (x_prim x)) (ctxs st)) &&
  match reporting st with None => true | Some _ => false end && negb (cancelled st).

(** [ob]: when given, the emitted/skipped decision observed on the implementation is used for
    the ghost bookkeeping of [OCtxRead] instead of the model's own (monitor mode only) *)
Definition step_gen (fixed slot unsent : bool) (ob : option bool) (st : state) (o : op) : state * out :=
  match o with
  | OChange ep cl at_ =>
      let new := mkEntry ep cl at_ (next_chg st) in
      (mkSt (next_sid st) (count st) (subs st) (record_entries (tab st) new) (next_id (next_chg st))
            (reporting st) (cancelled st) (ctxs st) (kv st)
            (mkEntry ep cl at_ (nchg st + 1) :: log st) (nchg st + 1) (evn st), UNone)
  | OEvent =>
      (mkSt (next_sid st) (count st) (subs st) (tab st) (next_chg st) (reporting st) (cancelled st)
            (ctxs st) (kv st) (log st) (nchg st) (evn st + 1), UNone)
  | OSubBegin fab peer min max paths now lag =>
      if MAX_SUBS <=? count st then (st, USid None)
      else
        let s := fresh_sub st now fab peer min max paths in
        let x := mkCtx s true (s_seen s) (evn st - lag) now [] [] in
        (mkSt (next_sid st + 1) (count st + 1) (subs st) (tab st) (next_chg st) (reporting st)
              (cancelled st) (ctxs st ++ [x]) (kv st) (log st) (nchg st) (evn st), USid (Some (s_id s)))
  | OCtxRead sid p =>
      match find_ctx sid (ctxs st) with
      | None => (st, UNone)
      | Some x =>
          let b := match ob with Some b => b | None => should_report (tab st) x p end in
          (mkSt (next_sid st) (count st) (subs st) (tab st) (next_chg st) (reporting st) (cancelled st)
                (replace_ctx (visit (nchg st) x p b) (ctxs st)) (kv st) (log st) (nchg st) (evn st), UBool b)
      end
  | OCtxEnd sid r =>
      match find_ctx sid (ctxs st) with
      | None => (st, UNone)
      | Some x =>
          match r with
          | EOk => (report_complete slot st sid (sub_after_ok (visit_rest (tab st) (nchg st) x)) true, UBool true)
          | ESkip =>
              let x' := visit_rest (tab st) (nchg st) x in
              (report_complete slot st sid (if report_is_sent x' then sub_after_ok x' else sub_after_skip unsent x') true,
               UBool (report_is_sent x'))
          | EFail => (report_complete slot st sid (sub_after_fail x) true, UBool true)
          | EDrop => (report_complete slot st sid (x_sub x) false, UBool true)
          end
      end
  | OReportBegin now lag =>
      if report_slot_free st then
        let evw := evn st - lag in
        match find_index (fun s => is_reportable s now (tab st) evw) (subs st) with
        | None => (st, USid None)
        | Some i =>
            match nth_error (subs st) i with
            | None => (st, USid None)
            | Some s =>
                let x := mkCtx s false (watermark (next_chg st)) evw now [] [] in
                (mkSt (next_sid st) (count st) (swap_remove i (subs st)) (tab st) (next_chg st)
                      (Some s) (cancelled st) (ctxs st ++ [x]) (kv st) (log st) (nchg st) (evn st),
                 USid (Some (s_id s)))
            end
        end
      else (st, UNone)
  | OPurge =>
      (mkSt (next_sid st) (count st) (subs st) (purge fixed st) (next_chg st) (reporting st) (cancelled st)
            (ctxs st) (kv st) (log st) (nchg st) (evn st), UNone)
  | ORemove fab peer =>
      let '(st', b) := remove_where
        (fun s => (s_fab s =? fab) && match peer with Some n => s_peer s =? n | None => true end) st in
      (st', UBool b)
  | OWake now =>
      let '(st', b) := remove_where (fun s => is_expired s now) st in (st', UBool b)
  | OPersist =>
      (mkSt (next_sid st) (count st) (subs st) (tab st) (next_chg st) (reporting st) (cancelled st)
            (ctxs st) (subs st) (log st) (nchg st) (evn st), UNone)
  | ORestart now lag =>
      (resume (kv st) (mkSt 1 0 [] [] 1 None false [] (kv st) [] 0 (evn st)) now (evn st - lag), UNone)
  end.

(** the repaired code *)
Definition step (st : state) (o : op) : state * out := step_gen true true true None st o.

Fixpoint run_gen (fixed slot unsent : bool) (st : state) (ops : list op) : state :=
  match ops with
  | [] => st
  | o :: t => run_gen fixed slot unsent (fst (step_gen fixed slot unsent None st o)) t
  end.
Definition run := run_gen true true true.
