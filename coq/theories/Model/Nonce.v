(** Model for property C15: message-counter allocation per session
    (session.rs: get_msg_ctr, pre_send counter choice), what goes on the wire
    for fresh messages and retransmissions, and the session / exchange
    identifier allocators (Sessions::get_next_sess_id, get_next_exch_id).
    No proofs in this file. *)
From RsM Require Export Lib.MachInt Model.Mrp.
Open Scope N_scope.

(** [Session::get_msg_ctr] at the end of the 32-bit range of a secure session:
    the send is refused and the session marked expired (the counter is the AEAD
    nonce, it must not come round) *)
Definition ERR_CTR_EXHAUSTED : N := 3.

(** * A session's sender side: message counter + exchanges *)

(** an exchange slot: its MRP state and (ghost) the message pending retransmission *)
Record exslot := mkEx { ex_rm : rm; ex_pending : option N }.

(** [s_case]: a CASE session (a transmit timeout marks only those expired);
    [s_expired]: no new exchange may use the session any more *)
Record sess := mkSess { s_ctr : N; s_ex : list exslot; s_expired : bool; s_case : bool }.

Definition sess_new_mode (ctr0 : N) (nex : nat) (case : bool) : sess :=
  mkSess (N.land ctr0 268435455) (repeat (mkEx rm_new None) nex) false case.

Definition sess_new (ctr0 : N) (nex : nat) : sess := sess_new_mode ctr0 nex true.

(** a session whose counter stands anywhere in the 32-bit range (a long-lived session) *)
Definition sess_at (ctr : N) (nex : nat) (case : bool) : sess :=
  mkSess ctr (repeat (mkEx rm_new None) nex) false case.

Fixpoint set_nth {A} (l : list A) (n : nat) (x : A) : list A :=
  match l, n with
  | [], _ => []
  | _ :: t, O => x :: t
  | y :: t, S k => y :: set_nth t k x
  end.

(** what one transmission puts on the wire, as far as the nonce and the
    plaintext are concerned: counter, piggy-backed acknowledgement, message *)
Record wire := mkWire { w_ctr : N; w_ack : option N; w_msg : N }.

(** [Session::pre_send] for exchange [e] sending application message [m]:
    the counter of the pending retransmission entry if there is one, else a
    fresh counter ([get_msg_ctr]: [checked_add(1)]; at the end of the range the
    send is refused with the session marked expired and nothing else changed);
    then [ReliableMessage::pre_send]; a transmit timeout marks a CASE session
    expired. *)
Definition sess_send (s : sess) (e : nat) (m : N) (reliable : bool) : sess * res wire :=
  match nth_error (s_ex s) e with
  | None => (s, Err 9)
  | Some x =>
      let retrans_ctr := match rm_retr (ex_rm x) with Some r => Some (r_ctr r) | None => None end in
      let '(ctr, next, overflow) :=
        match retrans_ctr with
        | Some c => (c, s_ctr s, false)
        | None => (s_ctr s, s_ctr s + 1, two32 <=? s_ctr s + 1)
        end in
      if overflow then (mkSess (s_ctr s) (s_ex s) true (s_case s), Err ERR_CTR_EXHAUSTED) else
      let '(rm', r) := rm_pre_send (ex_rm x) ctr reliable None in
      match r with
      | Ok piggy =>
          let pend := match rm_retr rm' with
                      | Some _ => match retrans_ctr with Some _ => ex_pending x | None => Some m end
                      | None => None end in
          (mkSess next (set_nth (s_ex s) e (mkEx rm' pend)) (s_expired s) (s_case s),
           Ok (mkWire ctr piggy m))
      | Err c => (mkSess next (set_nth (s_ex s) e (mkEx rm' None))
                         (s_expired s || (s_case s && (c =? ERR_TX_TIMEOUT))) (s_case s), Err c)
      | Panic p => (s, Panic p)
      end
  end.

(** a message of the peer arrives on exchange [e] *)
Definition sess_recv (s : sess) (e : nat) (rx_ctr : N) (rx_ack : option N) (reliable : bool)
  : sess * res unit :=
  match nth_error (s_ex s) e with
  | None => (s, Err 9)
  | Some x =>
      let '(rm', r) := rm_post_recv (ex_rm x) rx_ctr rx_ack reliable in
      let pend := match rm_retr rm' with Some _ => ex_pending x | None => None end in
      (mkSess (s_ctr s) (set_nth (s_ex s) e (mkEx rm' pend)) (s_expired s) (s_case s), r)
  end.

Inductive sop :=
| Send (e : nat) (m : N) (reliable : bool)
| Recv (e : nat) (rx_ctr : N) (rx_ack : option N) (reliable : bool).

(** run a trace, collecting what went on the wire (stops at a panic) *)
Fixpoint sess_run (s : sess) (ops : list sop) : sess * list wire * bool (* panicked *) :=
  match ops with
  | [] => (s, [], false)
  | Send e m rel :: t =>
      let '(s', r) := sess_send s e m rel in
      match r with
      | Ok w => let '(sf, ws, p) := sess_run s' t in (sf, w :: ws, p)
      | Err _ => sess_run s' t
      | Panic _ => (s', [], true)
      end
  | Recv e c a rel :: t =>
      let '(s', _) := sess_recv s e c a rel in sess_run s' t
  end.

(** * Identifier allocators *)

(** [overflowing_add(1).0] on u16, skipping 0 *)
Definition next_cursor (c : N) : N :=
  let n := (c + 1) mod two16 in if n =? 0 then 1 else n.

(** [Sessions::get_next_sess_id]: returns (id, new cursor); [used] = the local
    session ids of the sessions in the table.  Explicit fuel: [None] if exhausted. *)
Fixpoint next_sess_id (fuel : nat) (cursor : N) (used : list N) : option (N * N) :=
  match fuel with
  | O => None
  | S k =>
      let cand := cursor in
      let cursor' := next_cursor cursor in
      if mem cand used then next_sess_id k cursor' used else Some (cand, cursor')
  end.

(** [Sessions::get_next_exch_id] (after the lazy random seeding, which only
    makes the cursor non-zero): [live] = (exchange id, role is initiator) of
    every live exchange of every session; an id is skipped if a live
    INITIATOR-role exchange holds it. *)
Definition exch_conflict (cand : N) (live : list (N * bool)) : bool :=
  existsb (fun x => snd x && (fst x =? cand)) live.

Fixpoint next_exch_id (fuel : nat) (cursor : N) (live : list (N * bool)) : option (N * N) :=
  match fuel with
  | O => None
  | S k =>
      let cand := cursor in
      let cursor' := next_cursor cursor in
      if exch_conflict cand live then next_exch_id k cursor' live else Some (cand, cursor')
  end.

Definition seed_cursor (rand16 : N) : N := if rand16 =? 0 then 1 else rand16.
