(** C14: what a client observes of a chunked answer, the property in
    executable form (the monitor run on the implementation's own chunks), and
    the front end that turns a synthetic node + request into the responder's
    work list (used by the correspondence driver).  No proofs in this file. *)
From RsM Require Export Model.Chunk.
From Coq Require Export Sorted.
Open Scope N_scope.

(** * Observation of one message *)

Record view := mkView {
  v_sub : option N;                 (* width of the subscription id, if present *)
  v_attrs : option (list atom);     (* the attribute-reports array, if present *)
  v_events : option (list atom);    (* the event-reports array, if present *)
  v_more : bool;
  v_supp : bool;
  v_size : N                        (* length of the message payload in bytes *)
}.

Fixpoint take_atoms (l : list token) : list atom * list token :=
  match l with
  | TAtom a :: rest => let '(x, y) := take_atoms rest in (a :: x, y)
  | _ => ([], l)
  end.

(** array := opener atom* TEnd *)
Definition parse_array (opener : token -> bool) (l : list token)
  : option (option (list atom) * list token) :=
  match l with
  | t :: rest =>
      if opener t then
        let '(a, r1) := take_atoms rest in
        match r1 with
        | TEnd :: r2 => Some (Some a, r2)
        | _ => None
        end
      else Some (None, l)
  | [] => Some (None, l)
  end.

Definition is_arrA (t : token) := match t with TArrA => true | _ => false end.
Definition is_arrE (t : token) := match t with TArrE => true | _ => false end.

(** ReportDataMessage := TStruct [TSubId] [attribute array] [event array] [TMore] [TSuppress] TRev TEnd,
    nothing before, nothing after: a message is well-formed on its own iff this succeeds *)
Definition parse_fields (l : list token)
  : option (option N * option (list atom) * option (list atom) * bool * bool) :=
  match l with
  | TStruct :: l1 =>
      let '(sb, l2) := match l1 with TSubId w :: x => (Some w, x) | _ => (None, l1) end in
      match parse_array is_arrA l2 with
      | None => None
      | Some (va, l3) =>
          match parse_array is_arrE l3 with
          | None => None
          | Some (ve, l4) =>
              let '(mo, l5) := match l4 with TMore :: x => (true, x) | _ => (false, l4) end in
              let '(su, l6) := match l5 with TSuppress :: x => (true, x) | _ => (false, l5) end in
              match l6 with
              | [TRev; TEnd] => Some (sb, va, ve, mo, su)
              | _ => None
              end
          end
      end
  | _ => None
  end.

Definition parse_chunk (l : list token) : option view :=
  match parse_fields l with
  | Some (sb, va, ve, mo, su) => Some (mkView sb va ve mo su (tsum l))
  | None => None
  end.

Definition oatoms (o : option (list atom)) : list atom := match o with Some l => l | None => [] end.
Definition all_attr_atoms (vs : list view) : list atom := flat_map (fun v => oatoms (v_attrs v)) vs.
Definition all_event_atoms (vs : list view) : list atom := flat_map (fun v => oatoms (v_events v)) vs.

(** the size a message with these contents must have (no stray bytes) *)
Definition view_size (v : view) : N :=
  1 + (match v_sub v with Some w => 2 + w | None => 0 end)
  + (match v_attrs v with Some l => 2 + sum_with asize l + 1 | None => 0 end)
  + (match v_events v with Some l => 2 + sum_with asize l + 1 | None => 0 end)
  + (if v_more v then 2 else 0) + (if v_supp v then 2 else 0) + 3 + 1.

(** * Reassembly *)

(** what the client ends up with per attribute *)
Inductive ident :=
| IdWhole (p : path)              (* received in one piece *)
| IdList (p : path) (n : N)       (* received as empty list + n appends numbered 0..n-1 in order *)
| IdStatus (p : path) (code : N).

Definition path_eqb (a b : path) : bool :=
  let '(a1, a2, a3) := a in let '(b1, b2, b3) := b in (a1 =? b1) && (a2 =? b2) && (a3 =? b3).

Definition close_open (o : option (path * N)) : list ident :=
  match o with Some (p, n) => [IdList p n] | None => [] end.

(** [None]: an append without its marker, out of order, for another list, or an event among attributes *)
Fixpoint reasm (l : list atom) (o : option (path * N)) : option (list ident) :=
  match l with
  | [] => Some (close_open o)
  | AWhole p _ :: rest => option_map (fun x => close_open o ++ IdWhole p :: x) (reasm rest None)
  | AStatus p code _ :: rest => option_map (fun x => close_open o ++ IdStatus p code :: x) (reasm rest None)
  | AMarker p _ :: rest => option_map (fun x => close_open o ++ x) (reasm rest (Some (p, 0)))
  | AElem p idx _ :: rest =>
      match o with
      | Some (q, n) => if path_eqb p q && (idx =? n) then reasm rest (Some (q, n + 1)) else None
      | None => None
      end
  | AEvent _ _ :: _ | AEvStatus _ _ :: _ => None
  end.

(** what was asked for, after expansion *)
Inductive expect :=
| EValue (p : path)             (* non-list attribute *)
| EList (p : path) (n : N)      (* list attribute with n elements *)
| EStatus (p : path) (code : N).

Definition matches (e : expect) (i : ident) : bool :=
  match e, i with
  | EValue p, IdWhole q => path_eqb p q
  | EList p _, IdWhole q => path_eqb p q
  | EList p n, IdList q m => path_eqb p q && (n =? m)
  | EStatus p c, IdStatus q d => path_eqb p q && (c =? d)
  | _, _ => false
  end.

Fixpoint forall2b {A B} (f : A -> B -> bool) (l : list A) (m : list B) : bool :=
  match l, m with
  | [], [] => true
  | x :: l', y :: m' => f x y && forall2b f l' m'
  | _, _ => false
  end.

Inductive evexpect := XStatus (code : N) | XEvent (num : N).

Definition ev_matches (e : evexpect) (a : atom) : bool :=
  match e, a with
  | XStatus c, AEvStatus d _ => c =? d
  | XEvent n, AEvent m _ => n =? m
  | _, _ => false
  end.

(** * The property, executable *)

(** all messages but the last announce more chunks; the last one does not *)
Fixpoint only_last_ends (vs : list view) : bool :=
  match vs with
  | [] => false
  | v :: rest =>
      match rest with
      | [] => negb (v_more v)
      | _ :: _ => v_more v && negb (v_supp v) && only_last_ends rest
      end
  end.

Definition last_supp (vs : list view) (want : bool) : bool :=
  match rev vs with v :: _ => Bool.eqb (v_supp v) want | [] => false end.

Definition c14_exactly_once (ex : list expect) (vs : list view) : bool :=
  match reasm (all_attr_atoms vs) None with
  | Some ids => forall2b matches ex ids
  | None => false
  end.

Definition c14_events_once (xs : list evexpect) (vs : list view) : bool :=
  forall2b ev_matches xs (all_event_atoms vs).

Definition c14_fits (txmax : N) (vs : list view) : bool :=
  forallb (fun v => (v_size v <=? txmax) && (view_size v =? v_size v)) vs.

Definition c14_holds (txmax : N) (supp : bool) (ex : list expect) (xs : list evexpect) (vs : list view) : bool :=
  c14_exactly_once ex vs && c14_events_once xs vs && c14_fits txmax vs
  && only_last_ends vs && last_supp vs supp.

(** * Hypotheses of the theorems, executable *)

Definition hdr (c : cfg) : list token :=
  TStruct :: match sub_w c with Some w => [TSubId w] | None => [] end.

(** what a reply can take after [start_reply] and the opening of one array *)
Definition fresh_room (c : cfg) : N := tx c - reserve_sz c - tsum (hdr c) - 2.

Definition atom_fits (c : cfg) (a : atom) : bool := asize a <=? fresh_room c.

(** every report the responder may have to write for this entry fits an empty reply *)
Definition item_fits (c : cfg) (it : item) : bool :=
  match it with
  | IOne a => atom_fits c a
  | IArr p whole marker elems probe =>
      atom_fits c (AMarker p marker) && forallb (fun sz => sz <=? fresh_room c) elems
      && (probe <=? fresh_room c)
  end.

Definition all_fit (c : cfg) (its : list item) (stats : list atom) (evs : list ev) : bool :=
  forallb (item_fits c) its && forallb (atom_fits c) stats
  && forallb (fun e => ev_size e <=? fresh_room c) evs.

(** the reserve covers the closing containers and flags; a reply can be opened *)
Definition cfg_ok (c : cfg) : bool :=
  (10 <=? reserve_sz c) && (reserve_sz c + tsum (hdr c) + 2 <=? tx c).

(** * The part of the property that still holds for an answer cut short by a status *)

Definition matches_partial (e : expect) (i : ident) : bool :=
  match e, i with
  | EList p n, IdList q m => path_eqb p q && (m <=? n)
  | _, _ => matches e i
  end.

Fixpoint prefix2b {A B} (f g : A -> B -> bool) (l : list A) (m : list B) : bool :=
  match m with
  | [] => true
  | y :: m' =>
      match l with
      | [] => false
      | x :: l' =>
          match m' with
          | [] => g x y
          | _ :: _ => f x y && prefix2b f g l' m'
          end
      end
  end.

Definition c14_partial (txmax : N) (ex : list expect) (xs : list evexpect) (vs : list view) : bool :=
  match reasm (all_attr_atoms vs) None with
  | Some ids => prefix2b matches matches_partial ex ids
  | None => false
  end
  && prefix2b ev_matches ev_matches xs (all_event_atoms vs)
  && c14_fits txmax vs
  && forallb (fun v => v_more v && negb (v_supp v)) vs.

(** * Front end: synthetic node, request, expansion *)

Inductive aspec := SScalar (len : N) | SList (lens : list N).
Record clus := mkClus { cl_ep : N; cl_id : N; cl_dv : N; cl_attrs : list (N * aspec) }.
Definition node := list clus.       (* grouped by ascending endpoint id *)
Definition rpath := (option N * option N * option N)%type.

Definition omatch (o : option N) (v : N) : bool := match o with Some x => x =? v | None => true end.

(** first data-version filter for (endpoint, cluster) decides (expand.rs [dataver]);
    the handler answers iff the filter value differs from the cluster's version *)
Fixpoint filtered_out (fs : list (N * N * N)) (cl : clus) : bool :=
  match fs with
  | [] => false
  | (ep, id, dv) :: rest =>
      if (ep =? cl_ep cl) && (id =? cl_id cl) then dv =? cl_dv cl else filtered_out rest cl
  end.

Definition item_of (cl : clus) (a : N * aspec) : item :=
  let p := (cl_ep cl, cl_id cl, fst a) in
  match snd a with
  | SScalar len => IOne (AWhole p (scalar_report_size (cl_dv cl) p len))
  | SList lens =>
      IArr p (whole_list_report_size (cl_dv cl) p lens) (marker_report_size (cl_dv cl) p)
           (map (elem_report_size (cl_dv cl) p) lens) (probe_size (cl_dv cl) p)
  end.

Definition expect_of (cl : clus) (a : N * aspec) : expect :=
  let p := (cl_ep cl, cl_id cl, fst a) in
  match snd a with
  | SScalar _ => EValue p
  | SList lens => EList p (N.of_nat (length lens))
  end.

Definition UNSUPPORTED_ENDPOINT : N := 127.
Definition UNSUPPORTED_CLUSTER : N := 195.
Definition UNSUPPORTED_ATTRIBUTE : N := 134.

Section Expand.
  Context {T : Type} (leaf : clus -> (N * aspec) -> T) (status : path -> N -> T).

  Definition expand_cluster (q : rpath) (cl : clus) : list T :=
    let '(qe, qc, qa) := q in
    if omatch qe (cl_ep cl) && omatch qc (cl_id cl)
    then map (leaf cl) (filter (fun a => omatch qa (fst a)) (cl_attrs cl))
    else [].

  (** a fully concrete path that does not resolve is answered with a status *)
  Definition concrete_status (nd : node) (q : rpath) : list T :=
    match q with
    | (Some e, Some c_, Some a) =>
        if negb (existsb (fun cl => cl_ep cl =? e) nd) then [status (e, c_, a) UNSUPPORTED_ENDPOINT]
        else if negb (existsb (fun cl => (cl_ep cl =? e) && (cl_id cl =? c_)) nd)
             then [status (e, c_, a) UNSUPPORTED_CLUSTER]
        else if negb (existsb (fun cl => (cl_ep cl =? e) && (cl_id cl =? c_)
                                         && existsb (fun x => fst x =? a) (cl_attrs cl)) nd)
             then [status (e, c_, a) UNSUPPORTED_ATTRIBUTE]
        else []
    | _ => []
    end.

  Definition expand_path (nd : node) (fs : list (N * N * N)) (q : rpath) : list T :=
    concrete_status nd q
    ++ flat_map (fun cl => if filtered_out fs cl then [] else expand_cluster q cl) nd.

  Definition expand (nd : node) (fs : list (N * N * N)) (qs : list rpath) : list T :=
    flat_map (expand_path nd fs) qs.
End Expand.

Definition items_of (nd : node) (fs : list (N * N * N)) (qs : list rpath) : list item :=
  expand item_of (fun p code => IOne (AStatus p code (status_size p code))) nd fs qs.
Definition expects_of (nd : node) (fs : list (N * N * N)) (qs : list rpath) : list expect :=
  expand expect_of (fun p code => EStatus p code) nd fs qs.

(** a subscription report carries only what changed since the last one ([should_report_attr]:
    the changed-attribute table holds attributes, or whole clusters) *)
Definition item_path (it : item) : path :=
  match it with
  | IOne (AWhole p _) | IOne (AMarker p _) | IOne (AElem p _ _) | IOne (AStatus p _ _) => p
  | IOne _ => (0, 0, 0)
  | IArr p _ _ _ _ => p
  end.

Definition changed_match (chs : list rpath) (p : path) : bool :=
  let '(e, c_, a) := p in
  existsb (fun q => let '(qe, qc, qa) := q in omatch qe e && omatch qc c_ && omatch qa a) chs.

(** every notified change bumps the data version of the cluster(s) it names ([bump_dataver]) *)
Definition bumps (chs : list rpath) (cl : clus) : N :=
  N.of_nat (length (filter (fun q => let '(qe, qc, _) := q in omatch qe (cl_ep cl) && omatch qc (cl_id cl)) chs)).

Definition bump_node (nd : node) (chs : list rpath) : node :=
  map (fun cl => mkClus (cl_ep cl) (cl_id cl) ((cl_dv cl + bumps chs cl) mod 4294967296) (cl_attrs cl)) nd.

(** The work list of a change report: the subscribed paths expanded over the node as it is now,
    restricted to what changed.  The data-version filters of the subscribe request play no part
    ([ReportDataReq::SubscribeReport] has none): they apply to the priming report only, so a change
    that brings a cluster to exactly a filtered version is reported like any other. *)
Definition report_items_of (nd : node) (qs chs : list rpath) : list item :=
  filter (fun it => changed_match chs (item_path it)) (items_of (bump_node nd chs) [] qs).

(** events of the synthetic node: every cluster declares the events 1, 2, 3 *)
Record evspec := mkEvspec { es_path : path; es_prio : N; es_len : N; es_ts : N }.

Definition event_exists (nd : node) (p : path) : bool :=
  let '(e, c_, v) := p in
  existsb (fun cl => (cl_ep cl =? e) && (cl_id cl =? c_)) nd && (1 <=? v) && (v <=? 3).

(** node.rs [validate_event_path]: 0 = valid, else the status code; 1 = unsupported event (no status sent) *)
Definition validate_event_path (nd : node) (q : rpath) : N :=
  let '(qe, qc, qv) := q in
  match qe with
  | None => 0
  | Some e =>
      if negb (existsb (fun cl => cl_ep cl =? e) nd) then UNSUPPORTED_ENDPOINT
      else match qc with
           | None => 0
           | Some c_ =>
               if negb (existsb (fun cl => (cl_ep cl =? e) && (cl_id cl =? c_)) nd) then UNSUPPORTED_CLUSTER
               else match qv with
                    | None => 0
                    | Some v => if (1 <=? v) && (v <=? 3) then 0 else 1
                    end
           end
  end.

Definition ev_status_codes (nd : node) (qs : list rpath) : list (path * N) :=
  flat_map (fun q =>
    match q with
    | (Some e, Some c_, Some v) =>
        let code := validate_event_path nd q in
        if (code =? 0) || (code =? 1) then [] else [((e, c_, v), code)]
    | _ => []
    end) qs.

Definition ev_statuses_of (nd : node) (qs : list rpath) : list atom :=
  map (fun pc => AEvStatus (snd pc) (status_size (fst pc) (snd pc))) (ev_status_codes nd qs).

Definition ev_path_match (nd : node) (p : path) (q : rpath) : bool :=
  let '(e, c_, v) := p in let '(qe, qc, qv) := q in
  (validate_event_path nd q =? 0) && omatch qe e && omatch qc c_ && omatch qv v.

Definition ev_selected (nd : node) (qs : list rpath) (mins : list N) (num : N) (p : path) : bool :=
  existsb (ev_path_match nd p) qs && forallb (fun m => m <=? num) mins && event_exists nd p.

Fixpoint evs_of (nd : node) (qs : list rpath) (mins : list N) (num : N) (l : list evspec) : list ev :=
  match l with
  | [] => []
  | e :: rest =>
      mkEv num (event_report_size (es_path e) num (es_prio e) (es_ts e) (es_len e))
           (ev_selected nd qs mins num (es_path e))
      :: evs_of nd qs mins (num + 1) rest
  end.

Definition evexpects_of (c : cfg) (nd : node) (qs : list rpath) (evs : list ev) : list evexpect :=
  map (fun pc => XStatus (snd pc)) (ev_status_codes nd qs)
  ++ map (fun e => XEvent (ev_num e))
         (filter (fun e => (ev_lo c <? ev_num e) && (ev_num e <=? ev_hi c) && ev_sel e) evs).

(** * Vocabulary of the theorems (Props/C14.v) *)

(** the reports of the elements of a streamed list, numbered from [idx] *)
Fixpoint elem_atoms (p : path) (idx : N) (elems : list N) : list atom :=
  match elems with [] => [] | sz :: rest => AElem p idx sz :: elem_atoms p (idx + 1) rest end.

(** the forms in which one entry of the work list may travel *)
Inductive sent_as : item -> list atom -> Prop :=
| sa_one a : sent_as (IOne a) [a]
| sa_whole p w m es pr : sent_as (IArr p w m es pr) [AWhole p w]
| sa_split p w m es pr : sent_as (IArr p w m es pr) (AMarker p m :: elem_atoms p 0 es).


Definition item_ok (it : item) : bool :=
  match it with
  | IOne (AWhole _ _) | IOne (AStatus _ _ _) | IArr _ _ _ _ _ => true
  | _ => false
  end.

Definition expect_of_item (it : item) : expect :=
  match it with
  | IOne (AStatus p code _) => EStatus p code
  | IOne (AWhole p _) => EValue p
  | IOne _ => EValue (0, 0, 0)
  | IArr p _ _ es _ => EList p (N.of_nat (length es))
  end.


(** events: resumption by event number *)
Definition in_range (c : cfg) (lo : N) (e : ev) : bool := (lo <? ev_num e) && (ev_num e <=? ev_hi c).
Definition want (c : cfg) (lo : N) (evs : list ev) : list ev :=
  filter (fun e => in_range c lo e && ev_sel e) evs.
Definition ev_atom (e : ev) : atom := AEvent (ev_num e) (ev_size e).
Definition ev_sorted (evs : list ev) : Prop := StronglySorted (fun a b => ev_num a < ev_num b) evs.


Definition events_total (c : cfg) (stats : list atom) (evs : list ev) : list atom :=
  stats ++ map ev_atom (want c (ev_lo c) evs).


Definition evx_of_atom (a : atom) : evexpect :=
  match a with AEvStatus code _ => XStatus code | AEvent n _ => XEvent n | _ => XEvent 0 end.
Definition is_evstatus (a : atom) : bool := match a with AEvStatus _ _ => true | _ => false end.

