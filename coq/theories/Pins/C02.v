(** Statement pins for C02: the headline theorems must have exactly these
    types, so they cannot be weakened silently. *)
From RsM Require Import Model.Pase Model.PaseSpec Proofs.PaseTheorems Props.C02.
From Coq Require Import NArith List Bool.
Import ListNotations.
Open Scope N_scope.

Check (C02_session_needs_open_window_and_proof : forall (l : list op) (o : op),
  let s := run init l in
  commits (fst (step s o)) <> commits s -> accepts s o).
Check (C02_bad_input_no_session : forall (l : list op) (o : op),
  let s := run init l in
  ~ accepts s o -> commits (fst (step s o)) = commits s).
Check (C02_wrong_passcode_no_session : forall (l : list op) e v t w,
  let s := run init l in
  win s = Some w -> vf_pw v <> vf_pw (w_vf w) ->
  commits (fst (step s (Msg e (MP3 (P3Conf (Ca v t)))))) = commits s).
Check (C02_mutated_transcript_no_session : forall (l : list op) e v t vf g tr p,
  let s := run init l in
  hs_get e (hs s) = Some (AwaitP3 vf g tr p) -> t <> tr ->
  commits (fst (step s (Msg e (MP3 (P3Conf (Ca v t)))))) = commits s).
Check (C02_invalid_point_ends_handshake : forall (l : list op) e pt rq rs p,
  let s := run init l in
  hs_get e (hs s) = Some (AwaitP1 rq rs p) -> point_valid pt = false ->
  let s' := fst (step s (Msg e (MP1 (P1Point pt)))) in
  commits s' = commits s /\ hs_get e (hs s') = None).
Check (C02_failures_counted : forall (l : list op) e,
  let s := run init l in
  hs_get e (hs s) = Some (AwaitAck false) ->
  (forall m, win (fst (step s (Msg e m))) = match win s with Some w => bump w | None => None end) /\
  win (fst (step s (Abort e))) = match win s with Some w => bump w | None => None end).
Check (C02_success_not_counted : forall (l : list op) e m,
  let s := run init l in
  hs_get e (hs s) = Some (AwaitAck true) ->
  let s' := fst (step s (Msg e m)) in
  win s' = win s /\ sessions s' = make_live (sessions s) e /\ marker s' = None).
Check (C02_counter_moves_by_failures_only : forall (l : list op) (o : op),
  let s := run init l in let s' := fst (step s o) in
  (forall w, win s = Some w -> w_fail w < 20) /\
  (win s' = win s \/
   (exists w, win s = Some w /\ win s' = bump w) \/
   win s' = None \/
   (win s = None /\ exists w', win s' = Some w' /\ w_fail w' = 0))).
Check (C02_single_handshake : forall (l : list op) e1 d e2 r,
  let s := run init l in
  marker s = Some (e1, d) -> now s <= d -> e2 <> e1 -> hs_get e2 (hs s) = None ->
  step s (Msg e2 (MReq r)) = (s, OStatus StBusy)).
Check (C02_first_handshake_undisturbed : forall (l : list op) (k : list op) e1 d,
  let s := run init l in
  marker s = Some (e1, d) -> now s <= d -> no_foreign_ack s e1 -> Forall (foreign e1) k ->
  let s' := run s k in
  marker s' = marker s /\ win s' = win s /\ sessions s' = sessions s /\
  hs_get e1 (hs s') = hs_get e1 (hs s) /\ now s' = now s /\ nonce s' = nonce s).
Check (C02_advertised_iff_open : forall (l : list op),
  let s := run init l in
  (advertised s = true <-> exists w, win s = Some w) /\
  (forall w, win s = Some w -> now s <= w_expiry w + since_poll s)).
Check (C02_advertised_at_most_polling_period_late : forall (P : N) (l : list op),
  polled_within P 0 l ->
  let s := run init l in
  forall w, win s = Some w -> now s <= w_expiry w + P).
