(** Statement pins for C04: the property theorems must have exactly these
    types, so they cannot be weakened silently. *)
From RsM Require Import Lib.MachInt Model.Dedup Model.DedupSpec Model.DedupRx
  Proofs.DedupTheorems Proofs.DedupGroup Proofs.DedupRx Props.C04.
Open Scope N_scope.

Check (C04_never_twice : forall (s : rx) (h : list N),
  NoDup (accepted true false s h)).
Check (C04_accept_iff : forall (h : list N) (v : N),
  snd (post_recv (final true false rx_unsynced h) v true false) = true <->
  (~ In v (accepted true false rx_unsynced h) /\
   forall a, In a (accepted true false rx_unsynced h) -> a <= v + 16)).
Check (C04_newer_accepted : forall (h : list N) (v : N),
  (forall a, In a (accepted true false rx_unsynced h) -> a < v) ->
  snd (post_recv (final true false rx_unsynced h) v true false) = true).
Check (C04_model_meets_spec : forall h : list N,
  fst (run true false rx_unsynced h) = spec_run [] h).
Check (C04_group_sender_clauses : forall (lo first : N) (H : list N),
  lo <= first < lo + two31 -> in_band lo H ->
  group_clauses [first] H
    (fst (run true true (rx_new (wrap32 first)) (map wrap32 H))) = true).
Check (C04_group_store_invariant : forall ops : list (N * N * N),
  GInv (g_run gstore_new ops)).
Check (C04_group_store_tracked : forall st f n c e,
  g_lookup (g_entries st) f n = Some e ->
  snd (g_post_recv st f n c) = snd (post_recv (g_rx e) c true true) /\
  option_map g_rx (g_lookup (g_entries (fst (g_post_recv st f n c))) f n) =
    Some (fst (post_recv (g_rx e) c true true)) /\
  (forall f2 n2, ~ (f2 = f /\ n2 = n) ->
     g_lookup (g_entries (fst (g_post_recv st f n c))) f2 n2 =
     g_lookup (g_entries st) f2 n2)).
Check (C04_group_path_accepts_only_what_store_accepts : forall (ms : list gmsg) (s : grx),
  Forall2 (fun p q => p = true -> q = true) (path_flags s ms) (store_flags (gx_store s) ms)).
