(** Statement pins for C05: the property theorems must have exactly these
    types, so they cannot be weakened silently. *)
From RsM Require Import Lib.MachInt Model.Acl Model.AclSpec
  Proofs.AclTheorems Props.C05.
Open Scope N_scope.

Check (C05_allow_iff_granted :
  forall (fabs : list fabric) (a : accessor) (r : request) (op : operation),
  wf_fabrics fabs = true -> r_op r = op_bits op ->
  allow fabs a r =
  acl_granted (map abs_fabric fabs) (abs_accessor a) op (abs_element r)).
Check (C05_access_iff_granted :
  forall (fabs : list fabric) (a : accessor) (op : operation)
         (ep cl : N) (dts : list N) (decl : N),
  wf_fabrics fabs = true ->
  im_access fabs a ep cl dts (op_bits op) decl =
  granted (map abs_fabric fabs) (abs_accessor a) op ep cl dts decl).
Check (C05_granted_meaning :
  forall (fabs : list sfabric) (a : saccessor) (op : operation) (el : selement),
  acl_granted fabs a op el = true <->
  sa_mode a = Some Pase \/
  exists f e, sa_fabric a <> 0 /\
              find (fun f => sf_index f =? sa_fabric a) fabs = Some f /\
              In e (entries_in_force f a) /\
              entry_grants e a op el = true).
Check (C05_fabric_isolation :
  forall (fabs1 fabs2 : list fabric) (g : fabric) (a : accessor) (r : request),
  f_idx g <> a_fab a ->
  allow (fabs1 ++ g :: fabs2) a r = allow (fabs1 ++ fabs2) a r).
Check (C05_foreign_entry_never_grants :
  forall (e : entry) (a : accessor) (r : request) (aux : bool),
  e_fab e <> Some (a_fab a) -> entry_allow e a r aux = false).
Check (C05_foreign_entry_irrelevant :
  forall (fabs1 fabs2 : list fabric) (f : fabric)
         (l1 l2 : list entry) (e : entry) (a : accessor) (r : request),
  f_acl f = l1 ++ e :: l2 -> e_fab e <> Some (a_fab a) ->
  allow (fabs1 ++ f :: fabs2) a r =
  allow (fabs1 ++ mkFabric (f_idx f) (l1 ++ l2) (f_groups f) :: fabs2) a r).
Check (C05_missing_fabric_denied :
  forall (fabs : list fabric) (a : accessor) (r : request),
  a_auth a <> Some APase ->
  a_fab a = 0 \/ (forall f, In f fabs -> f_idx f <> a_fab a) ->
  allow fabs a r = false).
Check (C05_pase_commissioner_granted :
  forall (fabs : list fabric) (a : accessor) (r : request),
  a_auth a = Some APase -> allow fabs a r = true).
Check (C05_cat_version_order :
  forall (node id v id' w : N),
  node <= 0xFFFFFFEFFFFFFFFF ->
  id < 65536 -> v < 65536 -> id' < 65536 -> w < 65536 ->
  0 < id * 65536 + v -> 0 < id' * 65536 + w ->
  subj_matches (subj_add_catid_ignore (subj_new node) (gen_noc_cat id v))
               (N.lor NOC_CAT_SUBJECT_PREFIX (gen_noc_cat id' w))
  = (id =? id') && (w <=? v)).
Check (C05_group_endpoint_membership :
  forall (fabs : list fabric) (a : accessor)
         (ep cl : N) (dts : list N) (op perms : N),
  a_auth a = Some AGroup ->
  im_access fabs a ep cl dts op perms = true ->
  exists f g, fabrics_get fabs (a_fab a) = Some f /\
              groups_get (f_groups f) (wrap16 (hd 0 (a_subj a))) = Some g /\
              In ep (g_eps g)).
