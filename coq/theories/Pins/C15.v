(** Statement pins for C15. *)
From RsM Require Import Lib.MachInt Model.Mrp Model.Nonce
  Proofs.NonceTheorems Proofs.NonceAlloc Props.C15.
From Coq Require Import Sorted.
Open Scope N_scope.

Check (C15_nonce_unique : forall (c0 : N) (nex : nat) (ops : list sop),
  honest (sess_new c0 nex) ops = true ->
  forall w1 w2, In w1 (snd (fst (sess_run (sess_new c0 nex) ops))) ->
                In w2 (snd (fst (sess_run (sess_new c0 nex) ops))) ->
                w_ctr w1 = w_ctr w2 -> w1 = w2).
Check (C15_fresh_counters_increase : forall (ops : list sop) (s : sess),
  StronglySorted N.lt (fresh_ctrs s ops) /\
  (forall c, In c (fresh_ctrs s ops) -> s_ctr s <= c)).
Check (C15_session_id_fresh : forall fuel cursor used id cursor',
  1 <= cursor < two16 ->
  next_sess_id fuel cursor used = Some (id, cursor') ->
  ~ In id used /\ 1 <= id < two16).
Check (C15_exchange_id_fresh : forall fuel cursor live id cursor',
  1 <= cursor < two16 ->
  next_exch_id fuel cursor live = Some (id, cursor') ->
  ~ In id (initiator_ids live) /\ 1 <= id < two16).
