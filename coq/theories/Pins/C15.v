(** Statement pins for C15. *)
From RsM Require Import Model.Packet Lib.MachInt Model.Mrp Model.Nonce
  Proofs.NonceTheorems Proofs.NonceAlloc Proofs.NonceAead Props.C15.
From Coq Require Import Sorted.
Open Scope N_scope.

Check (C15_nonce_unique : forall (c0 : N) (nex : nat) (ops : list sop),
  honest (sess_new c0 nex) ops = true ->
  forall w1 w2, In w1 (snd (fst (sess_run (sess_new c0 nex) ops))) ->
                In w2 (snd (fst (sess_run (sess_new c0 nex) ops))) ->
                w_ctr w1 = w_ctr w2 -> w1 = w2).
Check (C15_fresh_counters_increase : forall (ops : list sop) (s : sess),
  StronglySorted N.lt (fresh_ctrs s ops) /\
  (forall c, In c (fresh_ctrs s ops) -> s_ctr s <= c)).
Check (C15_session_id_fresh : forall fuel cursor used id cursor',
  1 <= cursor < two16 ->
  next_sess_id fuel cursor used = Some (id, cursor') ->
  ~ In id used /\ 1 <= id < two16).
Check (C15_exchange_id_fresh : forall fuel cursor live id cursor',
  1 <= cursor < two16 ->
  next_exch_id fuel cursor live = Some (id, cursor') ->
  ~ In id (initiator_ids live) /\ 1 <= id < two16).
Check (C15_nonce_unique_anywhere : forall (ctr : N) (nex : nat) (case : bool) (ops : list sop),
  honest (sess_at ctr nex case) ops = true ->
  forall w1 w2, In w1 (snd (fst (sess_run (sess_at ctr nex case) ops))) ->
                In w2 (snd (fst (sess_run (sess_at ctr nex case) ops))) ->
                w_ctr w1 = w_ctr w2 -> w1 = w2).
Check (C15_wire_counters_fit : forall (ctr : N) (nex : nat) (case : bool) (ops : list sop),
  ctr < two32 -> honest (sess_at ctr nex case) ops = true ->
  forall w, In w (snd (fst (sess_run (sess_at ctr nex case) ops))) -> w_ctr w < two32).
Check (C15_counter_exhaustion_refused : forall s e x m rel,
  nth_error (s_ex s) e = Some x -> pending_ctr x = None -> two32 <= s_ctr s + 1 ->
  sess_send s e m rel = (mkSess (s_ctr s) (s_ex s) true (s_case s), Err ERR_CTR_EXHAUSTED)).
Check (C15_one_nonce_one_plaintext :
  forall (key sf node ctr : N) (frame : wire -> list N * list N)
         (nex : nat) (case : bool) (ops : list sop),
  sf < 256 -> node < two64 -> ctr < two32 ->
  honest (sess_at ctr nex case) ops = true ->
  forall w1 w2, In w1 (snd (fst (sess_run (sess_at ctr nex case) ops))) ->
                In w2 (snd (fst (sess_run (sess_at ctr nex case) ops))) ->
                same_key_nonce (sealed_for key sf node frame w1) (sealed_for key sf node frame w2) ->
                sealed_for key sf node frame w1 = sealed_for key sf node frame w2).
