(** Pinned statements of the C14 headline theorems: a weakened theorem no longer type-checks here. *)
From RsM Require Import Lib.MachInt Model.Chunk Model.ChunkSpec Props.C14.
Open Scope N_scope.

Check (C14_exactly_once_in_order :
  forall (n : nat) (c : cfg) (its : list item) (stats : list atom) (evs : list ev),
  cfg_ok c = true -> ev_sorted evs ->
  forall chunks : list (list token),
  has_attrs c = true -> respond n c its stats evs = (ODone, chunks) ->
  exists vs gs, map parse_chunk chunks = map Some vs /\ Forall2 sent_as its gs /\
                all_attr_atoms vs = concat gs).

Check (C14_lists_reassemble :
  forall (n : nat) (c : cfg) (its : list item) (stats : list atom) (evs : list ev),
  cfg_ok c = true -> ev_sorted evs ->
  forall chunks : list (list token),
  has_attrs c = true -> forallb item_ok its = true -> respond n c its stats evs = (ODone, chunks) ->
  exists vs ids, map parse_chunk chunks = map Some vs /\
                 reasm (all_attr_atoms vs) None = Some ids /\
                 forall2b matches (map expect_of_item its) ids = true).

Check (C14_events_exactly_once :
  forall (n : nat) (c : cfg) (its : list item) (stats : list atom) (evs : list ev),
  cfg_ok c = true -> ev_sorted evs ->
  forall chunks : list (list token),
  has_events c = true -> respond n c its stats evs = (ODone, chunks) ->
  exists vs, map parse_chunk chunks = map Some vs /\
    all_event_atoms vs = stats ++ map ev_atom
      (filter (fun e => (ev_lo c <? ev_num e) && (ev_num e <=? ev_hi c) && ev_sel e) evs)).

Check (C14_each_chunk_fits_and_parses :
  forall (n : nat) (c : cfg) (its : list item) (stats : list atom) (evs : list ev),
  cfg_ok c = true -> ev_sorted evs ->
  forall (o : outcome) (chunks : list (list token)),
  respond n c its stats evs = (o, chunks) ->
  Forall (fun ch => tsum ch <= tx c /\
                    exists v, parse_chunk ch = Some v /\ v_size v = tsum ch /\ view_size v = tsum ch) chunks).

Check (C14_only_last_ends :
  forall (n : nat) (c : cfg) (its : list item) (stats : list atom) (evs : list ev),
  cfg_ok c = true -> ev_sorted evs ->
  forall chunks : list (list token),
  respond n c its stats evs = (ODone, chunks) ->
  exists vs, map parse_chunk chunks = map Some vs /\ only_last_ends vs = true /\
             last_supp vs (suppress c) = true).

Check (C14_terminates :
  forall (n : nat) (c : cfg) (its : list item) (stats : list atom) (evs : list ev),
  cfg_ok c = true -> ev_sorted evs ->
  (length evs < n)%nat -> fst (respond n c its stats evs) <> OFuel).

Check (C14_completes_when_items_fit :
  forall (n : nat) (c : cfg) (its : list item) (stats : list atom) (evs : list ev),
  cfg_ok c = true -> ev_sorted evs -> accept c = None ->
  (length evs < n)%nat -> all_fit c its stats evs = true -> fst (respond n c its stats evs) = ODone).

Check (C14_aborted_never_claims_completeness :
  forall (n : nat) (c : cfg) (its : list item) (stats : list atom) (evs : list ev),
  cfg_ok c = true -> ev_sorted evs ->
  forall chunks : list (list token),
  respond n c its stats evs = (OAbort, chunks) ->
  exists vs, map parse_chunk chunks = map Some vs /\
             forallb (fun v => v_more v && negb (v_supp v)) vs = true).

Check (C14_aborted_round :
  forall (n : nat) (c : cfg) (sb : sub) (hi : N) (stats : list atom) (evs : list ev),
  cfg_ok c = true -> ev_sorted evs ->
  forall (how : silence) (x : option sub) (ch : list (list token)),
  report_round n c how sb hi stats evs = (x, OAbort, ch) ->
  x = match how with Silent => Some sb | Refuses => None end /\
  exists vs, map parse_chunk ch = map Some vs /\
             forallb (fun v => v_more v && negb (v_supp v)) vs = true).

Check (C14_next_round_starts_clean :
  forall (n : nat) (c : cfg) (sb : sub) (hi : N) (stats : list atom) (evs : list ev),
  cfg_ok c = true -> ev_sorted evs ->
  forall how : silence,
  accept c = None -> has_attrs c = true -> has_events c = true ->
  (length evs < n)%nat -> all_fit c (sb_pending sb) stats evs = true ->
  nothing_to_report (with_window c (sb_seen sb) hi) (sb_pending sb) stats evs = false ->
  exists ch vs gs,
    report_round n c how sb hi stats evs = (Some (mkSub hi []), ODone, ch) /\
    map parse_chunk ch = map Some vs /\
    Forall2 sent_as (sb_pending sb) gs /\ all_attr_atoms vs = concat gs /\
    all_event_atoms vs = stats ++ map ev_atom
      (filter (fun e => (sb_seen sb <? ev_num e) && (ev_num e <=? hi) && ev_sel e) evs) /\
    only_last_ends vs = true).

Check (C14_monitor_accepts_model :
  forall (n : nat) (c : cfg) (its : list item) (stats : list atom) (evs : list ev),
  cfg_ok c = true -> ev_sorted evs ->
  forall chunks : list (list token),
  has_attrs c = true -> has_events c = true ->
  forallb item_ok its = true -> forallb is_evstatus stats = true ->
  respond n c its stats evs = (ODone, chunks) ->
  exists vs, map parse_chunk chunks = map Some vs /\
    c14_holds (tx c) (suppress c) (map expect_of_item its)
              (map evx_of_atom (events_total c stats evs)) vs = true).
