(** Statement pins for C09. *)
From RsM Require Import Lib.MachInt Model.Dedup Model.Mrp Proofs.DedupFacts
  Proofs.MrpSys Proofs.MrpTheorems Proofs.MrpLive Model.MrpSender Proofs.MrpSender Props.C09.
From Coq Require Import Sorted.
Open Scope N_scope.

Check (C09_at_most_once : forall (c0 : N) (ops : list op),
  NoDup (b_delivered (run_sys (sys_init c0) ops))).
Check (C09_in_order : forall (c0 : N) (ops : list op),
  StronglySorted N.lt (b_delivered (run_sys (sys_init c0) ops))).
Check (C09_ok_implies_received_unless_overtaken : forall (c0 : N) (ops : list op) (c : N),
  let s := run_sys (sys_init c0) ops in
  In (c, true) (a_results s) -> In c (b_delivered s) \/ In c (b_overtaken s)).
Check (C09_gives_up_without_ack : forall (n : nat) (s : sys) (c k : N),
  a_retr s = Some (c, k) -> k <= 5 -> n = N.to_nat (6 - k) ->
  a_retr (timers n s) = None /\
  a_results (timers n s) = a_results s ++ [(c, false)]).
Check (C09_backoff_ge_jitter_free : forall base k j : N,
  backoff_ms base k 0 <= backoff_ms base k j).
Check (C09_one_copy_one_ack_suffice : forall (s : sys) (c k : N) (i : nat) (mid : list op),
  a_retr s = Some (c, k) -> nth_error (ab s) i = Some (c, Main) ->
  forallb keeps_acks mid = true -> k + ntimers mid <= 5 ->
  let s2 := run_sys (step s (Deliver i)) mid in
  exists j, nth_error (ba s2) j = Some (c, Main) /\
            a_retr (step s2 (DeliverAck j)) = None /\
            a_results (step s2 (DeliverAck j)) = a_results s2 ++ [(c, true)]).
Check (C09_sender_never_early : forall (bo : N -> N) (t0 : N) (es : list sev),
  let s := srun bo (snd_init t0) es in
  spaced bo (txs s) (cnt s) /\ N.of_nat (length (txs s)) <= MAX_TX).
Check (C09_acked_never_sent_again : forall (bo : N -> N) (s : sender_st) (es : list sev),
  ph s <> PInitial -> ph s <> PWantBuf true ->
  txs (srun bo (sstep bo s EvAck) es) = txs s).
