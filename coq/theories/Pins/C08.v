(** Statement pins for C08: the property theorems must have exactly these
    types, so they cannot be weakened silently. *)
From Coq Require Import NArith List Bool.
From RsM Require Import Model.Failsafe Model.FailsafeSpec
  Proofs.FailsafeOrder Proofs.FailsafeWitness Props.C08.
Import ListNotations.
Open Scope N_scope.

Check (C08_invariant :
  (forall w n f p, Inv (init_state w n f p)) /\
  (forall st o, Inv st -> good_op o -> orphaning st o = false -> Inv (fst (step st o)))).
Check (C08_rollback_exact :
  forall st0 s t bc ops r,
  Inv st0 -> s_fs st0 = Idle -> t <> 0 ->
  snd (step st0 (OArm s t bc)) = StOk ->
  let st1 := fst (step st0 (OArm s t bc)) in
  safe_run st1 ops -> nothing_stored st1 ops ->
  let st := exec st1 ops in
  rollback_op r -> snd (step st r) = StOk ->
  let st' := fst (step st r) in
  cfg_eq (s_fabs st') (s_fabs st0) /\ s_nets st' = s_nets st0 /\ s_bc st' = s_bc st0 /\
  s_kv st' = s_kv st0 /\ s_fs st' = Idle).
Check (C08_rollback_exact_outside_classes :
  forall st0 s t bc ops r,
  Inv st0 -> s_fs st0 = Idle -> t <> 0 ->
  snd (step st0 (OArm s t bc)) = StOk ->
  let st1 := fst (step st0 (OArm s t bc)) in
  in_scope st1 ops ->
  let st := exec st1 ops in
  rollback_op r -> snd (step st r) = StOk ->
  let st' := fst (step st r) in
  cfg_eq (s_fabs st') (s_fabs st0) /\ s_nets st' = s_nets st0 /\ s_bc st' = s_bc st0 /\
  s_kv st' = s_kv st0 /\ s_fs st' = Idle).
Check (C08_store_writers :
  forall st o, may_store st o = is_complete o || outside_write st o || vid_leak st o).
Check (C08_store_frozen_under_failsafe :
  forall st o, may_store st o = false -> s_kv (fst (step st o)) = s_kv st).
Check (C08_rollback_to_durable :
  forall st r,
  Inv st -> rollback_op r -> snd (step st r) = StOk ->
  let st' := fst (step st r) in
  s_fs st' = Idle /\ s_bc st' = 0 /\ ram_synced st' /\ s_kv st' = s_kv st).
Check (C08_rollback_drops_sessions :
  forall st c f fl,
  s_fs st = Armed f fl -> f <> 0 -> fget f (k_fabs (s_kv st)) = None ->
  sess_ctx (expire st c) (SC f) = None /\ fget f (s_fabs (expire st c)) = None).
Check (C08_commit_atomic :
  forall st s fault,
  Inv st -> fault <> 2 ->
  let st' := fst (step st (OComplete s fault)) in
  let r := snd (step st (OComplete s fault)) in
  (r = StOk /\ s_fs st' = Idle /\ s_bc st' = 0 /\ ram_synced st' /\
   s_fabs st' = s_fabs st /\ n_ids (s_nets st') = n_ids (s_nets st)) \/
  (r <> StOk /\ st' = st)).
Check (C08_committed_is_final :
  forall st s fault r,
  Inv st -> snd (step st (OComplete s fault)) = StOk ->
  let st' := fst (step st (OComplete s fault)) in
  rollback_op r -> snd (step st' r) = StOk ->
  let st'' := fst (step st' r) in
  cfg_eq (s_fabs st'') (s_fabs st') /\ s_nets st'' = s_nets st' /\ s_kv st'' = s_kv st' /\
  s_fs st'' = Idle).
Check (C08_power_loss_atomic :
  forall st s j,
  Inv st -> j <> 1 ->
  let st' := fst (step st (OCompleteCut s j)) in
  st' = fst (step st ORestart) \/
  (snd (step st (OComplete s 0)) = StOk /\
   st' = fst (step (fst (step st (OComplete s 0))) ORestart))).
Check (C08_context :
  forall st o s sfab p f fl,
  needs_ctx o = true -> sess_of o = Some s ->
  sess_ctx st s = Some (sfab, p) -> s_fs st = Armed f fl -> f <> sfab ->
  snd (step st o) <> StOk /\ fst (step st o) = st).
Check (C08_no_failsafe :
  forall st o,
  needs_ctx o = true -> s_fs st = Idle ->
  match o with OArm _ _ _ => True | _ => snd (step st o) <> StOk /\ fst (step st o) = st end).
Check (C08_order_sound :
  forall st o c,
  cred_of o = Some c -> snd (step st o) = StOk ->
  exists f fl f' fl',
    s_fs st = Armed f fl /\ spec_step fl c = Some fl' /\ s_fs (fst (step st o)) = Armed f' fl').
Check (C08_order_complete :
  forall st o c s sfab p fl fl',
  cred_of o = Some c -> sess_of o = Some s ->
  sess_ctx st s = Some (sfab, p) -> allowed st sfab p = true ->
  s_fs st = Armed sfab fl -> spec_step fl c = Some fl' ->
  side_conditions st c sfab p ->
  snd (step st o) = StOk).
Check (C08_flags_only_by_credential_commands :
  forall st o,
  cred_of o = None ->
  match s_fs (fst (step st o)) with
  | Idle => True
  | Armed _ fl' =>
    match s_fs st with
    | Idle => fl' = fl_empty
    | Armed _ fl => fl' = fl
    end
  end).
Check (C08_order_language :
  (forall w, spec_accepts w = true <-> In w spec_words) /\
  (forall f c f', spec_step f c = Some f' -> spec_step f' c = None)).
Check (C08_order_runs :
  forall ops st w,
  Inv st -> safe_run st ops -> tracked st w ->
  tracked (fst (track_run st w ops)) (snd (track_run st w ops)) /\
  In (snd (track_run st w ops)) spec_words).
Check (C08_partial_commit_witness :
  let staged := exec w_init (OArm SP 60 5 :: w_staging) in
  (let st := exec staged [OComplete (SC 2) 2; OTimeout] in
   s_fs st = Idle /\
   fget 2 (s_fabs st) = fget 2 (s_fabs staged) /\ fget 2 (s_fabs st) <> None /\
   fget 2 (k_fabs (s_kv st)) = fget 2 (s_fabs staged) /\
   s_nets st = s_nets w_init /\ s_nets staged <> s_nets w_init /\
   fget 2 (s_fabs w_init) = None) /\
  (let st := exec staged [OCompleteCut (SC 2) 1] in
   s_fs st = Idle /\
   fget 2 (s_fabs st) = fget 2 (s_fabs staged) /\ fget 2 (s_fabs st) <> None /\
   s_nets st = s_nets w_init /\ s_nets staged <> s_nets w_init /\
   fget 2 (s_fabs w_init) = None)).
Check (C08_context_switch_witness :
  (let st := exec w_init2 (w_switch ++ [OTimeout]) in
   s_fs st = Idle /\ fget 2 (s_fabs st) = None /\
   fget 1 (s_fabs st) <> fget 1 (k_fabs (s_kv st)) /\
   fget 1 (k_fabs (s_kv st)) = fget 1 (s_fabs w_init2)) /\
  ~ safe_run w_init2 w_switch).
Check (C08_vid_statement_witness :
  let st := exec w_init2 w_vid in
  s_fs st = Idle /\
  option_map f_acl (fget 1 (s_fabs st)) = Some [ADMIN; 5] /\
  option_map f_acl (fget 1 (k_fabs (s_kv st))) = Some [ADMIN; 5] /\
  option_map f_acl (fget 1 (s_fabs w_init2)) = Some [ADMIN] /\
  safe_run w_init2 w_vid /\ ~ nothing_stored w_init2 w_vid /\
  vid_leak (exec w_init2 [OArm (SC 1) 60 5; OAclW (SC 1) 5 false]) (OVid (SC 1) 65522 false) = true).
