(** Statement pins for C17: the headline theorems must have exactly these types. *)
From RsM Require Import Lib.MachInt Model.Headers Model.Codecs Model.CodecsSpec
  Proofs.HeadersFacts Proofs.CodecsManual Props.C17.
Open Scope N_scope.

Check (C17_plain_roundtrip : forall (h : plain_hdr) (rest : list N),
  plain_wf h = true -> plain_decode (plain_encode h ++ rest) = Ok (h, rest)).
Check (C17_plain_canonical : forall (b : list N) (h : plain_hdr) (rest : list N),
  bytes b -> plain_decode b = Ok (h, rest) ->
  b = plain_encode h ++ rest /\ plain_wf h = true /\ bytes rest).
Check (C17_plain_total : forall (h0 : plain_hdr) (b : list N),
  no_panic (plain_decode_from h0 b)).
Check (C17_proto_roundtrip : forall (h : proto_hdr) (rest : list N),
  proto_wf h = true -> proto_decode (proto_encode h ++ rest) = Ok (h, rest)).
Check (C17_proto_canonical : forall (b : list N) (h : proto_hdr) (rest : list N),
  bytes b -> proto_decode b = Ok (h, rest) ->
  b = proto_encode h ++ rest /\ proto_wf h = true /\ bytes rest).
Check (C17_proto_total : forall (h0 : proto_hdr) (b : list N),
  no_panic (proto_decode_from h0 b)).
Check (C17_b38_roundtrip : forall bs : list N,
  bytes bs -> b38_decode (b38_encode bs) = Ok bs).
Check (C17_b38_canonical : forall s bs : list N,
  b38_decode s = Ok bs -> b38_encode bs = s /\ bytes bs).
Check (C17_b38_total : forall s : list N, no_panic (b38_decode s)).
Check (C17_b38_rejects_bad_char : forall (s : list N) (c : N),
  In c s -> ~ In c B38_CHARS -> b38_decode s = Err E_INVDATA).
Check (C17_b38_rejects_noncanonical : forall s : list N,
  (forall bs, bytes bs -> b38_encode bs <> s) -> b38_decode s = Err E_INVDATA).
Check (C17_verhoeff_detects_substitution : forall (l1 l2 : list N) (a b : N),
  vh_validate (l1 ++ a :: l2) = true -> a <> b -> vh_validate (l1 ++ b :: l2) = false).
Check (C17_verhoeff_detects_transposition : forall (l1 l2 : list N) (a b : N),
  vh_validate (l1 ++ a :: b :: l2) = true -> a <> b ->
  vh_validate (l1 ++ b :: a :: l2) = false).
Check (C17_manual_roundtrip : forall (passcode disc : N) (code : list N),
  passcode < MAX_PASS -> disc < 4096 ->
  manual_encode passcode disc = Ok code ->
  manual_parse (map digit_char code) = Ok (mkManual false (disc / 256) passcode 0 0)).
Check (C17_manual_total : forall code : list N,
  (exists p, manual_parse code = Ok p) \/ manual_parse code = Err E_INVDATA).
Check (C17_manual_rejects_bad_check_digit : forall ds : list N,
  digits ds -> (length ds <= 21)%nat -> vh_validate ds = false ->
  manual_parse (map digit_char ds) = Err E_INVDATA).
Check (C17_qr_roundtrip : forall (p : qr_payload) (tail : list N),
  qr_valid p = true -> bytes tail -> qr_decode (qr_encode p tail) = Ok (p, tail)).
Check (C17_qr_total_in_range : forall s : list N,
  (exists p tail, qr_decode s = Ok (p, tail) /\ qr_valid p = true /\ bytes tail) \/
  qr_decode s = Err E_INVDATA).
Check (C17_status_report_roundtrip : forall r : status_report,
  sr_valid r = true -> sr_decode (sr_encode r) = Ok r).
