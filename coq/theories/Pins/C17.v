(** Statement pins for C17: the headline theorems must have exactly these types. *)
From RsM Require Import Lib.MachInt Model.Headers Model.Codecs Model.CodecsSpec
  Model.CodecsCheckin Model.CodecsBdx Model.CodecsBle Model.CodecsMdns Model.CodecsCertExt
  Proofs.HeadersFacts Proofs.CodecsManual Proofs.CodecsCheckinFacts Proofs.CodecsMdnsFacts Proofs.CodecsCertExtFacts Props.C17.
Open Scope N_scope.

Check (C17_plain_roundtrip : forall (h : plain_hdr) (rest : list N),
  plain_wf h = true -> plain_decode (plain_encode h ++ rest) = Ok (h, rest)).
Check (C17_plain_canonical : forall (b : list N) (h : plain_hdr) (rest : list N),
  bytes b -> plain_decode b = Ok (h, rest) ->
  b = plain_encode h ++ rest /\ plain_wf h = true /\ bytes rest).
Check (C17_plain_total : forall (h0 : plain_hdr) (b : list N),
  no_panic (plain_decode_from h0 b)).
Check (C17_proto_roundtrip : forall (h : proto_hdr) (rest : list N),
  proto_wf h = true -> proto_decode (proto_encode h ++ rest) = Ok (h, rest)).
Check (C17_proto_canonical : forall (b : list N) (h : proto_hdr) (rest : list N),
  bytes b -> proto_decode b = Ok (h, rest) ->
  b = proto_encode h ++ rest /\ proto_wf h = true /\ bytes rest).
Check (C17_proto_total : forall (h0 : proto_hdr) (b : list N),
  no_panic (proto_decode_from h0 b)).
Check (C17_b38_roundtrip : forall bs : list N,
  bytes bs -> b38_decode (b38_encode bs) = Ok bs).
Check (C17_b38_canonical : forall s bs : list N,
  b38_decode s = Ok bs -> b38_encode bs = s /\ bytes bs).
Check (C17_b38_total : forall s : list N, no_panic (b38_decode s)).
Check (C17_b38_rejects_bad_char : forall (s : list N) (c : N),
  In c s -> ~ In c B38_CHARS -> b38_decode s = Err E_INVDATA).
Check (C17_b38_rejects_noncanonical : forall s : list N,
  (forall bs, bytes bs -> b38_encode bs <> s) -> b38_decode s = Err E_INVDATA).
Check (C17_verhoeff_detects_substitution : forall (l1 l2 : list N) (a b : N),
  vh_validate (l1 ++ a :: l2) = true -> a <> b -> vh_validate (l1 ++ b :: l2) = false).
Check (C17_verhoeff_detects_transposition : forall (l1 l2 : list N) (a b : N),
  vh_validate (l1 ++ a :: b :: l2) = true -> a <> b ->
  vh_validate (l1 ++ b :: a :: l2) = false).
Check (C17_manual_roundtrip : forall (passcode disc : N) (code : list N),
  passcode < MAX_PASS -> disc < 4096 ->
  manual_encode passcode disc = Ok code ->
  manual_parse (map digit_char code) = Ok (mkManual false (disc / 256) passcode 0 0)).
Check (C17_manual_total : forall code : list N,
  (exists p, manual_parse code = Ok p) \/ manual_parse code = Err E_INVDATA).
Check (C17_manual_rejects_bad_check_digit : forall ds : list N,
  digits ds -> (length ds <= 21)%nat -> vh_validate ds = false ->
  manual_parse (map digit_char ds) = Err E_INVDATA).
Check (C17_qr_roundtrip : forall (p : qr_payload) (tail : list N),
  qr_valid p = true -> bytes tail -> qr_decode (qr_encode p tail) = Ok (p, tail)).
Check (C17_qr_total_in_range : forall s : list N,
  (exists p tail, qr_decode s = Ok (p, tail) /\ qr_valid p = true /\ bytes tail) \/
  qr_decode s = Err E_INVDATA).
Check (C17_status_report_roundtrip : forall r : status_report,
  sr_valid r = true -> sr_decode (sr_encode r) = Ok r).

Check (C17_checkin_roundtrip : forall nonce_of aead_enc aead_dec,
  aead_ideal nonce_of aead_enc aead_dec ->
  forall (cap : nat) (counter : N) (app p : list N),
  counter < two32 -> bytes app -> checkin_generate nonce_of aead_enc cap counter app = Ok p ->
  checkin_parse nonce_of aead_dec p = Ok (counter, app)).
Check (C17_checkin_canonical : forall nonce_of aead_enc aead_dec,
  aead_ideal nonce_of aead_enc aead_dec ->
  forall (p : list N) (c : N) (a : list N),
  checkin_parse nonce_of aead_dec p = Ok (c, a) ->
  c < two32 /\ bytes a /\ checkin_generate nonce_of aead_enc (length p) c a = Ok p).
Check (C17_checkin_total : forall nonce_of aead_enc aead_dec,
  aead_ideal nonce_of aead_enc aead_dec ->
  forall p : list N, no_panic (checkin_parse nonce_of aead_dec p)).
Check (C17_bdx_init_roundtrip : forall m : bdx_init,
  init_wf m = true -> init_decode (init_encode m) = Ok m).
Check (C17_bdx_init_total : forall b : list N, no_panic (init_decode b)).
Check (C17_bdx_accept_roundtrip : forall m : bdx_accept,
  accept_wf m = true -> accept_decode (a_receive m) (accept_encode m) = Ok m).
Check (C17_bdx_block_canonical : forall (b : list N) (ctr : N) (data : list N),
  bytes b -> block_decode b = Ok (ctr, data) ->
  b = block_encode ctr data /\ ctr < two32 /\ bytes data).
Check (C17_ble_adv_roundtrip : forall a : adv,
  adv_valid a = true ->
  adv_parse (adv_encode a) = Some a /\ adv_parse_service (adv_payload a) = Some a).
Check (C17_mdns_txt_roundtrip : forall kvs : list (list N * list N),
  Forall good_kv kvs -> txt_decode (txt_encode kvs) = kvs).
Check (C17_mdns_commissionable_record_roundtrip : forall a : comm_adv,
  comm_adv_valid a = true ->
  txt_decode (txt_encode (comm_txt a)) = comm_txt a /\
  txt_scan (comm_txt a) =
    mkTF (Some (ca_disc a)) (Some (ca_vid a)) (Some (ca_pid a)) (ca_dt a)
         (if ca_enhanced a then 2 else 1)).
Check (C17_mdns_hex_id_roundtrip : forall v : N,
  v < two64 -> parse_hex_u64 (hex16 v) = Some v).
Check (C17_cert_eku_roundtrip : forall ids : list N,
  eku_legal ids -> eku_read (eku_value ids) = Some ids).
Check (C17_cert_key_usage_roundtrip : forall k : N,
  k < 512 -> ku_read (ku_value k) = Some k).
