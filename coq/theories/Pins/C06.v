(** Statement pins for C06: the headline theorems must have exactly these
    types, so they cannot be weakened silently. *)
From RsM Require Import Lib.MachInt Model.Acl Model.AclSpec Model.Im Model.ImSpec Model.ImEvents.
From RsM Require Import Proofs.ImExpand Proofs.ImRun Proofs.ImSound Proofs.ImTheorems Proofs.ImResume Proofs.ImChunked Props.C06.
Open Scope N_scope.

Check (C06_request_exact :
  forall (fabs : list fabric) (who : accessor) (op : operation) (timed : bool)
         (flt : N -> N -> N -> bool) (ff : bool) (nd : node),
  wf_fabrics fabs = true -> wf_node nd = true ->
  forall (items : list item) (fuel : nat),
  (length (request_spec nd fabs who op timed flt items) < fuel)%nat ->
  expand_all fuel (mkEnv op who timed flt) ff (mkCfg nd fabs) [] items
  = RunDone (request_spec nd fabs who op timed flt items)
            (calls_of who op ff (request_spec nd fabs who op timed flt items))).
Check (C06_wildcard_exact :
  forall (fabs : list fabric) (who : accessor) (op : operation) (timed : bool)
         (flt : N -> N -> N -> bool) (ff : bool) (nd : node) (it : item) (fuel : nat),
  wf_fabrics fabs = true -> wf_node nd = true ->
  is_wildcard (it_path it) = true ->
  is_read op = true \/ (is_some (p_cl (it_path it)) = true /\ is_some (p_leaf (it_path it)) = true) ->
  (length (served nd fabs who op timed flt (it_path it)) < fuel)%nat ->
  expand_all fuel (mkEnv op who timed flt) ff (mkCfg nd fabs) [] [it]
  = RunDone (map (out_of (it_tag it)) (served nd fabs who op timed flt (it_path it)))
            (calls_of who op ff (map (out_of (it_tag it)) (served nd fabs who op timed flt (it_path it))))).
Check (C06_served_unfiltered :
  forall (nd : node) (fabs : list fabric) (who : accessor) (op : operation) (timed : bool) (p : gpath),
  served nd fabs who op timed (fun _ _ _ => true) p = permitted nd fabs who op timed p).
Check (C06_concrete_status :
  forall (fabs : list fabric) (who : accessor) (op : operation) (timed : bool)
         (flt : N -> N -> N -> bool) (ff : bool) (nd : node) (e c l : N) (tag : option N) (fuel : nat),
  wf_fabrics fabs = true -> wf_node nd = true -> (1 < fuel)%nat ->
  expand_all fuel (mkEnv op who timed flt) ff (mkCfg nd fabs) []
             [mkItem (mkPath (Some e) (Some c) (Some l)) tag]
  = match concrete_decision nd fabs who op timed flt e c l with
    | Served t => RunDone [out_of tag t] (calls_of who op ff [out_of tag t])
    | Refused s => RunDone [OStatus (mkPath (Some e) (Some c) (Some l)) tag s] []
    | Silent => RunDone [] []
    end).
Check (C06_concrete_served_permitted :
  forall (nd : node) (fabs : list fabric) (who : accessor) (op : operation) (timed : bool)
         (flt : N -> N -> N -> bool) (e c l : N) (t : cand),
  concrete_decision nd fabs who op timed flt e c l = Served t ->
  In t (all_leaves op nd) /\ cand_ids t = (e, c, l)
  /\ permitted_leaf fabs who op timed t = true /\ flt e c l = true).
Check (C06_served_permitted :
  forall (nd : node) (fabs : list fabric) (who : accessor) (op : operation) (timed : bool)
         (flt : N -> N -> N -> bool) (items : list item) (e c l : N) (tag : option N),
  In (OData e c l tag) (request_spec nd fabs who op timed flt items) ->
  exists it t, In it items /\ In t (all_leaves op nd) /\ cand_ids t = (e, c, l)
               /\ matches (it_path it) t = true /\ permitted_leaf fabs who op timed t = true).
Check (C06_engine_exact :
  forall (fuel max_paths : nat) (who : accessor) (nd : node) (fabs : list fabric) (rq : imreq),
  wf_node nd = true -> wf_fabrics fabs = true ->
  (length (spec_outs nd fabs who rq) < fuel)%nat ->
  im_handle fuel max_paths who (mkCfg nd fabs) [] rq = spec_response max_paths who nd fabs rq).
Check (C06_timed_gate :
  forall (win : option N) (flag : bool) (elapsed : N),
  timed_gate win flag elapsed = gate_spec win flag elapsed).
Check (C06_timed_window :
  forall (fuel max_paths : nat) (who : accessor) (c0 : config) (sw : list (nat * config))
         (rq : imreq) (outs : list out) (log : list hcall),
  im_handle fuel max_paths who c0 sw rq = RespItems outs log -> rq_op rq <> Read ->
  rq_flag rq = is_some (rq_win rq)
  /\ (rq_flag rq = true -> window_open (rq_win rq) (rq_elapsed rq) = true)).
Check (C06_timed_only :
  forall (fabs : list fabric) (who : accessor) (op : operation) (timed : bool) (t : cand),
  permitted_leaf fabs who op timed t = true -> op <> Read ->
  timed_only (l_access (snd t)) = true -> timed = true).
Check (C06_fabric_scoped :
  forall (fabs : list fabric) (who : accessor) (timed : bool) (t : cand),
  permitted_leaf fabs who Invoke timed t = true ->
  fabric_scoped (l_access (snd t)) = true -> a_fab who <> 0).
Check (C06_fabric_sensitive :
  forall (who : accessor) (op : operation) (ff : bool) (outs : list out) (h : hcall),
  In h (calls_of who op ff outs) ->
  hcall_fabric h = a_fab who /\
  (forall e c l f b, h = HRead e c l f b -> b = ff)).
Check (C06_resume_sound :
  forall (fuel max_paths : nat) (who : accessor) (c0 : config) (sw : list (nat * config))
         (rq : imreq) (outs : list out) (log : list hcall),
  forallb cfg_wf (c0 :: map snd sw) = true ->
  im_handle fuel max_paths who c0 sw rq = RespItems outs log ->
  served_sound c0 sw who (rq_op rq) (run_timed rq) 0 None outs = true
  /\ log = calls_of who (rq_op rq) (rq_ff rq) outs).
Check (C06_monitor_sound :
  forall (max_paths : nat) (who : accessor) (nd : node) (fabs : list fabric) (rq : imreq) (resp : imresp),
  wf_node nd = true -> wf_fabrics fabs = true ->
  holds max_paths who (mkCfg nd fabs) [] rq resp = true ->
  resp = spec_response max_paths who nd fabs rq).
Check (C06_resume_stable :
  forall (fabs : list fabric) (who : accessor) (op : operation) (timed : bool)
         (flt : N -> N -> N -> bool) (path : gpath) (fam : endpoint -> Prop)
         (nodes : list node) (ys : list (N * N * N)),
  wf_fabrics fabs = true -> is_wildcard path = true -> path_ok (mkEnv op who timed flt) path ->
  (forall e e', fam e -> fam e' -> ep_id e = ep_id e' -> e = e') ->
  (forall nd, In nd nodes -> good fam nd) ->
  drain (mkEnv op who timed flt) fabs path nodes (fresh None) ys ->
  Forall2 (fun nd y => exists t, cand_ids t = y /\ In t (served nd fabs who op timed flt path))
          (firstn (length ys) nodes) ys
  /\ NoDup ys
  /\ (forall t, (forall nd, In nd nodes -> In t (served nd fabs who op timed flt path)) ->
                In (cand_ids t) ys)).
Check (C06_chunked_exact :
  forall (fuel max_paths : nat) (who : accessor) (nd : node) (fabs : list fabric)
         (win : option N) (ff : bool) (chunks : list wchunk),
  wf_node nd = true -> wf_fabrics fabs = true ->
  (forall ch, In ch chunks -> (length (spec_outs nd fabs who (chunk_req win ff ch)) < fuel)%nat) ->
  write_chunked fuel max_paths who (mkCfg nd fabs) [] win ff chunks
  = spec_write_chunked max_paths who nd fabs win ff chunks).
Check (C06_chunked_timed_window :
  forall (fuel max_paths : nat) (who : accessor) (c0 : config) (sw : list (nat * config))
         (win : option N) (ff : bool) (chunks : list wchunk) (i : nat) (ch : wchunk)
         (outs : list out) (log : list hcall),
  nth_error chunks i = Some ch ->
  nth_error (write_chunked fuel max_paths who c0 sw win ff chunks) i = Some (RespItems outs log) ->
  ch_flag ch = is_some win /\ (ch_flag ch = true -> window_open win (ch_elapsed ch) = true)).
Check (C06_chunked_monitor_sound :
  forall (max_paths : nat) (who : accessor) (nd : node) (fabs : list fabric)
         (win : option N) (ff : bool) (chunks : list wchunk) (resps : list imresp),
  wf_node nd = true -> wf_fabrics fabs = true ->
  holds_chunked max_paths who (mkCfg nd fabs) [] win ff chunks resps = true ->
  resps = spec_write_chunked max_paths who nd fabs win ff chunks).
Check (C06_event_exact :
  forall (fabs : list fabric) (who : accessor) (nd : node),
  wf_fabrics fabs = true -> wf_node_events nd = true ->
  forall (paths : list gpath) (queue : list qevent),
  known_absent_event_no_status nd paths = false ->
  read_events fabs who nd paths queue = spec_read_events nd fabs who paths queue).
Check (C06_event_code_exact :
  forall (fabs : list fabric) (who : accessor) (nd : node),
  wf_fabrics fabs = true -> wf_node_events nd = true ->
  forall (paths : list gpath) (queue : list qevent),
  read_events fabs who nd paths queue = strip_known (spec_read_events nd fabs who paths queue)).
Check (C06_event_wildcard_exact :
  forall (fabs : list fabric) (who : accessor) (nd : node),
  wf_fabrics fabs = true -> wf_node_events nd = true ->
  forall (p : gpath) (queue : list qevent),
  is_wildcard p = true ->
  read_events fabs who nd [p] queue
  = RespItems (map event_out (permitted_events nd fabs who [p] queue)) []).
Check (C06_event_subscribe_exact :
  forall (fabs : list fabric) (who : accessor) (nd : node),
  wf_fabrics fabs = true -> wf_node_events nd = true ->
  forall (paths : list gpath) (queue : list qevent),
  subscribe_events fabs who nd paths queue = spec_subscribe_events nd fabs who paths queue).
Check (C06_event_fabric_sensitive :
  forall (fabs : list fabric) (who : accessor) (nd : node) (paths : list gpath)
         (queue : list qevent) (ev : qevent) (f : N),
  In ev (filter (event_reported fabs who nd paths) queue) -> qe_fab ev = Some f -> f = a_fab who).
Check (C06_group_members_only :
  forall (nd : node) (fabs : list fabric) (who : accessor) (op : operation) (timed : bool)
         (flt : N -> N -> N -> bool) (items : list item) (e c l : N) (tag : option N),
  In (OData e c l tag) (request_spec nd fabs who op timed flt items) ->
  spec_endpoint fabs who e = true).
