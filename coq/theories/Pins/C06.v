From RsM Require Import Lib.MachInt Model.Acl Model.AclSpec Model.Im Model.ImSpec Props.C06.
Open Scope N_scope.
Check (C06_timed_gate :
  forall (win : option N) (flag : bool) (elapsed : N),
  timed_gate win flag elapsed = gate_spec win flag elapsed).
