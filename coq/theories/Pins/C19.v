(** Statement pins for C19: the property theorems must have exactly these
    types, so they cannot be weakened silently. *)
From RsM Require Import Lib.MachInt Model.Cert Model.CertSpec
  Proofs.CertTheorems Props.C19.
Open Scope N_scope.

Check (C19_accept_iff_valid : forall (t : clock) (cs : list cert),
  N.of_nat (length cs) <= 256 ->
  (verify_chain t cs = Ok tt <-> chain_valid t cs)).
Check (C19_valid_means : forall (t : clock) (cs : list cert),
  chain_valid t cs <->
  (cs <> [] /\ forall r l, In l (links cs) -> rule_meaning t r l)).
Check (C19_monitor_is_spec : forall (t : clock) (cs : list cert),
  chain_validb t cs = true <-> chain_valid t cs).
Check (C19_each_rule_enforced : forall r : rule,
  exists (t : clock) (good bad : list cert),
    length good = length bad /\
    verify_chain t good = Ok tt /\
    verify_chain t bad <> Ok tt /\
    rule_holds t r bad = false /\
    (forall r', r' <> r -> rule_holds t r' bad = true)).
Check (C19_case_admits_iff_valid : forall t fid root noc icac n,
  case_admit t fid root noc icac = Ok n <->
  (case_valid t fid root noc icac /\ get_node_id noc = Some n)).
Check (C19_install_checks : forall t fabrics csr admin fabric_id root noc icac,
  ((exists out, add_noc t fabrics csr admin root noc icac = Ok out) <->
   (chain_valid t (noc :: opt_list icac ++ [root]) /\ icac_separate icac = true /\
    pubkey noc = csr /\
    (exists fid, get_fabric_id noc = Some fid /\ fabric_exists fabrics fid (pubkey root) = false) /\
    (is_node admin = true \/ is_noc_cat admin = true))) /\
  ((exists out, update_noc t fabric_id csr root noc icac = Ok out) <->
   (chain_valid t (noc :: opt_list icac ++ [root]) /\ icac_separate icac = true /\
    pubkey noc = csr /\ get_fabric_id noc = Some fabric_id))).
Check (C19_root_accepted_iff : forall t root,
  add_root t root = Ok tt <-> root_validb t root = true).
