(** Pinned statements of the C20 property theorems. *)
From RsM Require Import Lib.MachInt Model.Slots Model.SlotsSpec Proofs.SlotsFacts Proofs.SlotsEvict Proofs.SlotsRdv
  Proofs.SlotsExch Proofs.SlotsExchNode Proofs.SlotsSweep Proofs.SlotsProbe Props.C20.
Open Scope N_scope.

Check (C20_reserved_matches_handles : forall (cap mx : nat) (ops : list op),
  2 * N.of_nat (length ops) <= UID_MAX ->
  let s := run cap mx st_init ops in
  NoDup (ids (tb s)) /\ NoDup (hids s) /\ (length (t_sess (tb s)) <= cap)%nat /\
  (forall x, In x (t_sess (tb s)) -> (s_reserved x = true <-> In (s_id x) (hids s))) /\
  n_reserved (tb s) = n_present_handles s).

Check (C20_quiescent_clean : forall (cap mx : nat) (ops : list nop),
  8 * N.of_nat (length ops) <= UID_MAX ->
  let n := nrun cap mx node_init ops in
  atts n = [] ->
  hs (core n) = [] /\ (forall x, In x (t_sess (tb (core n))) -> s_reserved x = false) /\
  n_reserved (tb (core n)) = 0).

Check (C20_evict_only_idle : forall (now : N) (t : tbl) (i : nat),
  evict_choice now t = Some i ->
  exists x, nth_error (t_sess t) i = Some x /\ idle now x = true).

Check (C20_busy_sessions_survive : forall (cap mx : nat) (s : st) (now : N) (y : session),
  In y (t_sess (tb s)) -> s_reserved y = true \/ no_exch y = false ->
  In y (t_sess (tb (fst (step cap mx s (OEvict now))))) /\
  In y (t_sess (tb (fst (step cap mx s (OReserve now)))))).

Check (C20_recovers : forall (cap mx : nat) (ops : list op) (now : N),
  2 * N.of_nat (length ops) + 2 <= UID_MAX -> (0 < cap)%nat ->
  let s := run cap mx st_init ops in
  (exists x, In x (t_sess (tb s)) /\ idle now x = true) \/ (length (t_sess (tb s)) < cap)%nat ->
  exists id, snd (step cap mx s (OReserve now)) = RId id /\
    In (mkS id MPlain true false now []) (t_sess (tb (fst (step cap mx s (OReserve now))))) /\
    In id (hids (fst (step cap mx s (OReserve now))))).

Check (C20_rendezvous_released : forall (ops : list rop) (o : N),
  let s := rrun rsys_init ops in
  owner (r_slot s) = Some o ->
  (exists r, In r (r_reqs s) /\ rq_id r = o /\ rq_phase r = PPlaced) /\
  r_slot (fst (rstep s (RTimeout o))) = RvIdle /\
  r_slot (fst (rstep s (RCancel o))) = RvIdle).

Check (C20_rendezvous_quiescent_idle : forall (ops : list rop),
  let s := rrun rsys_init ops in r_reqs s = [] -> r_slot s = RvIdle).

Check (C20_late_deposit_noop : forall (s : rsys) (svc : N) (hasaddr : bool),
  (r_slot s = RvIdle \/ (exists o v, r_slot s = RvRequested o v) \/
   (exists o v, r_slot s = RvInFlight o v /\ (v <> svc \/ hasaddr = false))) ->
  rstep s (RDeposit svc hasaddr) = (s, RNone)).

Check (C20_exchange_slots_owned : forall (cap mx : nat) (ops : list nop),
  8 * N.of_nat (length ops) <= UID_MAX ->
  let n := nrun cap mx node_init ops in
  forall sid xi v, slot_live (Some v) = true -> lslot (nl n) sid xi v ->
    exists a, In a (atts n) /\ a_sess a = sid /\ a_xi a = xi /\ (a_stage a = 0 <-> v = XPending)).

Check (C20_quiescent_all_slots_free : forall (cap mx : nat) (ops : list nop) (k : nat) (now : N),
  8 * N.of_nat (length ops + k) <= UID_MAX ->
  let n := nrun cap mx node_init ops in
  atts n = [] -> app_closed (nl n) -> (dcount (nl n) <= k)%nat ->
  let n' := sweeps cap mx k now n in
  forall s, In s (nl n') -> s_reserved s = false /\ forall e, In e (s_exch s) -> e = None).

Check (C20_sweep_decreases : forall (cap mx : nat) (s : st) (now : N),
  NoDup (ids (tb s)) -> (0 < dcount (t_sess (tb s)))%nat ->
  (dcount (after_sweep cap mx s now) < dcount (t_sess (tb s)))%nat).

Check (C20_handshake_gets_both_slots : forall (cap mx : nat) (ops : list nop) (k : hkind) (now : N),
  8 * N.of_nat (length ops) + 24 <= UID_MAX ->
  let n := nrun cap mx node_init ops in
  room2 cap now (nl n) ->
  (k = HPase -> marker_live now (marker n) = None) ->
  exists n1 a, first_msg cap mx k now n = (n1, Some a) /\
               snd (nstep cap mx n1 (NAccept a VGood now)) = ROk).
