(** Statement pins for C01: the property theorems must have exactly these types, so they cannot be
    weakened silently. *)
From RsM Require Import Lib.MachInt Model.Cert Model.CertSpec Model.Case Model.CaseSpec
  Proofs.CaseFacts Proofs.CaseResponder Proofs.CaseInitiator Proofs.CaseHistory Proofs.CaseBinding
  Proofs.CaseMonitor Proofs.CaseWitness Props.C01.
Open Scope N_scope.

Check (C01_responder_sound : forall st fr ms st' rs' out,
  node_wf st -> resp_run st RIdle fr ms = (st', rs', out) ->
  same_frame st st' /\ sessions_wf st' /\
  (   (n_sessions st' = n_sessions st /\ n_cache st' = n_cache st /\ resp_abort st' rs' = st')
   \/ (exists x, n_sessions st' = n_sessions st ++ [x] /\ s_reserved x = true /\
                 n_cache st' = n_cache st /\ n_sessions (resp_abort st' rs') = n_sessions st)
   \/ (exists s m1 m3 rest rid sec f,
         ms = m1 :: m3 :: rest /\ n_sessions st' = n_sessions st ++ [s] /\ rs' = RDone /\
         responder_full_sound st fr m1 m3 s /\
         get_fabric (s_fab s) (n_fabrics st) = Some f /\
         n_cache st' = insert_or_update (n_cache st) (mkRecord (s_fab s) (s_peer s) (s_cats s) rid sec))
   \/ (exists s m1 mf rest r new_rid,
         ms = m1 :: mf :: rest /\ n_sessions st' = n_sessions st ++ [s] /\ rs' = RDone /\
         responder_resume_sound st m1 s /\ m_op mf = OP_STATUS /\ status_is_success mf = Ok true /\
         In r (n_cache st) /\ s_fab s = r_fab r /\ s_peer s = r_peer r /\ s_cats s = r_cats r /\
         n_cache st' = insert_or_update (n_cache st)
                         (mkRecord (r_fab r) (r_peer r) (r_cats r) new_rid (r_secret r))))).
Check (C01_initiator_sound : forall st fr fab peer ms st' s' out,
  node_wf st ->
  init_run (io_node (init_start st fr fab peer)) (io_state (init_start st fr fab peer)) ms = (st', s', out) ->
  same_frame st st' /\ sessions_wf st' /\
  (   (n_sessions st' = n_sessions st /\ n_cache st' = n_cache st /\ s' = IDone false)
   \/ (exists x, n_sessions st' = n_sessions st ++ [x] /\ s_reserved x = true /\
                 n_cache st' = n_cache st /\ n_sessions (init_abort st' s') = n_sessions st /\
                 init_sent st' s' true = (st', s') /\ init_sent st' s' false = (st', s'))
   \/ (exists s m1 m2 mst rest rid sec,
         io_msgs (init_start st fr fab peer) = [m1] /\ ms = m2 :: mst :: rest /\
         n_sessions st' = n_sessions st ++ [s] /\ s' = IDone true /\
         initiator_full_sound st fr fab peer m1 m2 s /\
         m_op mst = OP_STATUS /\ status_is_success mst = Ok true /\
         n_cache st' = insert_or_update (n_cache st) (mkRecord (s_fab s) (s_peer s) (s_cats s) rid sec))
   \/ (exists s m2 rest r new_rid,
         ms = m2 :: rest /\ n_sessions st' = n_sessions st ++ [s] /\
         s' = IFinishing r new_rid /\ find_by_peer (n_cache st) fab peer = Some r /\
         initiator_resume_sound st fr fab peer m2 s /\ n_cache st' = n_cache st))).
Check (C01_sessions_and_records_backed : forall acts st,
  node_wf st -> node_backed st ->
  node_wf (fold_left do_activity acts st) /\ node_backed (fold_left do_activity acts st) /\
  same_frame st (fold_left do_activity acts st)).
Check (C01_resume_sound : forall st0 acts m1 s,
  node_wf st0 -> node_backed st0 ->
  let st := fold_left do_activity acts st0 in
  responder_resume_sound st m1 s ->
  sess_backed st s /\
  exists r, In r (n_cache st) /\ s_fab s = r_fab r /\ s_peer s = r_peer r /\ s_cats s = r_cats r /\
            record_backed st r).
Check (C01_transcript_binding_partial : forall a b fra frb fab peer m1 m1' m2' m3' sa sb,
  initiator_full_sound a fra fab peer m1 m2' sa ->
  responder_full_sound b frb m1' m3' sb ->
  tbe2_from_responder b frb m1' m2' ->
  tbe3_from_initiator a fra fab m1 m2' m3' ->
  exists fa fb q rpub,
    get_fabric fab (n_fabrics a) = Some fa /\ parse_sigma1 m1' = Ok q /\
    get_by_dest_id (n_fabrics b) (g1_random q) (g1_dest q) = Some fb /\
    get_req m2' 3 KBytes = Ok rpub /\
    let m2 := build_sigma2 fb frb (g1_pub q) (msg_term m1') in
    let m3 := initiator_sigma3 fa fra rpub m1 m2' in
    msg_term m1' = msg_term m1 /\ msg_term m2' = msg_term m2 /\
    s_fab sa = fab /\ s_peer sa = peer /\ get_node_id (f_noc fb) = Some peer /\ cats_of (f_noc fb) = Ok (s_cats sa) /\
    s_fab sb = f_idx fb /\ get_node_id (f_noc fa) = Some (s_peer sb) /\ cats_of (f_noc fa) = Ok (s_cats sb) /\
    ((s_enc sa = s_dec sb /\ s_dec sa = s_enc sb) <-> msg_term m3' = msg_term m3)).
Check (C01_resume_binding_partial : forall a b fra fab peer m1' m2' sa sb,
  initiator_resume_sound a fra fab peer m2' sa ->
  responder_resume_sound b m1' sb ->
  mic1_from_initiator a fra fab peer m1' ->
  exists q ra rb,
    parse_sigma1 m1' = Ok q /\ find_by_peer (n_cache a) fab peer = Some ra /\ In rb (n_cache b) /\
    g1_random q = TNonce (fr_rand fra) /\ r_secret rb = r_secret ra /\ r_rid rb = r_rid ra /\
    s_fab sa = r_fab ra /\ s_peer sa = r_peer ra /\ s_cats sa = r_cats ra /\
    s_fab sb = r_fab rb /\ s_peer sb = r_peer rb /\ s_cats sb = r_cats rb /\
    s_enc sa = s_dec sb /\ s_dec sa = s_enc sb).
Check (C01_known_class_inhabited :
  let p := handshake append_to_sigma3 w_a w_b w_fra w_frb 1 8738 in
  match outcome p, p_wire p with
  | (true, [sa], [sb]), [_; _; (_, m3); _] =>
      negb (s_reserved sa) && negb (s_reserved sb) &&
      negb (term_eqb (s_enc sa) (s_dec sb)) &&
      match append_to_sigma3 0 1 m3 with Some m3' => sigma3_alt m3 m3' | None => false end
  | _, _ => false
  end = true).
Check (C01_monitor_means : forall al_i al_r s3alt base o,
  monitor_run al_i al_r s3alt base o = [] ->
  (forall s rest, o_r o = s :: rest -> al_r = Some (ident_of s)) /\
  (forall s rest, o_i o = s :: rest -> al_i = Some (ident_of s)) /\
  (forall a ra b rb, o_i o = a :: ra -> o_r o = b :: rb -> o_enc a = o_dec b /\ o_dec a = o_enc b) /\
  o_left o = 0 /\
  (forall bo, base = Some bo ->
     (forall s rest, o_i o = s :: rest -> exists s0 rest0, o_i bo = s0 :: rest0 /\ ident_of s = ident_of s0) /\
     (forall s rest, o_r o = s :: rest -> exists s0 rest0, o_r bo = s0 :: rest0 /\ ident_of s = ident_of s0)) /\
  (length (o_i o) <= 1)%nat /\ (length (o_r o) <= 1)%nat).
