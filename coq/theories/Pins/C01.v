(** Statement pins for C01: the property theorems must have exactly these types, so they cannot be
    weakened silently. *)
From RsM Require Import Lib.MachInt Model.Cert Model.CertSpec Model.Case Model.CaseSpec
  Proofs.CaseFacts Proofs.CaseResponder Proofs.CaseInitiator Proofs.CaseHistory Proofs.CaseBinding
  Proofs.CaseMonitor Proofs.CaseWitness Model.CaseDY Proofs.CaseDYFacts Proofs.CaseDYOutputs Proofs.CaseDYBinding
  Proofs.CaseDYWitness Props.C01.
Open Scope N_scope.

Check (C01_responder_sound : forall st fr ms st' rs' out,
  node_wf st -> resp_run st RIdle fr ms = (st', rs', out) ->
  same_frame st st' /\ sessions_wf st' /\
  (   (n_sessions st' = n_sessions st /\ n_cache st' = n_cache st /\ resp_abort st' rs' = st')
   \/ (exists x, n_sessions st' = n_sessions st ++ [x] /\ s_reserved x = true /\
                 n_cache st' = n_cache st /\ n_sessions (resp_abort st' rs') = n_sessions st)
   \/ (exists s m1 m3 rest rid sec f,
         ms = m1 :: m3 :: rest /\ n_sessions st' = n_sessions st ++ [s] /\ rs' = RDone /\
         responder_full_sound st fr m1 m3 s /\
         get_fabric (s_fab s) (n_fabrics st) = Some f /\
         n_cache st' = insert_or_update (n_cache st) (mkRecord (s_fab s) (s_peer s) (s_cats s) rid sec))
   \/ (exists s m1 mf rest r new_rid,
         ms = m1 :: mf :: rest /\ n_sessions st' = n_sessions st ++ [s] /\ rs' = RDone /\
         responder_resume_sound st m1 s /\ m_op mf = OP_STATUS /\ status_is_success mf = Ok true /\
         In r (n_cache st) /\ s_fab s = r_fab r /\ s_peer s = r_peer r /\ s_cats s = r_cats r /\
         n_cache st' = insert_or_update (n_cache st)
                         (mkRecord (r_fab r) (r_peer r) (r_cats r) new_rid (r_secret r))))).
Check (C01_initiator_sound : forall st fr fab peer ms st' s' out,
  node_wf st ->
  init_run (io_node (init_start st fr fab peer)) (io_state (init_start st fr fab peer)) ms = (st', s', out) ->
  same_frame st st' /\ sessions_wf st' /\
  (   (n_sessions st' = n_sessions st /\ n_cache st' = n_cache st /\ s' = IDone false)
   \/ (exists x, n_sessions st' = n_sessions st ++ [x] /\ s_reserved x = true /\
                 n_cache st' = n_cache st /\ n_sessions (init_abort st' s') = n_sessions st /\
                 init_sent st' s' true = (st', s') /\ init_sent st' s' false = (st', s'))
   \/ (exists s m1 m2 mst rest rid sec,
         io_msgs (init_start st fr fab peer) = [m1] /\ ms = m2 :: mst :: rest /\
         n_sessions st' = n_sessions st ++ [s] /\ s' = IDone true /\
         initiator_full_sound st fr fab peer m1 m2 s /\
         m_op mst = OP_STATUS /\ status_is_success mst = Ok true /\
         n_cache st' = insert_or_update (n_cache st) (mkRecord (s_fab s) (s_peer s) (s_cats s) rid sec))
   \/ (exists s m2 rest r new_rid,
         ms = m2 :: rest /\ n_sessions st' = n_sessions st ++ [s] /\
         s' = IFinishing r new_rid /\ find_by_peer (n_cache st) fab peer = Some r /\
         initiator_resume_sound st fr fab peer m2 s /\ n_cache st' = n_cache st))).
Check (C01_sessions_and_records_backed : forall acts st,
  node_wf st -> node_backed st ->
  node_wf (fold_left do_activity acts st) /\ node_backed (fold_left do_activity acts st) /\
  same_frame st (fold_left do_activity acts st)).
Check (C01_resume_sound : forall st0 acts m1 s,
  node_wf st0 -> node_backed st0 ->
  let st := fold_left do_activity acts st0 in
  responder_resume_sound st m1 s ->
  sess_backed st s /\
  exists r, In r (n_cache st) /\ s_fab s = r_fab r /\ s_peer s = r_peer r /\ s_cats s = r_cats r /\
            record_backed st r).
Check (C01_session_supersedes_records : forall st fr ms st' rs' out s,
  node_wf st -> resp_run st RIdle fr ms = (st', rs', out) ->
  n_sessions st' = n_sessions st ++ [s] -> s_reserved s = false ->
  forall x, In x (n_cache st') -> r_fab x = s_fab s -> r_peer x = s_peer s -> r_cats x = s_cats s).
Check (C01_initiator_session_supersedes_records : forall st fr fab peer ms st' out s,
  node_wf st ->
  init_run (io_node (init_start st fr fab peer)) (io_state (init_start st fr fab peer)) ms = (st', IDone true, out) ->
  n_sessions st' = n_sessions st ++ [s] ->
  forall x, In x (n_cache st') -> r_fab x = s_fab s -> r_peer x = s_peer s -> r_cats x = s_cats s).
Check (C01_transcript_binding_partial : forall a b fra frb fab peer m1 m1' m2' m3' sa sb,
  initiator_full_sound a fra fab peer m1 m2' sa ->
  responder_full_sound b frb m1' m3' sb ->
  tbe2_from_responder b frb m1' m2' ->
  tbe3_from_initiator a fra fab m1 m2' m3' ->
  exists fa fb q rpub,
    get_fabric fab (n_fabrics a) = Some fa /\ parse_sigma1 m1' = Ok q /\
    get_by_dest_id (n_fabrics b) (g1_random q) (g1_dest q) = Some fb /\
    get_req m2' 3 KBytes = Ok rpub /\
    let m2 := build_sigma2 fb frb (g1_pub q) (msg_term m1') in
    let m3 := initiator_sigma3 fa fra rpub m1 m2' in
    msg_term m1' = msg_term m1 /\ msg_term m2' = msg_term m2 /\
    s_fab sa = fab /\ s_peer sa = peer /\ get_node_id (f_noc fb) = Some peer /\ cats_of (f_noc fb) = Ok (s_cats sa) /\
    s_fab sb = f_idx fb /\ get_node_id (f_noc fa) = Some (s_peer sb) /\ cats_of (f_noc fa) = Ok (s_cats sb) /\
    ((s_enc sa = s_dec sb /\ s_dec sa = s_enc sb) <-> msg_term m3' = msg_term m3)).
Check (C01_resume_binding_partial : forall a b fra fab peer m1' m2' sa sb,
  initiator_resume_sound a fra fab peer m2' sa ->
  responder_resume_sound b m1' sb ->
  mic1_from_initiator a fra fab peer m1' ->
  exists q ra rb,
    parse_sigma1 m1' = Ok q /\ find_by_peer (n_cache a) fab peer = Some ra /\ In rb (n_cache b) /\
    g1_random q = TNonce (fr_rand fra) /\ r_secret rb = r_secret ra /\ r_rid rb = r_rid ra /\
    s_fab sa = r_fab ra /\ s_peer sa = r_peer ra /\ s_cats sa = r_cats ra /\
    s_fab sb = r_fab rb /\ s_peer sb = r_peer rb /\ s_cats sb = r_cats rb /\
    s_enc sa = s_dec sb /\ s_dec sa = s_enc sb).
Check (C01_dy_secrecy :
  forall (SN SK : list N) (K : knowledge),
  (forall t : term, K t -> guarded SN SK t) -> forall t : term, derivable K t -> guarded SN SK t).
Check (C01_dy_origin :
  forall (SN SK : list N) (K : knowledge),
  (forall t : term, K t -> guarded SN SK t) ->
  forall t : term,
  derivable K t ->
  forall k n pt : term,
  ~ guarded SN SK k -> sub (TAead k n pt) t -> exists t0 : term, K t0 /\ sub (TAead k n pt) t0).
Check (C01_run_guarded :
  forall (K0 : knowledge) (SK : list N) (ipk : N) (fa : fabric) (r : dy_run),
  dy_world K0 SK ipk fa r ->
  forall t : term, derivable (know5 K0 r) t -> guarded (secret_nonces ipk r) SK t).
Check (C01_secrets_not_derivable :
  forall (K0 : knowledge) (SK : list N) (ipk : N) (fa : fabric) (r : dy_run),
  dy_world K0 SK ipk fa r ->
  ~ derivable (know5 K0 r) (TNonce ipk) /\
  ~ derivable (know5 K0 r) (TNonce (fr_eph (dr_fra r))) /\
  ~ derivable (know5 K0 r) (TNonce (fr_eph (dr_frb r))) /\
  (forall k : N, In k SK -> ~ derivable (know5 K0 r) (TKey k)) /\
  (forall x y z : term, ~ derivable (know5 K0 r) (THkdf (TPair (TNonce ipk) x) y z))).
Check (C01_tbe2_from_responder :
  forall (K0 : knowledge) (SK : list N) (ipk : N) (fa : fabric) (r : dy_run),
  dy_world K0 SK ipk fa r ->
  forall (m2' : msg) (rr rpub sh pt : term),
  msg_derivable (know1 K0 r) (dr_m1 r) ->
  msg_derivable (know2 K0 r) m2' ->
  get_req m2' 4 KBytes =
  Ok
    (TAead
       (s2k (TNonce ipk) rr rpub
          (h1 (msg_term (sigma1_of (dr_a r) (dr_fra r) (dr_fab r) (dr_peer r) fa))) sh)
       (TNum NONCE_S2) pt) ->
  exists (q : sigma1) (f : fabric),
    parse_sigma1 (dr_m1 r) = Ok q /\
    get_by_dest_id (n_fabrics (dr_b r)) (g1_random q) (g1_dest q) = Some f /\
    ro_msgs (run_r1 r) = [build_sigma2 f (dr_frb r) (g1_pub q) (msg_term (dr_m1 r))] /\
    get_req (build_sigma2 f (dr_frb r) (g1_pub q) (msg_term (dr_m1 r))) 4 KBytes =
    Ok
      (TAead
         (s2k (TNonce ipk) rr rpub
            (h1 (msg_term (sigma1_of (dr_a r) (dr_fra r) (dr_fab r) (dr_peer r) fa))) sh)
         (TNum NONCE_S2) pt)).
Check (C01_tbe3_from_initiator :
  forall (K0 : knowledge) (SK : list N) (ipk : N) (fa : fabric) (r : dy_run),
  dy_world K0 SK ipk fa r ->
  forall (fb : fabric) (q : sigma1) (sh pt : term),
  f_ipk fb = TNonce ipk ->
  msg_derivable (know1 K0 r) (dr_m1 r) ->
  msg_derivable (know2 K0 r) (dr_m2 r) ->
  msg_derivable (know3 K0 r) (dr_m3 r) ->
  get_req (dr_m3 r) 1 KBytes =
  Ok
    (TAead
       (s3k (TNonce ipk)
          (h12 (msg_term (dr_m1 r))
             (msg_term (build_sigma2 fb (dr_frb r) (g1_pub q) (msg_term (dr_m1 r))))) sh)
       (TNum NONCE_S3) pt) ->
  exists (rr rpub : term) (noc : cert) (icac : option cert) (sig rid : term) 
  (cats : list N),
    io_msgs (run_i2 r) =
    [build_sigma3 fa (TPub (TNonce (fr_eph (dr_fra r)))) rpub
       (msg_term (sigma1_of (dr_a r) (dr_fra r) (dr_fab r) (dr_peer r) fa)) 
       (msg_term (dr_m2 r)) (dh (TNonce (fr_eph (dr_fra r))) rpub)] /\
    get_req (dr_m2 r) 1 KBytes = Ok rr /\
    get_req (dr_m2 r) 3 KBytes = Ok rpub /\
    get_req (dr_m2 r) 4 KBytes =
    Ok
      (TAead
         (s2k (TNonce ipk) rr rpub
            (h1 (msg_term (sigma1_of (dr_a r) (dr_fra r) (dr_fab r) (dr_peer r) fa)))
            (dh (TNonce (fr_eph (dr_fra r))) rpub)) (TNum NONCE_S2) (tbe2_plain noc icac sig rid)) /\
    case_valid (n_clock (dr_a r)) (f_fid fa) (f_root fa) noc icac /\
    get_node_id noc = Some (dr_peer r) /\
    cats_of noc = Ok cats /\
    sig = TSig (TKey (pubkey noc)) (tbs noc icac rpub (TPub (TNonce (fr_eph (dr_fra r))))) /\
    get_req
      (build_sigma3 fa (TPub (TNonce (fr_eph (dr_fra r)))) rpub
         (msg_term (sigma1_of (dr_a r) (dr_fra r) (dr_fab r) (dr_peer r) fa)) 
         (msg_term (dr_m2 r)) (dh (TNonce (fr_eph (dr_fra r))) rpub)) 1 KBytes =
    Ok
      (TAead
         (s3k (TNonce ipk)
            (h12 (msg_term (dr_m1 r))
               (msg_term (build_sigma2 fb (dr_frb r) (g1_pub q) (msg_term (dr_m1 r))))) sh)
         (TNum NONCE_S3) pt)).
Check (C01_transcript_binding :
  forall (K0 : knowledge) (SK : list N) (ipk : N) (fa : fabric) (r : dy_run),
  dy_world K0 SK ipk fa r ->
  forall sb : session,
  node_wf (dr_a r) ->
  node_wf (dr_b r) ->
  attacker_sends K0 r ->
  initiator_completed r ->
  responder_completed r sb ->
  exists (sa : session) (fb : fabric) (q : sigma1) (rpub : term),
    n_sessions (io_node (run_i3 r)) = n_sessions (dr_a r) ++ [sa] /\
    parse_sigma1 (dr_m1 r) = Ok q /\
    get_by_dest_id (n_fabrics (dr_b r)) (g1_random q) (g1_dest q) = Some fb /\
    get_req (dr_m2 r) 3 KBytes = Ok rpub /\
    (let m2 := build_sigma2 fb (dr_frb r) (g1_pub q) (msg_term (dr_m1 r)) in
     let m3 :=
       initiator_sigma3 fa (dr_fra r) rpub (sigma1_of (dr_a r) (dr_fra r) (dr_fab r) (dr_peer r) fa)
         (dr_m2 r) in
     io_msgs (run_i1 r) = [sigma1_of (dr_a r) (dr_fra r) (dr_fab r) (dr_peer r) fa] /\
     ro_msgs (run_r1 r) = [m2] /\
     io_msgs (run_i2 r) = [m3] /\
     msg_term (dr_m1 r) = msg_term (sigma1_of (dr_a r) (dr_fra r) (dr_fab r) (dr_peer r) fa) /\
     msg_term (dr_m2 r) = msg_term m2 /\
     get_req (dr_m3 r) 1 KBytes = get_req m3 1 KBytes /\
     f_ipk fb = TNonce ipk /\
     s_fab sa = dr_fab r /\
     s_peer sa = dr_peer r /\
     get_node_id (f_noc fb) = Some (dr_peer r) /\
     cats_of (f_noc fb) = Ok (s_cats sa) /\
     s_fab sb = f_idx fb /\
     get_node_id (f_noc fa) = Some (s_peer sb) /\
     cats_of (f_noc fa) = Ok (s_cats sb) /\
     (s_enc sa = s_dec sb /\ s_dec sa = s_enc sb <-> msg_term (dr_m3 r) = msg_term m3) /\
     (msg_term (dr_m3 r) <> msg_term m3 -> sigma3_alt m3 (dr_m3 r) = true) /\
     ~ derivable (know5 K0 r) (s_enc sa) /\
     ~ derivable (know5 K0 r) (s_dec sa) /\
     ~ derivable (know5 K0 r) (s_enc sb) /\ ~ derivable (know5 K0 r) (s_dec sb))).
Check (C01_initiator_only :
  forall (K0 : knowledge) (SK : list N) (ipk : N) (fa : fabric) (r : dy_run),
  dy_world K0 SK ipk fa r ->
  node_wf (dr_a r) ->
  msg_derivable (know1 K0 r) (dr_m1 r) ->
  msg_derivable (know2 K0 r) (dr_m2 r) ->
  initiator_completed r ->
  exists (sa : session) (fb : fabric) (q : sigma1) (rpub : term),
    n_sessions (io_node (run_i3 r)) = n_sessions (dr_a r) ++ [sa] /\
    s_reserved sa = false /\
    parse_sigma1 (dr_m1 r) = Ok q /\
    get_by_dest_id (n_fabrics (dr_b r)) (g1_random q) (g1_dest q) = Some fb /\
    get_req (dr_m2 r) 3 KBytes = Ok rpub /\
    (let m2 := build_sigma2 fb (dr_frb r) (g1_pub q) (msg_term (dr_m1 r)) in
     let m3 :=
       initiator_sigma3 fa (dr_fra r) rpub (sigma1_of (dr_a r) (dr_fra r) (dr_fab r) (dr_peer r) fa)
         (dr_m2 r) in
     ro_msgs (run_r1 r) = [m2] /\
     f_ipk fb = TNonce ipk /\
     msg_term (dr_m1 r) = msg_term (sigma1_of (dr_a r) (dr_fra r) (dr_fab r) (dr_peer r) fa) /\
     get_req (dr_m2 r) 1 KBytes = get_req m2 1 KBytes /\
     get_req (dr_m2 r) 3 KBytes = get_req m2 3 KBytes /\
     get_req (dr_m2 r) 4 KBytes = get_req m2 4 KBytes /\
     s_fab sa = dr_fab r /\
     s_peer sa = dr_peer r /\
     get_node_id (f_noc fb) = Some (dr_peer r) /\
     cats_of (f_noc fb) = Ok (s_cats sa) /\
     s_enc sa =
     sess_key 0 (TNonce ipk)
       (h123 (msg_term (sigma1_of (dr_a r) (dr_fra r) (dr_fab r) (dr_peer r) fa)) 
          (msg_term (dr_m2 r)) (msg_term m3)) (dh (TNonce (fr_eph (dr_fra r))) rpub) /\
     s_dec sa =
     sess_key 1 (TNonce ipk)
       (h123 (msg_term (sigma1_of (dr_a r) (dr_fra r) (dr_fab r) (dr_peer r) fa)) 
          (msg_term (dr_m2 r)) (msg_term m3)) (dh (TNonce (fr_eph (dr_fra r))) rpub) /\
     ~ derivable (know5 K0 r) (s_enc sa) /\ ~ derivable (know5 K0 r) (s_dec sa))).
Check (C01_responder_only :
  forall (K0 : knowledge) (SK : list N) (ipk : N) (fa : fabric) (r : dy_run),
  dy_world K0 SK ipk fa r ->
  forall (sb : session) (q : sigma1) (fb : fabric),
  node_wf (dr_b r) ->
  msg_derivable (know1 K0 r) (dr_m1 r) ->
  msg_derivable (know2 K0 r) (dr_m2 r) ->
  msg_derivable (know3 K0 r) (dr_m3 r) ->
  responder_completed r sb ->
  parse_sigma1 (dr_m1 r) = Ok q ->
  get_by_dest_id (n_fabrics (dr_b r)) (g1_random q) (g1_dest q) = Some fb ->
  f_ipk fb = TNonce ipk ->
  exists (sa' : session) (rpub : term),
    initiator_full_sound (dr_a r) (dr_fra r) (dr_fab r) (dr_peer r)
      (sigma1_of (dr_a r) (dr_fra r) (dr_fab r) (dr_peer r) fa) (dr_m2 r) sa' /\
    get_req (dr_m2 r) 3 KBytes = Ok rpub /\
    (let m2 := build_sigma2 fb (dr_frb r) (g1_pub q) (msg_term (dr_m1 r)) in
     let m3 :=
       initiator_sigma3 fa (dr_fra r) rpub (sigma1_of (dr_a r) (dr_fra r) (dr_fab r) (dr_peer r) fa)
         (dr_m2 r) in
     ro_msgs (run_r1 r) = [m2] /\
     io_msgs (run_i2 r) = [m3] /\
     msg_term (dr_m1 r) = msg_term (sigma1_of (dr_a r) (dr_fra r) (dr_fab r) (dr_peer r) fa) /\
     msg_term (dr_m2 r) = msg_term m2 /\
     get_req (dr_m3 r) 1 KBytes = get_req m3 1 KBytes /\
     s_fab sb = f_idx fb /\
     get_node_id (f_noc fa) = Some (s_peer sb) /\
     cats_of (f_noc fa) = Ok (s_cats sb) /\
     (s_enc sa' = s_dec sb /\ s_dec sa' = s_enc sb <-> msg_term (dr_m3 r) = msg_term m3) /\
     (msg_term (dr_m3 r) <> msg_term m3 -> sigma3_alt m3 (dr_m3 r) = true) /\
     ~ derivable (know5 K0 r) (s_enc sb) /\ ~ derivable (know5 K0 r) (s_dec sb))).
Check (C01_resume_binding :
  forall (K0 : knowledge) (SK : list N) (ipk : N) (fa : fabric) (r : dy_run),
  dy_world K0 SK ipk fa r ->
  forall (ra : record) (nr : term),
  node_wf (dr_a r) ->
  node_wf (dr_b r) ->
  msg_derivable (know1 K0 r) (dr_m1 r) ->
  msg_derivable (know2 K0 r) (dr_m2 r) ->
  io_state (run_i2 r) = IFinishing ra nr ->
  ro_arm (run_r2 r) = A_R_FIN_OK ->
  ~ guarded (secret_nonces ipk r) SK (r_secret ra) ->
  exists (sa sb : session) (q : sigma1) (rb : record),
    n_sessions (io_node (run_i2 r)) = n_sessions (dr_a r) ++ [sa] /\
    n_sessions (ro_node (run_r2 r)) = n_sessions (dr_b r) ++ [sb] /\
    s_reserved sa = false /\
    s_reserved sb = false /\
    parse_sigma1 (dr_m1 r) = Ok q /\
    In rb (n_cache (dr_b r)) /\
    find_by_peer (n_cache (dr_a r)) (dr_fab r) (dr_peer r) = Some ra /\
    g1_random q = TNonce (fr_rand (dr_fra r)) /\
    r_secret rb = r_secret ra /\
    r_rid rb = r_rid ra /\
    s_fab sa = r_fab ra /\
    s_peer sa = r_peer ra /\
    s_cats sa = r_cats ra /\
    s_fab sb = r_fab rb /\
    s_peer sb = r_peer rb /\
    s_cats sb = r_cats rb /\
    s_enc sa = s_dec sb /\
    s_dec sa = s_enc sb /\ ~ derivable (know5 K0 r) (s_enc sa) /\ ~ derivable (know5 K0 r) (s_dec sa)).
Check (C01_known_class_inhabited :
  let p := handshake append_to_sigma3 w_a w_b w_fra w_frb 1 8738 in
  match outcome p, p_wire p with
  | (true, [sa], [sb]), [_; _; (_, m3); _] =>
      negb (s_reserved sa) && negb (s_reserved sb) &&
      negb (term_eqb (s_enc sa) (s_dec sb)) &&
      match append_to_sigma3 0 1 m3 with Some m3' => sigma3_alt m3 m3' | None => false end
  | _, _ => false
  end = true).
Check (C01_monitor_means : forall al_i al_r s3alt base o,
  monitor_run al_i al_r s3alt base o = [] ->
  (forall s rest, o_r o = s :: rest -> al_r = Some (ident_of s)) /\
  (forall s rest, o_i o = s :: rest -> al_i = Some (ident_of s)) /\
  (forall a ra b rb, o_i o = a :: ra -> o_r o = b :: rb -> o_enc a = o_dec b /\ o_dec a = o_enc b) /\
  o_left o = 0 /\
  (forall bo, base = Some bo ->
     (forall s rest, o_i o = s :: rest -> exists s0 rest0, o_i bo = s0 :: rest0 /\ ident_of s = ident_of s0) /\
     (forall s rest, o_r o = s :: rest -> exists s0 rest0, o_r bo = s0 :: rest0 /\ ident_of s = ident_of s0)) /\
  (length (o_i o) <= 1)%nat /\ (length (o_r o) <= 1)%nat).
