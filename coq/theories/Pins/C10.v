(** Statement pins for C10. *)
From RsM Require Import Lib.MachInt Model.Dedup Model.Mrp Model.Exchange Model.ExchangeSpec
  Model.ExchangeTx
  Proofs.ExchangeFacts Proofs.ExchangeSys Proofs.ExchangeTheorems Proofs.ExchangeLifecycle
  Proofs.ExchangeSpecFacts Proofs.ExchangeTx Props.C10.
Open Scope N_scope.

Check (C10_routing_sound : forall s l s' ev,
  reachable s -> step false s l = Some (s', ev) ->
  (forall e, In e ev -> is_swallow e = false) /\
  forall sid idx m, In (EvDeliver sid idx m) ev ->
    l = LRecv sid idx /\ rx s = RxHolding m /\ rx s' = RxTaken m sid idx /\
    In (sid, idx) (handles s) /\
    exists se e, In se (sessions s) /\ s_id se = sid /\ s_key se = m_key m /\
      nth_error (s_exchs se) idx = Some (Some e) /\
      e_id e = m_exid m /\ m_init m = is_responder (e_role e) /\ is_owned (e_role e) = true).
Check (C10_new_exchange_gate : forall s m t s',
  session_post_recv s m t = (s', Ok true) ->
  snd (post_recv (s_win s) (m_ctr m) (s_enc s) false) = true /\
  m_init m = true /\ is_new_exchange (m_op m) = true /\ s_expired s = false /\
  find_exch (s_exchs s) m = None /\
  exists i,
    (nth_error (s_exchs s) i = None \/ nth_error (s_exchs s) i = Some None) /\
    nth_error (table s') i = Some (Some (m_exid m, RespPending)) /\
    (forall j, j <> i -> nth_error (table s') j = nth_error (table s) j)).
Check (C10_table_unchanged_unless_new : forall s m t s' r,
  session_post_recv s m t = (s', r) -> r <> Ok true -> table s' = table s).
Check (C10_responder_only_through_gate : forall s l s' ev se se' i id r,
  reachable s -> step false s l = Some (s', ev) ->
  In se (sessions s) -> In se' (sessions s') -> s_id se' = s_id se ->
  view se i = None -> view se' i = Some (id, r) -> is_responder r = true ->
  exists m, l = LRx m /\ m_key m = s_key se /\ m_exid m = id /\ r = RespPending /\
            m_init m = true /\ is_new_exchange (m_op m) = true /\ s_expired se = false).
Check (C10_unknown_dropped : forall s m se,
  rx s = RxEmpty -> find_key (sessions s) (m_key m) = Some se ->
  find_exch (s_exchs se) m = None ->
  (m_init m = false \/ is_new_exchange (m_op m) = false) ->
  is_close (m_op m) = false ->
  exists s' ev, step false s (LRx m) = Some (s', ev) /\
    rx s' = RxEmpty /\ handles s' = handles s /\
    (ev = [] \/ ev = [EvDupAck (m_key m) (m_ctr m)]) /\
    forall se', In se' (sessions s') ->
      exists se0, In se0 (sessions s) /\ s_id se' = s_id se0 /\ s_exchs se' = s_exchs se0).
Check (C10_no_wedge : forall s m, reachable s -> rx s = RxHolding m -> discharger s m).
Check (C10_taken_released : forall s m sid idx,
  reachable s -> rx s = RxTaken m sid idx ->
  In (sid, idx) (handles s) /\
  (exists s' ev, step false s (LRxDone sid idx) = Some (s', ev) /\ rx s' = RxEmpty) /\
  (exists s' ev, step false s (LDropExch sid idx) = Some (s', ev) /\ rx s' = RxEmpty)).
Check (C10_closed_cleanly : forall s,
  (exists se i e, In se (sessions s) /\ nth_error (s_exchs se) i = Some (Some e) /\
                  is_dropped (e_role e) = true) ->
  exists sid i e s' ev,
    step false s LCloseDropped = Some (s', ev) /\
    (exists se, In se (sessions s) /\ s_id se = sid /\ nth_error (s_exchs se) i = Some (Some e) /\
                is_dropped (e_role e) = true) /\
    rx s' = rx s /\ handles s' = handles s /\
    ( (retrans_pending e = true /\ ev = [EvCloseSession sid i] /\
       sessions s' = remove_sid (sessions s) sid)
      \/
      (retrans_pending e = false /\ sessions s' = group_gc (set_slot (sessions s) sid i None) sid /\
       ( (is_group_sid (sessions s) sid = true /\ ev = [])
         \/ (is_group_sid (sessions s) sid = false /\ ack_pending e = true /\
             exists c, ev = [EvStandaloneAck sid i c])
         \/ (is_group_sid (sessions s) sid = false /\ ack_pending e = false /\ ev = []))))).
Check (C10_dropped_is_absorbing : forall s l s' ev se se' i id r,
  reachable s -> step false s l = Some (s', ev) ->
  In se (sessions s) -> In se' (sessions s') -> s_id se' = s_id se ->
  view se i = Some (id, r) -> is_dropped r = true ->
  view se' i = Some (id, r) \/ (view se' i = None /\ l = LCloseDropped)).
Check (C10_post_recv_meets_spec : forall s m t s' r,
  session_post_recv s m t = (s', r) ->
  post_recv_ok MAX_EXCHANGES (table s) (s_expired s)
    (snd (post_recv (s_win s) (m_ctr m) (s_enc s) false))
    (m_exid m) (m_init m) (m_op m) (res_class r) (table s') = true).
(* the shape of the discharger clauses is part of the pinned statement *)
Check (DisOrphan : forall s m,
  (owner_of (sessions s) m = None \/
   exists se i e, owner_of (sessions s) m = Some (se, i, e) /\ is_dropped (e_role e) = true) ->
  enabled_empties s LSweepOrphan -> discharger s m).
Check (DisPending : forall s m se i e,
  owner_of (sessions s) m = Some (se, i, e) -> e_role e = RespPending ->
  (exists s' ev, step false s LAccept = Some (s', ev)) ->
  (forall d, ACCEPT_TIMEOUT_MS <= d -> enabled_empties (tick s d) LSweepAccept) ->
  discharger s m).
Check (DisOwned : forall s m se i e,
  owner_of (sessions s) m = Some (se, i, e) -> is_owned (e_role e) = true ->
  In (s_id se, i) (handles s) ->
  (retrans_pending e = false ->
     exists s', step false s (LRecv (s_id se) i) = Some (s', [EvDeliver (s_id se) i m]) /\
                rx s' = RxTaken m (s_id se) i) ->
  (exists s1 ev1, step false s (LDropExch (s_id se) i) = Some (s1, ev1) /\ rx s1 = RxHolding m) ->
  discharger s m).
Check (eq_refl : ACCEPT_TIMEOUT_MS = 1000).
Check (eq_refl : MAX_EXCHANGES = 5%nat).
Check (C10_peer_close_honoured : forall s m se,
  reachable s -> rx s = RxEmpty -> find_key (sessions s) (m_key m) = Some se ->
  snd (post_recv (s_win se) (m_ctr m) (s_enc se) false) = true ->
  m_op m = OpScClose ->
  (find_exch (s_exchs se) m = None \/ m_ack m = None) ->
  exists s', step false s (LRx m) = Some (s', [EvPeerClosed (s_id se)]) /\
    rx s' = RxEmpty /\ handles s' = handles s /\
    (forall x, In x (sessions s') -> In x (sessions s) /\ s_id x <> s_id se)).
Check (C10_tx_no_wedge : forall s, reachablex s -> tx_discharger s).
Check (C10_tx_queued_only_flushed : forall s l s' ev v,
  stepx false s l = Some (s', ev) -> tx s = TxQueued v ->
  tx s' = TxQueued v \/ (l = XFlush /\ tx s' = TxEmpty)).
Check (C10_no_wedge_with_tx : forall s m,
  reachablex s -> rx (core s) = RxHolding m -> discharger (core s) m).
Check (TxdQueued : forall s v, tx s = TxQueued v ->
  (exists s' ev, stepx false s XFlush = Some (s', ev) /\ tx s' = TxEmpty) -> tx_discharger s).
Check (TxdTaken : forall s sid idx, tx s = TxTaken sid idx ->
  In (sid, idx) (handles (core s)) ->
  (forall ctr rel, exists s' ev, stepx false s (XComplete sid idx ctr rel) = Some (s', ev) /\
                     (tx s' = TxEmpty \/ tx s' = TxQueued (Some sid))) ->
  (exists s' ev, stepx false s (XAbandon sid idx) = Some (s', ev) /\ tx s' = TxEmpty) ->
  (exists s' ev, stepx false s (XCore (LDropExch sid idx)) = Some (s', ev) /\ tx s' = TxEmpty) ->
  tx_discharger s).
