(** Statement pins for C18: the headline theorems must have exactly these
    types, so they cannot be weakened silently. *)
From RsM Require Import Lib.MachInt Model.Btp Model.BtpSpec
  Proofs.BtpCodec Proofs.BtpFacts Proofs.BtpHostile Proofs.BtpPair Proofs.BtpHandshake
  Proofs.BtpLive Model.BtpTimed Props.C18.
Open Scope N_scope.

Check (C18_hostile_safe : forall ops : list op,
  Forall op_ok ops -> mon_endpoint ops (snd (run inner_new ops)) = true).
Check (C18_refused_changes_nothing : forall (i : inner) (g : option N) (a : N) (d : bytes) (c : N),
  snd (step i (OIn g a d)) = RErr c -> fst (step i (OIn g a d)) = i).
Check (C18_pair_safe : forall m w : N,
  20 <= m <= 244 -> 1 <= w <= 255 -> w * m + 1234 <= RX_CAP ->
  forall (c : cfg) (ver : N) (rel : bool) (ops : list sop),
  mon_pair_est ops (snd (sys_run c (sys_established c ver m w rel) ops)) = true).
Check (C18_exactly_once_in_order : forall m w : N,
  20 <= m <= 244 -> 1 <= w <= 255 -> w * m + 1234 <= RX_CAP ->
  forall (c : cfg) (ver : N) (rel : bool) (ops : list sop),
  let rs := snd (sys_run c (sys_established c ver m w rel) ops) in
  (exists rest, submitted SA ops rs = fetched SB ops rs ++ rest) /\
  (exists rest, submitted SB ops rs = fetched SA ops rs ++ rest)).
Check (C18_window_respected : forall m w : N,
  20 <= m <= 244 -> 1 <= w <= 255 -> w * m + 1234 <= RX_CAP ->
  forall (c : cfg) (ver : N) (rel : bool) (ops : list sop),
  let s := fst (sys_run c (sys_established c ver m w rel) ops) in
  nlen (chAB s) + rack_level (recv (sess (epB s))) + slevel (send (sess (epA s))) <= w /\
  nlen (chAB s) <= rlevel (recv (sess (epB s))) /\
  nlen (chBA s) + rack_level (recv (sess (epA s))) + slevel (send (sess (epB s))) <= w /\
  nlen (chBA s) <= rlevel (recv (sess (epA s)))).
Check (C18_ack_enabled : forall m w : N,
  20 <= m <= 244 -> 1 <= w <= 255 -> w * m + 1234 <= RX_CAP ->
  forall (c : cfg) (ver : N) (rel : bool) (ops : list sop) (x : side) (t : bool),
  let s := fst (sys_run c (sys_established c ver m w rel) ops) in
  is_ack_due (sess (ep s x)) t = true -> 1 <= slevel (send (sess (ep s x))) ->
  exists b h p,
    snd (step (ep s x) (OOut (gatt_of c x) t POLL_CAP)) = RBytes b /\
    hdr_decode b = Ok (h, p) /\
    get_ack h = Some (rack_seq (recv (sess (ep s x)))) /\
    rack_level (recv (sess (fst (step (ep s x) (OOut (gatt_of c x) t POLL_CAP))))) = 0).
Check (C18_handshake_request_valid : forall (s : session) (g : option N) (a : N) (h : hdr) (p : bytes) (s' : session),
  process_rx_handshake_req s g a h p = Ok s' ->
  20 <= mtu s' <= 244 /\ 1 <= swin (send s') <= 255 /\
  swin (send s') * mtu s' + 1234 <= RX_CAP /\ wsize s' = swin (send s')).
Check (C18_monitor_sound : forall (ops : list sop) (rs : list (out * snap * snap)),
  mon_pair ops rs = true ->
  ((exists rest, submitted SA ops rs = fetched SB ops rs ++ rest) /\
   (exists rest, submitted SB ops rs = fetched SA ops rs ++ rest)) /\
  Forall2 (fun o r => answer_ok o (fst (fst r))) ops rs).
Check (C18_handshake_establishes : forall (c : cfg) (rel t1 t2 : bool),
  let m := nego_mtu (gattA c) (gattB c) rel in
  let w := nego_win (gattA c) (gattB c) rel in
  fst (sys_run c (sys_fresh rel) [SPoll SA t1; SDeliver SB; SPoll SB t2; SDeliver SA])
    = sys_established c 4 m w rel /\
  20 <= m <= 244 /\ 1 <= w <= 255 /\ w * m + 1234 <= RX_CAP).
Check (C18_fresh_pair_safe : forall (c : cfg) (rel : bool) (ops : list sop),
  mon_pair ops (snd (sys_run c (sys_fresh rel) ops)) = true).
Check (C18_no_lost_ack : forall m w : N,
  20 <= m <= 244 -> 1 <= w <= 255 -> w * m + 1234 <= RX_CAP ->
  forall (c : cfg) (ver : N) (rel : bool) (ops : list sop),
  let s := fst (sys_run c (sys_established c ver m w rel) ops) in
  chain_end (slast (send (sess (epA s)))) (w - slevel (send (sess (epA s)))) (acks_of (chBA s))
    = nlen (chAB s) + rack_level (recv (sess (epB s))) /\
  chain_end (slast (send (sess (epB s)))) (w - slevel (send (sess (epB s)))) (acks_of (chAB s))
    = nlen (chBA s) + rack_level (recv (sess (epA s)))).
Check (C18_no_deadlock : forall m w : N,
  20 <= m <= 244 -> 1 <= w <= 255 -> w * m + 1234 <= RX_CAP ->
  forall (c : cfg) (ver : N) (rel : bool) (ops : list sop),
  let s := fst (sys_run c (sys_established c ver m w rel) ops) in
  can_move c s SA \/ can_move c s SB).
Check (C18_ack_by_deadline : forall m w : N,
  20 <= m <= 244 -> 1 <= w <= 255 -> w * m + 1234 <= RX_CAP ->
  forall (c : cfg) (ver : N) (rel : bool) (t0 : N) (ops : list top) (x : side) (r : N),
  let t := fst (trun c (tsys_established c ver m w rel t0) ops) in
  received_at (clk_of t x) = Some r -> r + ACK_TIMEOUT <= t_now t ->
  1 <= rack_level (recv (sess (ep (t_sys t) x))) -> rmsgs (recv (sess (ep (t_sys t) x))) = 0 ->
  1 <= slevel (send (sess (ep (t_sys t) x))) ->
  exists b h p,
    snd (tstep c t (TPoll x)) = Some (RBytes b) /\ hdr_decode b = Ok (h, p) /\
    get_ack h = Some (rack_seq (recv (sess (ep (t_sys t) x))))).
