(** Statement pins for C07: the property theorems must have exactly these
    types, so they cannot be weakened silently. *)
From Coq Require Import NArith List Bool.
From RsM Require Import Model.Lifecycle Model.LifecycleSpec Proofs.LifecycleInv Props.C07.
(* -- *)
Import ListNotations.
Open Scope N_scope.

Check (C07_bound_to_incarnation :
  forall st ops, Inv st -> bound_to_incarnation (exec st ops)).
Check (C07_bound_to_incarnation_init :
  forall kind pase ops, bound_to_incarnation (exec (init_state kind pase) ops)).
Check (C07_no_use_after_removal :
  forall st ops c, Inv st -> gone st c ->
    gone (exec st ops) c /\ unreferenced (exec st ops) c).
Check (C07_removed_is_gone :
  forall st sid i f, Inv st -> fget i (st_fabs st) = Some f ->
    snd (step st (ORemove sid i)) = StOk ->
    gone (fst (step st (ORemove sid i))) (f_inc f)).
Check (C07_rolled_back_is_gone :
  forall st o i fl f, Inv st -> is_expiry o = true -> st_fs st = Armed i fl -> i <> 0 ->
    fget i (st_fabs st) = Some f -> fget i (st_kvfabs st) = None ->
    snd (step st o) = StOk ->
    gone (fst (step st o)) (f_inc f)).
Check (C07_index_reuse_safe :
  forall st ops i f, Inv st -> fget i (st_fabs (exec st ops)) = Some f ->
    (forall s, In s (st_sess (exec st ops)) -> usable s = true -> s_fab s = i -> i <> 0 -> s_inc s = f_inc f) /\
    (forall r, In r (st_recs (exec st ops)) -> r_fab r = i -> r_inc r = f_inc f) /\
    (forall u, In u (st_subs (exec st ops)) -> u_fab u = i -> u_inc u = f_inc f)).
Check (C07_others_unaffected :
  forall st o st' i pase, Inv st -> step st o = (st', StOk) -> removes st o = Some (i, pase) ->
    others_sess i pase (st_sess st') = others_sess i pase (st_sess st) /\
    others_recs i (st_recs st') = others_recs i (st_recs st) /\
    others_subs i (st_subs st') = others_subs i (st_subs st) /\
    fdel i (st_fabs st') = fdel i (st_fabs st) /\
    fdel i (st_kvfabs st') = fdel i (st_kvfabs st)).
Check (C07_request_only_own_incarnation :
  forall st sid k st', Inv st -> step st (ORequest sid k) = (st', StOk) ->
    exists s f, sget sid (st_sess st) = Some s /\ usable s = true /\ s_fab s <> 0 /\
                fget (s_fab s) (st_fabs st) = Some f /\ f_inc f = s_inc s /\
                (forall j, j <> s_fab s -> fget j (st_fabs st') = fget j (st_fabs st))).
Check (C07_stale_request_refused :
  forall st s k, Inv st -> In s (st_sess st) -> s_fab s <> 0 -> gone st (s_inc s) ->
    step st (ORequest (s_id s) k) = (st, StGone)).
Check (C07_resume_only_current :
  forall st k st', Inv st -> step st (OResume k) = (st', StOk) ->
    exists r f, rget k (st_recs st) = Some r /\ fget (r_fab r) (st_fabs st) = Some f /\
                f_inc f = r_inc r).
Check (C07_invariant_step : forall st o, Inv st -> Inv (fst (step st o))).
Check (C07_bound_b_correct : forall st, bound_b st = true <-> bound_to_incarnation st).
Check (C07_monitor_model_clean :
  forall st ops, Inv st -> monitor st (combine ops (snd (run st ops))) = []).
Check (C07_nothing_left_behind_all :
  forall st ops, Inv st -> nothing_left_behind (exec st ops)).
Check (C07_tight_b_correct : forall st, tight_b st = true <-> nothing_left_behind st).
Check (C07_left_behind_free_bound :
  forall st, nothing_left_behind st ->
    (forall s, In s (st_sess st) -> usable s = true -> sess_bound st s) /\
    (forall r, In r (st_recs st) -> rec_bound (st_fabs st) r) /\
    (forall u, In u (st_subs st) -> sub_bound (st_fabs st) u)).
Check (C07_removal_purges_slots :
  forall st sid i st', step st (ORemove sid i) = (st', StOk) ->
    forall x, In x (st_sess st') -> s_fab x = i -> s_exp x = true).
Check (C07_rollback_purges_slots :
  forall st o i fl, Inv st -> is_expiry o = true -> st_fs st = Armed i fl -> i <> 0 ->
    fget i (st_kvfabs st) = None -> snd (step st o) = StOk ->
    forall x, In x (st_sess (fst (step st o))) -> s_fab x = i -> s_exp x = true).
Check (C07_finish_after_removal_void :
  forall st sid, sget sid (st_sess st) = None ->
    step st (OFinishFull sid) = (st, StGone) /\ step st (OFinishResume sid) = (st, StGone)).
Check (C07_finish_only_live :
  forall st sid st', Inv st -> step st (OFinishResume sid) = (st', StOk) ->
    exists s f, sget sid (st_sess st) = Some s /\ s_res s = true /\
                fget (s_fab s) (st_fabs st) = Some f /\ f_inc f = s_inc s).
Check (C07_store_tight_all : forall st ops, Inv st -> store_tight (exec st ops)).
Check (C07_store_tight_b_correct : forall st, store_tight_b st = true <-> store_tight st).
Check (C07_incarnation_never_returns :
  forall st ops c, Inv st -> c < st_ninc st -> (forall f, In f (st_fabs st) -> f_inc f <> c) ->
    forall f, In f (st_fabs (exec st ops)) -> f_inc f <> c).
Check (C07_removed_not_reloadable :
  forall st sid i f st', Inv st -> fget i (st_fabs st) = Some f ->
    step st (ORemove sid i) = (st', StOk) ->
    fget i (st_kvfabs st') = None /\ (forall r, In r (st_kvrecs st') -> r_fab r <> i)).
Check (C07_late_subscription_purged_due :
  forall st sid, Inv st -> nothing_left_behind (fst (step st (OSubscribeDue sid)))).
Check (C07_late_subscription_purged_remove :
  forall st sid i, Inv st -> nothing_left_behind (fst (step st (OSubscribeRemove sid i)))).
Check (C07_purge_drops_fabricless :
  forall st u, In u (st_subs (purge st)) -> has_fab (st_fabs st) (u_fab u) = true).
