(** Statement pins for C16: the property theorems must have exactly these
    types, so they cannot be weakened silently. *)
From Coq Require Import NArith ZArith List.
From RsM Require Import Model.Tlv Model.TlvSpec
  Proofs.TlvFacts Proofs.TlvTotal Proofs.TlvWriter Proofs.TlvRoundtrip
  Proofs.TlvWithin Proofs.TlvScalar Proofs.TlvReencode Proofs.TlvIter Proofs.TlvDecodeInv
  Proofs.TlvMonitor Props.C16.
From RsM Require Import Model.TlvDerive Model.TlvBuf Proofs.TlvDeriveFacts Proofs.TlvDeriveTotal
  Proofs.TlvDeriveRoundtrip Proofs.TlvDeriveLenient Proofs.TlvBufFacts Proofs.TlvBufDerive Proofs.TlvReencodeIter.
Import ListNotations.
Open Scope N_scope.

Check (C16_total : forall s : bytes, blen s < two63 -> Forall safe (probe_all s)).
Check (C16_roundtrip : forall (x : tree) (rest : bytes),
  wf_tree x -> blen (encode x ++ rest) < two63 -> decode (encode x ++ rest) = ROk x).
Check (C16_u64_roundtrip : forall (t : tag) (n : N) (rest : bytes),
  n < two64 -> el_u64 (w_u64 t n ++ rest) = ROk n).
Check (C16_i64_roundtrip : forall (t : tag) (z : Z) (rest : bytes),
  (- 9223372036854775808 <= z < 9223372036854775808)%Z ->
  el_i64 (w_i64 t z ++ rest) = ROk z).
Check (C16_str_roundtrip : forall (t : tag) (d rest : bytes),
  blen d < two64 -> el_str (w_str t d ++ rest) = ROk d).
Check (C16_reencode : forall (s : bytes) (c : control_t) (t : tag) (v : bytes),
  is_bytes s -> control s = ROk c -> el_tag s = ROk t -> el_raw_value s = ROk v ->
  el_to_tlv t s = ROk (firstn (N.to_nat (hdr_len c + blen v)) s)).
Check (C16_len_within_input : forall (s : bytes) (c : control_t) (v : bytes),
  control s = ROk c -> el_raw_value s = ROk v ->
  hdr_len c + blen v <= blen s /\ mon_within s (hdr_len c) v = true).
Check (C16_container_len_within_input : forall (s : bytes) (c : control_t) (v : bytes),
  blen s < two63 -> control s = ROk c -> el_raw_value s = ROk v ->
  container_len s = ROk (hdr_len c + blen v) /\ hdr_len c + blen v <= blen s).
Check (C16_tlv_iter_roundtrip : forall (cs : list tree) (rest : bytes),
  wf_list cs -> blen (encode_list cs ++ w_end ++ rest) < two63 ->
  tlv_iter_all (encode_list cs ++ w_end ++ rest) = ROk (map inl (flat_map flatten cs))).
Check (C16_decode_reencode : forall (s : bytes) (x : tree),
  is_bytes s -> blen s < two63 -> decode s = ROk x ->
  wf_root x /\ exists rest, s = encode x ++ rest).
Check (C16_derive_roundtrip : forall (d : dty) (t : tag) (v : dval) (bs rest : bytes),
  wf_dty d -> has_ty d v -> wf_tag t -> denc d t v = ROk bs ->
  blen (bs ++ rest) < two63 -> ddec d (bs ++ rest) = ROk v).
Check (C16_derive_decode_total : forall (d : dty) (el : bytes), blen el < two63 -> safe (ddec d el)).
Check (C16_derive_missing_mandatory_is_error :
  forall (k : ckind) (fs : list (N * dty)) (t : tag) (all_cs : list tree) (rest : bytes)
         (ft : N) (fd : dty),
  In (ft, fd) fs -> is_option fd = false ->
  wf_list all_cs -> lookup_ctx ft all_cs = None ->
  blen (encode (Node t k all_cs) ++ rest) < two63 ->
  exists e, ddec (DStruct k false fs) (encode (Node t k all_cs) ++ rest) = RErr e).
Check (C16_writebuf_rewind_restores : forall (w : wbuf) (ops : list bop),
  wb_ok w ->
  let w' := snd (wb_run w [] (BAnchor :: ops ++ [BRewind 0])) in
  wb_as_slice w' = wb_as_slice w /\ wb_end w' = wb_end w /\
  firstn (N.to_nat (wb_end w)) (wb_mem w') = firstn (N.to_nat (wb_end w)) (wb_mem w)).
Check (C16_derive_atomic : forall (d : dty) (t : tag) (v : dval) (w : wbuf),
  atomic_ty d = true -> wb_ok w -> fst (denc_wb d t v w) <> ROk tt ->
  wb_end (snd (denc_wb d t v w)) = wb_end w /\
  wb_as_slice (snd (denc_wb d t v w)) = wb_as_slice w).
Check (C16_tlv_iter_reencode : forall (x : tree) (rest : bytes),
  wf_tree x -> blen (encode x ++ rest) < two63 ->
  el_reencode_iter (root_tag x) (encode x ++ rest) = ROk (encode x)).
