(** Pinned statements of the headline theorems of property C11 (as printed by Coq): a change of a
    statement in Props/C11.v breaks this file. *)
From Coq Require Import NArith List Bool.
From RsM Require Import Model.Persist Model.PersistSpec Proofs.PersistInv Proofs.PersistTheorems Props.C11.
Import ListNotations.
Open Scope N_scope.

Check (C11_restart_committed
  : forall (blob : Type) (enc_fab : N -> fabric -> blob) (dec_fab : blob -> option (N * fabric))
         (enc_basic : basic -> blob) (dec_basic : blob -> option basic) (enc_nets : nets -> blob)
         (dec_nets : blob -> option nets) (enc_labels : N -> blob) (dec_labels : blob -> option N)
         (enc_binds : list (N * N) -> blob) (dec_binds : blob -> option (list (N * N)))
         (enc_res : list (N * N) -> blob) (dec_res : blob -> option (list (N * N))) 
         (enc_tz : N -> blob) (dec_tz : blob -> option N) (enc_tts : N * N -> blob)
         (dec_tts : blob -> option (N * N)) (enc_icd : list (N * N) -> blob)
         (dec_icd : blob -> option (list (N * N))) (enc_ota : list (N * N) -> blob)
         (dec_ota : blob -> option (list (N * N))) (enc_scenes : list (N * N) -> blob)
         (dec_scenes : blob -> option (list (N * N))) (enc_sub : N * N -> blob)
         (dec_sub : blob -> option (N * N)),
       (forall (i : N) (f : fabric), dec_fab (enc_fab i f) = Some (i, f)) ->
       (forall v : basic, dec_basic (enc_basic v) = Some v) ->
       (forall v : nets, dec_nets (enc_nets v) = Some v) ->
       (forall v : N, dec_labels (enc_labels v) = Some v) ->
       (forall v : list (N * N), dec_binds (enc_binds v) = Some v) ->
       (forall v : list (N * N), dec_res (enc_res v) = Some v) ->
       (forall v : N, dec_tz (enc_tz v) = Some v) ->
       (forall v : N * N, dec_tts (enc_tts v) = Some v) ->
       (forall v : list (N * N), dec_icd (enc_icd v) = Some v) ->
       (forall v : list (N * N), dec_ota (enc_ota v) = Some v) ->
       (forall v : list (N * N), dec_scenes (enc_scenes v) = Some v) ->
       (forall v : N * N, dec_sub (enc_sub v) = Some v) ->
       forall st : state blob,
       Inv blob enc_fab enc_basic enc_nets enc_labels enc_binds enc_res enc_tz enc_tts enc_icd enc_ota
         enc_scenes enc_sub st ->
       exists r : ram,
         boot blob dec_fab dec_basic dec_nets dec_labels dec_binds enc_res dec_res dec_tz dec_tts dec_icd
           dec_ota dec_scenes enc_sub dec_sub (s_kv st) = Some r /\ committed_view blob st r).

Check (C11_prefix_consistent
  : forall (blob : Type) (enc_fab : N -> fabric -> blob) (dec_fab : blob -> option (N * fabric))
         (enc_basic : basic -> blob) (dec_basic : blob -> option basic) (enc_nets : nets -> blob)
         (dec_nets : blob -> option nets) (enc_labels : N -> blob) (dec_labels : blob -> option N)
         (enc_binds : list (N * N) -> blob) (dec_binds : blob -> option (list (N * N)))
         (enc_res : list (N * N) -> blob) (dec_res : blob -> option (list (N * N))) 
         (enc_tz : N -> blob) (dec_tz : blob -> option N) (enc_tts : N * N -> blob)
         (dec_tts : blob -> option (N * N)) (enc_icd : list (N * N) -> blob)
         (dec_icd : blob -> option (list (N * N))) (enc_ota : list (N * N) -> blob)
         (dec_ota : blob -> option (list (N * N))) (enc_scenes : list (N * N) -> blob)
         (dec_scenes : blob -> option (list (N * N))) (enc_sub : N * N -> blob)
         (dec_sub : blob -> option (N * N)),
       (forall (i : N) (f : fabric), dec_fab (enc_fab i f) = Some (i, f)) ->
       (forall v : basic, dec_basic (enc_basic v) = Some v) ->
       (forall v : nets, dec_nets (enc_nets v) = Some v) ->
       (forall v : N, dec_labels (enc_labels v) = Some v) ->
       (forall v : list (N * N), dec_binds (enc_binds v) = Some v) ->
       (forall v : list (N * N), dec_res (enc_res v) = Some v) ->
       (forall v : N, dec_tz (enc_tz v) = Some v) ->
       (forall v : N * N, dec_tts (enc_tts v) = Some v) ->
       (forall v : list (N * N), dec_icd (enc_icd v) = Some v) ->
       (forall v : list (N * N), dec_ota (enc_ota v) = Some v) ->
       (forall v : list (N * N), dec_scenes (enc_scenes v) = Some v) ->
       (forall v : N * N, dec_sub (enc_sub v) = Some v) ->
       forall (st0 : state blob) (ops : list op) (n : nat),
       Inv blob enc_fab enc_basic enc_nets enc_labels enc_binds enc_res enc_tz enc_tts enc_icd enc_ota
         enc_scenes enc_sub st0 ->
       (n <=
        length
          (full_log blob
             (snd
                (run blob enc_fab dec_fab enc_basic dec_basic enc_nets dec_nets enc_labels dec_labels
                   enc_binds dec_binds enc_res dec_res enc_tz dec_tz enc_tts dec_tts enc_icd dec_icd enc_ota
                   dec_ota enc_scenes dec_scenes enc_sub dec_sub true st0 ops))))%nat ->
       (forall j : nat,
        ~
        cut_inside blob enc_fab dec_fab enc_basic dec_basic enc_nets dec_nets enc_labels dec_labels enc_binds
          dec_binds enc_res dec_res enc_tz dec_tz enc_tts dec_tts enc_icd dec_icd enc_ota dec_ota enc_scenes
          dec_scenes enc_sub dec_sub st0 ops n j) ->
       exists (j : nat) (r : ram),
         (j <= length ops)%nat /\
         boot blob dec_fab dec_basic dec_nets dec_labels dec_binds enc_res dec_res dec_tz dec_tts dec_icd
           dec_ota dec_scenes enc_sub dec_sub
           (replay blob (s_kv st0)
              (firstn n
                 (full_log blob
                    (snd
                       (run blob enc_fab dec_fab enc_basic dec_basic enc_nets dec_nets enc_labels dec_labels
                          enc_binds dec_binds enc_res dec_res enc_tz dec_tz enc_tts dec_tts enc_icd dec_icd
                          enc_ota dec_ota enc_scenes dec_scenes enc_sub dec_sub true st0 ops))))) = 
         Some r /\
         committed_view blob
           (state_at blob enc_fab dec_fab enc_basic dec_basic enc_nets dec_nets enc_labels dec_labels
              enc_binds dec_binds enc_res dec_res enc_tz dec_tz enc_tts dec_tts enc_icd dec_icd enc_ota
              dec_ota enc_scenes dec_scenes enc_sub dec_sub st0 ops j) r).

Check (C11_ack_implies_durable
  : forall (blob : Type) (enc_fab : N -> fabric -> blob) (dec_fab : blob -> option (N * fabric))
         (enc_basic : basic -> blob) (dec_basic : blob -> option basic) (enc_nets : nets -> blob)
         (dec_nets : blob -> option nets) (enc_labels : N -> blob) (dec_labels : blob -> option N)
         (enc_binds : list (N * N) -> blob) (dec_binds : blob -> option (list (N * N)))
         (enc_res : list (N * N) -> blob) (dec_res : blob -> option (list (N * N))) 
         (enc_tz : N -> blob) (dec_tz : blob -> option N) (enc_tts : N * N -> blob)
         (dec_tts : blob -> option (N * N)) (enc_icd : list (N * N) -> blob)
         (dec_icd : blob -> option (list (N * N))) (enc_ota : list (N * N) -> blob)
         (dec_ota : blob -> option (list (N * N))) (enc_scenes : list (N * N) -> blob)
         (dec_scenes : blob -> option (list (N * N))) (enc_sub : N * N -> blob)
         (dec_sub : blob -> option (N * N)) (fx : bool) (st : state blob) (o : op),
       (forall (c : caller) (v : N), o <> OSub c v) ->
       ack_is_last blob
         (snd
            (step blob enc_fab dec_fab enc_basic dec_basic enc_nets dec_nets enc_labels dec_labels enc_binds
               dec_binds enc_res dec_res enc_tz dec_tz enc_tts dec_tts enc_icd dec_icd enc_ota dec_ota
               enc_scenes dec_scenes enc_sub dec_sub fx st o)) = true).

Check (C11_nothing_uncommitted
  : forall (blob : Type) (enc_fab : N -> fabric -> blob) (dec_fab : blob -> option (N * fabric))
         (enc_basic : basic -> blob) (dec_basic : blob -> option basic) (enc_nets : nets -> blob)
         (dec_nets : blob -> option nets) (enc_labels : N -> blob) (dec_labels : blob -> option N)
         (enc_binds : list (N * N) -> blob) (dec_binds : blob -> option (list (N * N)))
         (enc_res : list (N * N) -> blob) (dec_res : blob -> option (list (N * N))) 
         (enc_tz : N -> blob) (dec_tz : blob -> option N) (enc_tts : N * N -> blob)
         (dec_tts : blob -> option (N * N)) (enc_icd : list (N * N) -> blob)
         (dec_icd : blob -> option (list (N * N))) (enc_ota : list (N * N) -> blob)
         (dec_ota : blob -> option (list (N * N))) (enc_scenes : list (N * N) -> blob)
         (dec_scenes : blob -> option (list (N * N))) (enc_sub : N * N -> blob)
         (dec_sub : blob -> option (N * N)) (st : state blob) (o : op),
       gate_closed blob st o = true ->
       kvlog blob
         (snd
            (step blob enc_fab dec_fab enc_basic dec_basic enc_nets dec_nets enc_labels dec_labels enc_binds
               dec_binds enc_res dec_res enc_tz dec_tz enc_tts dec_tts enc_icd dec_icd enc_ota dec_ota
               enc_scenes dec_scenes enc_sub dec_sub true st o)) = []).

Check (C11_factory_reset_empty
  : forall (blob : Type) (enc_fab : N -> fabric -> blob) (dec_fab : blob -> option (N * fabric))
         (enc_basic : basic -> blob) (dec_basic : blob -> option basic) (enc_nets : nets -> blob)
         (dec_nets : blob -> option nets) (enc_labels : N -> blob) (dec_labels : blob -> option N)
         (enc_binds : list (N * N) -> blob) (dec_binds : blob -> option (list (N * N)))
         (enc_res : list (N * N) -> blob) (dec_res : blob -> option (list (N * N))) 
         (enc_tz : N -> blob) (dec_tz : blob -> option N) (enc_tts : N * N -> blob)
         (dec_tts : blob -> option (N * N)) (enc_icd : list (N * N) -> blob)
         (dec_icd : blob -> option (list (N * N))) (enc_ota : list (N * N) -> blob)
         (dec_ota : blob -> option (list (N * N))) (enc_scenes : list (N * N) -> blob)
         (dec_scenes : blob -> option (list (N * N))) (enc_sub : N * N -> blob)
         (dec_sub : blob -> option (N * N)) (st : state blob) (k : N),
       In k writable_keys ->
       aget
         (s_kv
            (fst
               (step blob enc_fab dec_fab enc_basic dec_basic enc_nets dec_nets enc_labels dec_labels
                  enc_binds dec_binds enc_res dec_res enc_tz dec_tz enc_tts dec_tts enc_icd dec_icd enc_ota
                  dec_ota enc_scenes dec_scenes enc_sub dec_sub true st OReset))) k = None).

Check (C11_bad_cache_boots
  : forall (blob : Type) (enc_fab : N -> fabric -> blob) (dec_fab : blob -> option (N * fabric))
         (enc_basic : basic -> blob) (dec_basic : blob -> option basic) (enc_nets : nets -> blob)
         (dec_nets : blob -> option nets) (enc_labels : N -> blob) (dec_labels : blob -> option N)
         (enc_binds : list (N * N) -> blob) (dec_binds : blob -> option (list (N * N)))
         (enc_res : list (N * N) -> blob) (dec_res : blob -> option (list (N * N))) 
         (enc_tz : N -> blob) (dec_tz : blob -> option N) (enc_tts : N * N -> blob)
         (dec_tts : blob -> option (N * N)) (enc_icd : list (N * N) -> blob)
         (dec_icd : blob -> option (list (N * N))) (enc_ota : list (N * N) -> blob)
         (dec_ota : blob -> option (list (N * N))) (enc_scenes : list (N * N) -> blob)
         (dec_scenes : blob -> option (list (N * N))) (enc_sub : N * N -> blob)
         (dec_sub : blob -> option (N * N)),
       (forall (i : N) (f : fabric), dec_fab (enc_fab i f) = Some (i, f)) ->
       (forall v : basic, dec_basic (enc_basic v) = Some v) ->
       (forall v : nets, dec_nets (enc_nets v) = Some v) ->
       (forall v : N, dec_labels (enc_labels v) = Some v) ->
       (forall v : list (N * N), dec_binds (enc_binds v) = Some v) ->
       (forall v : list (N * N), dec_res (enc_res v) = Some v) ->
       (forall v : N, dec_tz (enc_tz v) = Some v) ->
       (forall v : N * N, dec_tts (enc_tts v) = Some v) ->
       (forall v : list (N * N), dec_icd (enc_icd v) = Some v) ->
       (forall v : list (N * N), dec_ota (enc_ota v) = Some v) ->
       (forall v : list (N * N), dec_scenes (enc_scenes v) = Some v) ->
       (forall v : N * N, dec_sub (enc_sub v) = Some v) ->
       forall (st : state blob) (b : blob),
       Inv blob enc_fab enc_basic enc_nets enc_labels enc_binds enc_res enc_tz enc_tts enc_icd enc_ota
         enc_scenes enc_sub st ->
       exists (r : ram) (ops : list (kvop blob)),
         startup blob dec_fab dec_basic dec_nets dec_labels dec_binds enc_res dec_res dec_tz dec_tts dec_icd
           dec_ota dec_scenes enc_sub dec_sub (aset (s_kv st) K_RESUMP b) = Some (r, ops) /\
         committed_view blob st r /\
         (dec_res b = None -> r_resump r = [] /\ In (KRemove K_RESUMP) ops) /\
         (aget (replay blob (aset (s_kv st) K_RESUMP b) ops) K_RESUMP = None \/
          (exists l : list (N * N),
             dec_res b = Some l /\
             (aget (replay blob (aset (s_kv st) K_RESUMP b) ops) K_RESUMP = Some b \/
              (exists l' : list (N * N),
                 aget (replay blob (aset (s_kv st) K_RESUMP b) ops) K_RESUMP = Some (enc_res l')))))).

Check (C11_startup_cleans_cache
  : forall (blob : Type) (enc_fab : N -> fabric -> blob) (dec_fab : blob -> option (N * fabric))
         (enc_basic : basic -> blob) (dec_basic : blob -> option basic) (enc_nets : nets -> blob)
         (dec_nets : blob -> option nets) (enc_labels : N -> blob) (dec_labels : blob -> option N)
         (enc_binds : list (N * N) -> blob) (dec_binds : blob -> option (list (N * N)))
         (enc_res : list (N * N) -> blob) (dec_res : blob -> option (list (N * N))) 
         (enc_tz : N -> blob) (dec_tz : blob -> option N) (dec_tts : blob -> option (N * N))
         (enc_icd : list (N * N) -> blob) (dec_icd : blob -> option (list (N * N)))
         (enc_ota : list (N * N) -> blob) (dec_ota : blob -> option (list (N * N)))
         (enc_scenes : list (N * N) -> blob) (dec_scenes : blob -> option (list (N * N)))
         (enc_sub : N * N -> blob) (dec_sub : blob -> option (N * N)),
       (forall (i : N) (f : fabric), dec_fab (enc_fab i f) = Some (i, f)) ->
       (forall v : basic, dec_basic (enc_basic v) = Some v) ->
       (forall v : nets, dec_nets (enc_nets v) = Some v) ->
       (forall v : N, dec_labels (enc_labels v) = Some v) ->
       (forall v : list (N * N), dec_binds (enc_binds v) = Some v) ->
       (forall v : list (N * N), dec_res (enc_res v) = Some v) ->
       (forall v : N, dec_tz (enc_tz v) = Some v) ->
       (forall v : list (N * N), dec_icd (enc_icd v) = Some v) ->
       (forall v : list (N * N), dec_ota (enc_ota v) = Some v) ->
       (forall v : list (N * N), dec_scenes (enc_scenes v) = Some v) ->
       forall (m : kv blob) (r : ram) (ops : list (kvop blob)),
       startup blob dec_fab dec_basic dec_nets dec_labels dec_binds enc_res dec_res dec_tz dec_tts dec_icd
         dec_ota dec_scenes enc_sub dec_sub m = Some (r, ops) ->
       (forall x : N * N, In x (r_resump r) -> amem (r_fabs r) (fst x) = true) /\
       match aget (replay blob m ops) K_RESUMP with
       | Some b => dec_res b = Some (r_resump r)
       | None => r_resump r = []
       end).
