(** Statement pins for C03: the property theorems must have exactly these types. *)
From RsM Require Import Lib.MachInt Model.Headers Model.Dedup Model.Mrp Model.Exchange
  Model.Packet Model.PacketSpec Proofs.HeadersFacts Proofs.PacketFacts Proofs.PacketTheorems Props.C03.
Open Scope N_scope.

Check (C03_accept_sound :
  forall (W : world) (o : oracle) (st : pstate) (from : addr) (wire : list N)
         (st' : pstate) (out : outcome) (i : nat) (r : res bool),
  bytes wire ->
  decode_packet W o st from wire = (st', out) ->
  o_verdict out = Routed i r ->
  exists rest,
    wire = plain_encode (o_plain out) ++ rest /\ plain_wf (o_plain out) = true /\
    ( (exists s pt x0,
         find_sess (st_sessions st) from (o_plain out) = Some (i, s) /\
         proto_decode pt = Ok (x0, o_payload out) /\
         o_proto out = adjust_rel (addr_reliable (ps_addr s)) x0 /\
         (if mode_enc (ps_mode s) then authentic W s (o_plain out) pt rest else pt = rest))
      \/
      (find_sess (st_sessions st) from (o_plain out) = None /\
       plain_encrypted (o_plain out) = false /\
       exists s', nth_error (st_sessions st') i = Some s' /\ ps_mode s' = MPlain)
      \/
      (find_sess (st_sessions st) from (o_plain out) = None /\
       exists c src pt x0 s',
         In c (st_groups st) /\ gc_sid c = p_sess (o_plain out) /\
         plain_get_src (o_plain out) = Some src /\
         authentic_group W c src (o_plain out) pt rest /\
         proto_decode pt = Ok (x0, o_payload out) /\
         o_proto out = adjust_rel (addr_reliable from) x0 /\
         nth_error (st_sessions st') i = Some s' /\ ps_dec_key s' = gc_key c /\
         ps_mode s' = MGroup (gc_fab c) (gc_gid c) /\ ps_peer_node s' = Some src) )).

Check (C03_unauthentic_frame :
  forall (W : world) (o : oracle) (st : pstate) (from : addr) (wire : list N)
         (st' : pstate) (out : outcome),
  auth_check W st from wire = AuthNone ->
  decode_packet W o st from wire = (st', out) ->
  st' = st /\ not_routed (o_verdict out)).

Check (C03_reject_frame :
  forall (W : world) (o : oracle) (st : pstate) (from : addr) (wire : list N)
         (st' : pstate) (out : outcome),
  (length (st_sessions st) <= MAX_SESSIONS)%nat ->
  decode_packet W o st from wire = (st', out) ->
  not_routed (o_verdict out) ->
  st_sessions st' = st_sessions st).

Check (C03_routed_frame :
  forall (W : world) (o : oracle) (st : pstate) (from : addr) (wire : list N)
         (st' : pstate) (out : outcome) (i : nat) (r : res bool) (s : psess),
  decode_packet W o st from wire = (st', out) ->
  o_verdict out = Routed i r ->
  find_sess (st_sessions st) from (o_plain out) = Some (i, s) ->
  (forall j, j <> i -> nth_error (st_sessions st') j = nth_error (st_sessions st) j) /\
  (exists s', nth_error (st_sessions st') i = Some s' /\ same_ident s s') /\
  length (st_sessions st') = length (st_sessions st) /\
  st_groups st' = st_groups st /\
  (group_sender s (o_plain out) = None -> st_gstore st' = st_gstore st)).

Check (C03_replay_frame :
  forall (W : world) (o : oracle) (st : pstate) (from : addr) (wire : list N)
         (st' : pstate) (out : outcome) (i : nat) (r : res bool) (s : psess),
  decode_packet W o st from wire = (st', out) ->
  o_verdict out = Routed i r ->
  find_sess (st_sessions st) from (o_plain out) = Some (i, s) ->
  group_sender s (o_plain out) = None ->
  snd (post_recv (ps_win s) (p_ctr (o_plain out)) (mode_enc (ps_mode s)) false) = false ->
  st' = st /\ r = Err ERR_DUPLICATE).

Check (C03_forged_rejected :
  forall (W : world) (o : oracle) (st : pstate) (from : addr) (wire : list N)
         (st' : pstate) (out : outcome),
  bytes wire ->
  ~ In wire (honest_packets W) ->
  (forall p rest, plain_decode wire = Ok (p, rest) -> plain_encrypted p = true) ->
  decode_packet W o st from wire = (st', out) ->
  st' = st /\ not_routed (o_verdict out)).

Check (C03_mismatch_rejected :
  forall (W : world) (o : oracle) (st : pstate) (from : addr) (wire : list N)
         (st' : pstate) (out : outcome) (p : plain_hdr) (rest : list N) (i : nat) (s : psess)
         (k : N) (n a pt : list N),
  ct_unique W -> bytes wire ->
  plain_decode wire = Ok (p, rest) ->
  In (Aead k n a pt, rest) W ->
  find_sess (st_sessions st) from p = Some (i, s) -> mode_enc (ps_mode s) = true ->
  k <> ps_dec_key s \/ n <> nonce (p_sec p) (p_ctr p) (node_or0 (ps_peer_node s)) \/
    a <> plain_encode p ->
  decode_packet W o st from wire = (st', out) ->
  st' = st /\ not_routed (o_verdict out)).

Check (C03_cross_session_rejected :
  forall (W : world) (o : oracle) (st : pstate) (from : addr) (wire : list N)
         (st' : pstate) (out : outcome) (p : plain_hdr) (rest : list N) (i : nat) (s : psess)
         (k : N) (n a pt : list N),
  ct_unique W -> bytes wire -> plain_decode wire = Ok (p, rest) ->
  In (Aead k n a pt, rest) W ->
  find_sess (st_sessions st) from p = Some (i, s) -> mode_enc (ps_mode s) = true ->
  k <> ps_dec_key s ->
  decode_packet W o st from wire = (st', out) ->
  st' = st /\ not_routed (o_verdict out)).

Check (C03_other_source_node_rejected :
  forall (W : world) (o : oracle) (st : pstate) (from : addr) (wire : list N)
         (st' : pstate) (out : outcome) (p : plain_hdr) (rest : list N) (i : nat) (s : psess)
         (k node : N) (a pt : list N),
  ct_unique W -> bytes wire -> plain_decode wire = Ok (p, rest) ->
  In (Aead k (nonce (p_sec p) (p_ctr p) node) a pt, rest) W ->
  find_sess (st_sessions st) from p = Some (i, s) -> mode_enc (ps_mode s) = true ->
  node < two64 -> node_or0 (ps_peer_node s) < two64 -> node <> node_or0 (ps_peer_node s) ->
  decode_packet W o st from wire = (st', out) ->
  st' = st /\ not_routed (o_verdict out)).

Check (C03_header_tamper_rejected :
  forall (W : world) (o : oracle) (st : pstate) (from : addr) (wire : list N)
         (st' : pstate) (out : outcome) (p : plain_hdr) (rest : list N) (i : nat) (s : psess)
         (k : N) (n : list N) (p0 : plain_hdr) (pt : list N),
  ct_unique W -> bytes wire -> plain_decode wire = Ok (p, rest) ->
  In (Aead k n (plain_encode p0) pt, rest) W -> plain_wf p0 = true -> p0 <> p ->
  find_sess (st_sessions st) from p = Some (i, s) -> mode_enc (ps_mode s) = true ->
  decode_packet W o st from wire = (st', out) ->
  st' = st /\ not_routed (o_verdict out)).

Check (C03_aad_covers_header :
  forall (p1 p2 : plain_hdr) (r1 r2 : list N),
  plain_wf p1 = true -> plain_wf p2 = true -> p1 <> p2 ->
  plain_encode p1 ++ r1 <> plain_encode p2 ++ r2).

Check (C03_aad_is_header :
  forall (wire : list N) (p : plain_hdr) (rest : list N),
  bytes wire -> plain_decode wire = Ok (p, rest) ->
  consumed wire rest = plain_encode p /\ wire = plain_encode p ++ rest).

Check (C03_nonce_injective :
  forall sf ctr node sf' ctr' node' : N,
  sf < 256 -> sf' < 256 -> ctr < two32 -> ctr' < two32 -> node < two64 -> node' < two64 ->
  nonce sf ctr node = nonce sf' ctr' node' -> sf = sf' /\ ctr = ctr' /\ node = node').

Check (C03_encode_decode_roundtrip :
  forall (W : world) (o : oracle) (s : psess) (stB : pstate) (from : addr) (i : nat)
         (r : psess) (p : plain_hdr) (x : proto_hdr) (payload wire : list N),
  world_functional W ->
  plain_wf p = true -> proto_wf x = true ->
  mode_enc (ps_mode s) = true -> mode_enc (ps_mode r) = true ->
  ps_dec_key r = ps_enc_key s -> node_or0 (ps_peer_node r) = ps_local_node s ->
  session_encode W s p x payload = Ok wire ->
  find_sess (st_sessions stB) from p = Some (i, r) ->
  decode_packet W o stB from wire =
    route_existing stB i r p (adjust_rel (addr_reliable (ps_addr r)) x) payload).

Check (C03_roundtrip :
  forall (W : world) (o : oracle) (s : psess) (gctr sai : option N) (x : proto_hdr)
         (payload : list N) (s' : psess) (p : plain_hdr) (x' : proto_hdr) (wire : list N)
         (stB : pstate) (from : addr) (i : nat) (r : psess),
  world_functional W ->
  psess_wf s -> proto_wf (adjust_rel (addr_reliable (ps_addr s)) x) = true ->
  mirrored s r from ->
  nth_error (st_sessions stB) i = Some r ->
  (forall j t, (j < i)%nat -> nth_error (st_sessions stB) j = Some t ->
               is_for_rx t from (mkPlain 0 (ps_peer_sid s) 0 (ps_msg_ctr s) 0 0) = false) ->
  pre_send s None gctr sai x = (s', Ok (p, x')) ->
  session_encode W s' p x' payload = Ok wire ->
  decode_packet W o stB from wire =
    route_existing stB i r p (adjust_rel (addr_reliable (ps_addr r)) x') payload).

Check (C03_group_encode_auth :
  forall (W : world) (s : psess) (stB : pstate) (from : addr) (c : gcand) (others : list gcand)
         (p : plain_hdr) (x : proto_hdr) (payload wire : list N),
  world_functional W ->
  plain_wf p = true -> proto_wf x = true ->
  mode_enc (ps_mode s) = true ->
  session_encode W s p x payload = Ok wire ->
  find_sess (st_sessions stB) from p = None ->
  plain_group p = true -> plain_get_src p = Some (ps_local_node s) ->
  is_none (plain_get_dst_groupcast p) && is_none (plain_get_dst_unicast p) = false ->
  (length wire - length (plain_encode p) <= 1280)%nat ->
  group_cands stB p = c :: others -> gc_key c = ps_enc_key s ->
  auth_check W stB from wire = AuthGroup c p (adjust_rel (addr_reliable from) x) payload).

Check (C03_group_replay_rejected :
  forall (W : world) (o : oracle) (st : pstate) (from : addr) (wire : list N) (i : nat)
         (p : plain_hdr) (x : proto_hdr) (payload : list N) (s : psess) (fab src : N),
  auth_check W st from wire = AuthSession i p x payload ->
  find_sess (st_sessions st) from p = Some (i, s) ->
  group_sender s p = Some (fab, src) ->
  snd (g_post_recv (st_gstore st) fab src (p_ctr p)) = false ->
  o_verdict (snd (decode_packet W o st from wire)) = RejGroupDup /\
  st_sessions (fst (decode_packet W o st from wire)) = st_sessions st).

Check (C03_monitor_delivered :
  forall (W : world) (st : pstate) (from : addr) (wire : list N) (ob : observation) (b : bool),
  mon_decode W st from wire ob = true -> ob_ok ob = Some b ->
  auth_check W st from wire <> AuthNone).

Check (C03_monitor_frame :
  forall (W : world) (st : pstate) (from : addr) (wire : list N) (ob : observation),
  mon_decode W st from wire ob = true -> auth_check W st from wire = AuthNone ->
  ob_ok ob = None /\ ob_changed ob = [] /\ ob_ident_changed ob = false /\ ob_added ob = O /\
  ob_gstore_changed ob = false).

Check (C03_monitor_sound :
  forall (W : world) (st : pstate) (from : addr) (wire : list N) (ob : observation) (b : bool)
         (i : nat) (p : plain_hdr) (x : proto_hdr) (payload : list N),
  bytes wire ->
  mon_decode W st from wire ob = true -> ob_ok ob = Some b ->
  auth_check W st from wire = AuthSession i p x payload ->
  ob_plain ob = p /\ ob_proto ob = x /\ ob_payload ob = payload /\
  exists s rest pt x0,
    find_sess (st_sessions st) from p = Some (i, s) /\ wire = plain_encode p ++ rest /\
    proto_decode pt = Ok (x0, payload) /\ x = adjust_rel (addr_reliable (ps_addr s)) x0 /\
    (if mode_enc (ps_mode s) then authentic W s p pt rest else pt = rest)).
