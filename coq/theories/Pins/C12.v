(** Statement pins for C12: the property theorems must have exactly these
    types, so they cannot be weakened silently. *)
From RsM Require Import Lib.MachInt Model.Counters Model.CountersSpec
  Proofs.CountersGeneric Props.C12.
Open Scope N_scope.

Check (C12_group_unique_on_wire : forall (kv0 : option N) (sched : list gop),
  g_kv_ok kv0 -> g_travel sched <= G_MASK ->
  NoDup (yields (fst (g_run true (g_init kv0) sched)))).
Check (C12_group_covered_before_use :
  forall (kv0 : option N) (sched : list gop) (v : N) (kv : option N),
  g_kv_ok kv0 ->
  In (EvYield v kv) (fst (g_run true (g_init kv0) sched)) -> g_covers kv v = true).
Check (C12_event_unique_on_wire : forall (kv0 : option N) (sched : list eop),
  e_kv_ok kv0 -> e_travel sched <= E_SIZE ->
  NoDup (yields (fst (e_run true (e_init kv0) sched)))).
Check (C12_event_covered_before_use :
  forall (kv0 : option N) (sched : list eop) (v : N) (kv : option N),
  e_kv_ok kv0 ->
  In (EvYield v kv) (fst (e_run true (e_init kv0) sched)) -> e_covers kv v = true).
Check (C12_checkin_unique_on_wire :
  forall (epoch : N), 1 <= epoch < two32 ->
  forall (kv0 : option N) (r : N) (sched : list kop), k_kv_ok kv0 ->
  k_obedient (k_boot kv0 r epoch) sched = true -> k_travel epoch sched <= two32 ->
  NoDup (yields (fst (k_run (k_boot kv0 r epoch) sched)))).
Check (C12_checkin_covered_before_use :
  forall (epoch : N), 1 <= epoch < two32 ->
  forall (kv0 : option N) (r : N) (sched : list kop) (v : N) (kv : option N), k_kv_ok kv0 ->
  k_obedient (k_boot kv0 r epoch) sched = true ->
  In (EvYield v kv) (fst (k_run (k_boot kv0 r epoch) sched)) -> k_covers epoch kv v = true).
Check (C12_monitor_sound : forall (cov : option N -> N -> bool) (t : list cev),
  monitor cov t = true -> NoDup (yields t) /\ Forall (cev_cov cov) t).

(** the constants the statements are made of *)
Check (eq_refl : G_MASK = 268435455).
Check (eq_refl : G_EPOCH = 1000).
Check (eq_refl : E_SIZE = 18446744073709551615).
Check (eq_refl : E_EPOCH = 10000).
Check (eq_refl : two32 = 4294967296).
Check (eq_refl : g_cost GCrash = 1000).
Check (eq_refl : e_cost ECrash = 10000).
