(** Statement pins for C13: the property theorems must have exactly these
    types, so they cannot be weakened silently. *)
From RsM Require Import Lib.MachInt Model.Subs Model.SubsSpec Proofs.SubsInv Proofs.SubsTiming Proofs.SubsSlot Model.C13Events Proofs.C13EventsFacts Props.C13.
Open Scope N_scope.

Check (C13_no_lost_change : forall ops,
  N.of_nat (length ops) + 2 < two64 ->
  forall s p, In s (subs (run init ops)) -> In p (s_paths s) ->
    stale (log (run init ops)) (s_del s) p = true ->
    unprimed s = true \/ contains_since (tab (run init ops)) p (s_seen s) = true).
Check (C13_stale_is_reportable : forall ops,
  N.of_nat (length ops) + 2 < two64 ->
  forall s p, In s (subs (run init ops)) -> In p (s_paths s) ->
    stale (log (run init ops)) (s_del s) p = true ->
    forall now evw, report_allowed_at s <= now ->
      is_reportable s now (tab (run init ops)) evw = true).
Check (C13_no_lost_change_in_flight : forall ops,
  N.of_nat (length ops) + 2 < two64 ->
  forall x p, In x (ctxs (run init ops)) -> In p (s_paths (x_sub x)) ->
    stale (log (run init ops)) (s_del (x_sub x)) p = true ->
    should_report (tab (run init ops)) x p = true).
Check (C13_invariant : forall ops,
  N.of_nat (length ops) + 2 < two64 -> inv_b (run init ops) = true).
Check (C13_undelivered_event_is_reportable : forall ops,
  N.of_nat (length ops) + 2 < two64 ->
  forall s n, In s (subs (run init ops)) -> s_dev s < n ->
    forall now evw, n <= evw -> report_allowed_at s <= now ->
      is_reportable s now (tab (run init ops)) evw = true).
Check (C13_retry_same_content : forall st sid x,
  find_ctx sid (ctxs st) = Some x -> cancelled st = false ->
  let st' := fst (step st (OCtxEnd sid EFail)) in
  let s' := sub_after_fail x in
  tab st' = tab st /\ subs st' = subs st ++ [s'] /\
  s_id s' = s_id (x_sub x) /\ s_seen s' = s_seen (x_sub x) /\ s_seen_ev s' = s_seen_ev (x_sub x) /\
  s_rep_at s' = s_rep_at (x_sub x) /\ s_del s' = s_del (x_sub x) /\
  (forall p, should_report (tab st) x p =
             should_report (tab st') (mkCtx s' false (x_nseen x) (x_nseen_ev x) (x_now x) [] []) p)).
Check (C13_min_interval : forall st now lag sid,
  snd (step st (OReportBegin now lag)) = USid (Some sid) ->
  exists s, In s (subs st) /\ s_id s = sid /\ begin_ok s now = true /\
            In (mkCtx s false (watermark (next_chg st)) (evn st - lag) now [] [])
               (ctxs (fst (step st (OReportBegin now lag))))).
Check (C13_liveness_due : forall s tb evw,
  unprimed s = false -> s_min s <= s_max s ->
  s_retry_at s <= s_rep_at s + s_max s * 1000 -> s_rep_at s + s_max s * 1000 <= IMAX ->
  report_due_at s <= s_rep_at s + s_max s * 1000 /\
  next_report_at s tb evw <= s_rep_at s + s_max s * 1000 /\
  is_reportable s (next_report_at s tb evw) tb evw = true).
Check (C13_backoff_capped : forall x,
  x_now x + N.max (s_max (x_sub x)) 2 * 1000 <= IMAX ->
  x_now x <= s_retry_at (sub_after_fail x) <= x_now x + N.max (s_max (x_sub x)) 2 * 1000 /\
  expiry_anchor (sub_after_fail x) = expiry_anchor (x_sub x)).
Check (C13_expiry : forall ops now s,
  Forall op_time_ok ops ->
  In s (subs (fst (step (run init ops) (OWake now)))) -> expiry_ok s now = true).
Check (C13_established_is_kept : forall ops sid x,
  let st := run init ops in
  find_ctx sid (ctxs st) = Some x -> x_prim x = true ->
  let st' := fst (step st (OCtxEnd sid EOk)) in
  (exists s, In s (subs st') /\ s_id s = sid) /\
  reporting st' = reporting st /\ cancelled st' = cancelled st).
Check (C13_cancelled_report_is_dropped : forall ops r res,
  let st := run init ops in
  reporting st = Some r -> cancelled st = true ->
  let st' := fst (step st (OCtxEnd (s_id r) res)) in
  subs st' = subs st /\ reporting st' = None /\ cancelled st' = false /\ ~ In (s_id r) (all_ids st')).
Check (C13_slot_before_fix :
  ids_in_table (run_gen true false true init slot_witness) = [1] /\ ids_in_table (run init slot_witness) = [2]).
Check (C13_event_delivered_iff_retained : forall cap l seen upto n,
  N.of_nat (length l) + 3 < two64 ->
  let q := push_all cap evq_init l in
  In n (report_events q seen upto) <-> (retained q n = true /\ seen < n /\ n <= upto)).
Check (C13_event_delivered_unless_evicted : forall cap l seen n,
  N.of_nat (length l) + 3 < two64 ->
  let q := push_all cap evq_init l in
  seen < n -> n < q_next q -> evicted_undelivered q seen n = false ->
  In n (report_events q seen (q_next q - 1))).
Check (C13_reported_at_is_last_sent : forall ops s,
  Forall op_time_ok ops -> In s (subs (run init ops)) -> unprimed s = false -> s_rep_at s = s_since s).
Check (C13_liveness_from_last_sent : forall ops s tb evw,
  Forall op_time_ok ops -> In s (subs (run init ops)) ->
  unprimed s = false -> s_min s <= s_max s ->
  s_retry_at s <= s_since s + s_max s * 1000 -> s_since s + s_max s * 1000 <= IMAX ->
  next_report_at s tb evw <= s_since s + s_max s * 1000 /\
  is_reportable s (next_report_at s tb evw) tb evw = true).
