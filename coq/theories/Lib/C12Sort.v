(** Merge sort on [N] (stdlib functor instance), used by the executable
    form of property C12 to test a long trace for duplicates in
    O(n log n). *)
From Coq Require Import NArith List Orders Mergesort.

Module NOrderC12 <: TotalLeBool.
  Definition t := N.
  Definition leb := N.leb.
  Theorem leb_total : forall a1 a2, leb a1 a2 = true \/ leb a2 a1 = true.
  Proof.
    intros a b. unfold leb. destruct (N.leb_spec a b) as [Hab|Hba].
    - left. reflexivity.
    - right. apply N.leb_le. apply N.lt_le_incl. exact Hba.
  Qed.
End NOrderC12.

Module NSortC12 := Sort NOrderC12.
