(** Machine integers as [N] with explicit wrap / explicit checked results.
    Models only; the lemmas live in [Lib/MachIntFacts.v]. *)
From Coq Require Export NArith ZArith List Bool Lia.
Export ListNotations.
Open Scope N_scope.

Definition two8  : N := 256.
Definition two16 : N := 65536.
Definition two28 : N := 268435456.
Definition two31 : N := 2147483648.
Definition two32 : N := 4294967296.
Definition two64 : N := 18446744073709551616.

Definition wrap8  (x : N) : N := x mod two8.
Definition wrap16 (x : N) : N := x mod two16.
Definition wrap32 (x : N) : N := x mod two32.
Definition wrap64 (x : N) : N := x mod two64.

(** [a.wrapping_sub(b)] on u32 *)
Definition wsub32 (a b : N) : N := (a + two32 - b) mod two32.
Definition wadd32 (a b : N) : N := (a + b) mod two32.
(** [a.abs_diff(b)] *)
Definition absdiff (a b : N) : N := if a <? b then b - a else a - b.

(** Result of a model step that mirrors Rust code which may return an
    error or abort with a panic (arithmetic overflow in the checked
    profile, [unwrap] on [None], slice index out of range). *)
Inductive res (A : Type) : Type :=
| Ok (v : A)
| Err (code : N)
| Panic (site : N).
Arguments Ok {A} v.
Arguments Err {A} code.
Arguments Panic {A} site.

Definition bind {A B} (r : res A) (f : A -> res B) : res B :=
  match r with
  | Ok v => f v
  | Err c => Err c
  | Panic s => Panic s
  end.

Notation "'let?' x ':=' r 'in' k" := (bind r (fun x => k))
  (at level 200, x pattern, r at level 100, k at level 200, right associativity).

(** checked arithmetic in the profile with overflow checks *)
Definition cadd (bound : N) (site : N) (a b : N) : res N :=
  if a + b <? bound then Ok (a + b) else Panic site.
Definition csub (site : N) (a b : N) : res N :=
  if b <=? a then Ok (a - b) else Panic site.
