(** Characterising lemmas for the bit operations used by the models, so
    that later proofs never unfold bit arithmetic. *)
From RsM Require Import Lib.MachInt.
From Coq Require Import ZifyN ZifyBool.
Open Scope N_scope.

Lemma testbit_one_shiftl (i j : N) :
  N.testbit (N.shiftl 1 i) j = (j =? i).
Proof.
  destruct (N.eqb_spec j i) as [->|Hne].
  - rewrite N.shiftl_spec_high' by lia. rewrite N.sub_diag. reflexivity.
  - destruct (N.lt_ge_cases j i) as [Hlt|Hge].
    + apply N.shiftl_spec_low; assumption.
    + rewrite N.shiftl_spec_high' by assumption.
      destruct (j - i) as [|p] eqn:E; [lia|].
      destruct p; reflexivity.
Qed.

Lemma testbit_lor_bit (a i j : N) :
  N.testbit (N.lor a (N.shiftl 1 i)) j = N.testbit a j || (j =? i).
Proof. rewrite N.lor_spec, testbit_one_shiftl. reflexivity. Qed.

Lemma land_bit_eq0 (a i : N) :
  (N.land a (N.shiftl 1 i) =? 0) = negb (N.testbit a i).
Proof.
  destruct (N.testbit a i) eqn:Hb; cbn [negb].
  - apply N.eqb_neq. intro H0.
    assert (Ht : N.testbit (N.land a (N.shiftl 1 i)) i = true).
    { rewrite N.land_spec, Hb, testbit_one_shiftl, N.eqb_refl. reflexivity. }
    rewrite H0, N.bits_0 in Ht. discriminate.
  - apply N.eqb_eq. apply N.bits_inj_0. intro j.
    rewrite N.land_spec, testbit_one_shiftl.
    destruct (N.eqb_spec j i) as [->|]; [rewrite Hb|]; apply andb_false_r || reflexivity.
Qed.

Lemma testbit_mod_pow2 (a n j : N) :
  N.testbit (a mod 2 ^ n) j = (j <? n) && N.testbit a j.
Proof.
  destruct (N.ltb_spec j n).
  - rewrite N.mod_pow2_bits_low by assumption. reflexivity.
  - rewrite N.mod_pow2_bits_high by assumption. reflexivity.
Qed.

Lemma testbit_shiftl (a d j : N) :
  N.testbit (N.shiftl a d) j = (d <=? j) && N.testbit a (j - d).
Proof.
  destruct (N.leb_spec d j).
  - rewrite N.shiftl_spec_high' by assumption. reflexivity.
  - rewrite N.shiftl_spec_low by assumption. reflexivity.
Qed.

Lemma two16_pow : two16 = 2 ^ 16.
Proof. reflexivity. Qed.

Lemma lt_pow2_testbit_high (a n j : N) :
  a < 2 ^ n -> n <= j -> N.testbit a j = false.
Proof.
  intros Ha Hj. destruct (N.eq_dec a 0) as [->|Hne]; [apply N.bits_0|].
  apply N.bits_above_log2.
  apply N.lt_le_trans with n; [|assumption].
  apply N.log2_lt_pow2; lia.
Qed.

Lemma testbit_lt_pow2 (a n : N) :
  (forall j, n <= j -> N.testbit a j = false) -> a < 2 ^ n.
Proof.
  intros H. destruct (N.lt_ge_cases a (2 ^ n)) as [|Hge]; [assumption|].
  exfalso.
  assert (Ha : a <> 0).
  { intro; subst. assert (0 < 2 ^ n) by (apply N.neq_0_lt_0, N.pow_nonzero; lia). lia. }
  assert (Hl : n <= N.log2 a) by (apply N.log2_le_pow2; lia).
  specialize (H _ Hl). rewrite N.bit_log2 in H by assumption. discriminate.
Qed.
