(** Property C14 — a chunked answer carries the complete result exactly once.
    Property theorems only.

    Model: Model/Chunk.v, the chunking ReportData responder of im.rs (as
    repaired in branch verif-c14) over a work list of SIZED entries: attribute
    reports, list attributes (size of the whole-list report, of the empty-list
    marker, of each element report), event statuses and queued events.  All
    theorems quantify over every work list, every combination of sizes, every
    buffer size [tx] and reserve with [cfg_ok] (reserve >= 10, a reply can be
    opened), with or without subscription id, and every amount of fuel.
    Observations are made through [parse_chunk]: what a client sees of each
    message taken on its own.  Vocabulary: Model/ChunkSpec.v. *)
From RsM Require Import Lib.MachInt Model.Chunk Model.ChunkSpec
  Proofs.ChunkFacts Proofs.ChunkEvents Proofs.ChunkTheorems Proofs.ChunkFront Proofs.ChunkRounds.
Open Scope N_scope.

(** Every entry of the work list travels exactly once, in order, in one of its
    legal forms (whole, or marker followed by all its elements in order). *)
Theorem C14_exactly_once_in_order :
  forall (n : nat) (c : cfg) (its : list item) (stats : list atom) (evs : list ev),
  cfg_ok c = true -> ev_sorted evs ->
  forall chunks : list (list token),
  has_attrs c = true -> respond n c its stats evs = (ODone, chunks) ->
  exists vs gs, map parse_chunk chunks = map Some vs /\ Forall2 sent_as its gs /\
                all_attr_atoms vs = concat gs.
Proof. exact exactly_once_in_order. Qed.
Print Assumptions C14_exactly_once_in_order.

(** The client's reassembly (marker first, then appends numbered 0, 1, 2 ... of the
    same list) succeeds and yields, per requested attribute and in order, the whole
    value, or the list with exactly its number of elements, or the status. *)
Theorem C14_lists_reassemble :
  forall (n : nat) (c : cfg) (its : list item) (stats : list atom) (evs : list ev),
  cfg_ok c = true -> ev_sorted evs ->
  forall chunks : list (list token),
  has_attrs c = true -> forallb item_ok its = true -> respond n c its stats evs = (ODone, chunks) ->
  exists vs ids, map parse_chunk chunks = map Some vs /\
                 reasm (all_attr_atoms vs) None = Some ids /\
                 forall2b matches (map expect_of_item its) ids = true.
Proof. exact lists_reassemble. Qed.
Print Assumptions C14_lists_reassemble.

(** Events: the statuses of the invalid concrete paths, then every queued event in
    the reader's range that is selected, exactly once, in queue order, however often
    the queue was re-read from its start after a chunk. *)
Theorem C14_events_exactly_once :
  forall (n : nat) (c : cfg) (its : list item) (stats : list atom) (evs : list ev),
  cfg_ok c = true -> ev_sorted evs ->
  forall chunks : list (list token),
  has_events c = true -> respond n c its stats evs = (ODone, chunks) ->
  exists vs, map parse_chunk chunks = map Some vs /\
    all_event_atoms vs = stats ++ map ev_atom
      (filter (fun e => (ev_lo c <? ev_num e) && (ev_num e <=? ev_hi c) && ev_sel e) evs).
Proof. exact events_exactly_once. Qed.
Print Assumptions C14_events_exactly_once.

(** Every message sent -- whatever the outcome -- fits the transmit buffer, is a
    complete ReportDataMessage on its own, and has no byte unaccounted for. *)
Theorem C14_each_chunk_fits_and_parses :
  forall (n : nat) (c : cfg) (its : list item) (stats : list atom) (evs : list ev),
  cfg_ok c = true -> ev_sorted evs ->
  forall (o : outcome) (chunks : list (list token)),
  respond n c its stats evs = (o, chunks) ->
  Forall (fun ch => tsum ch <= tx c /\
                    exists v, parse_chunk ch = Some v /\ v_size v = tsum ch /\ view_size v = tsum ch) chunks.
Proof. exact each_chunk_fits_and_parses. Qed.
Print Assumptions C14_each_chunk_fits_and_parses.

(** Only the last message ends the interaction: all others carry
    MoreChunkedMessages (and no SuppressResponse), the last one does not and carries
    SuppressResponse exactly when asked to. *)
Theorem C14_only_last_ends :
  forall (n : nat) (c : cfg) (its : list item) (stats : list atom) (evs : list ev),
  cfg_ok c = true -> ev_sorted evs ->
  forall chunks : list (list token),
  respond n c its stats evs = (ODone, chunks) ->
  exists vs, map parse_chunk chunks = map Some vs /\ only_last_ends vs = true /\
             last_supp vs (suppress c) = true.
Proof. exact only_last_ends_run. Qed.
Print Assumptions C14_only_last_ends.

(** An answer that is cut short never pretends to be complete. *)
Theorem C14_unfinished_never_ends :
  forall (n : nat) (c : cfg) (its : list item) (stats : list atom) (evs : list ev),
  cfg_ok c = true -> ev_sorted evs ->
  forall (o : outcome) (chunks : list (list token)),
  respond n c its stats evs = (o, chunks) -> o <> ODone ->
  exists vs, map parse_chunk chunks = map Some vs /\
             forallb (fun v => v_more v && negb (v_supp v)) vs = true.
Proof. exact unfinished_never_ends. Qed.
Print Assumptions C14_unfinished_never_ends.

(** Termination, for ALL sizes (repaired code): no loop of the responder runs more
    often than there are queued events plus one; in particular a report larger than
    a whole message does not produce an unbounded sequence of chunks. *)
Theorem C14_terminates :
  forall (n : nat) (c : cfg) (its : list item) (stats : list atom) (evs : list ev),
  cfg_ok c = true -> ev_sorted evs ->
  (length evs < n)%nat -> fst (respond n c its stats evs) <> OFuel.
Proof. exact terminates. Qed.
Print Assumptions C14_terminates.

(** Under the stated hypothesis -- every report that may have to be written fits an
    empty message -- the answer is complete. *)
Theorem C14_completes_when_items_fit :
  forall (n : nat) (c : cfg) (its : list item) (stats : list atom) (evs : list ev),
  cfg_ok c = true -> ev_sorted evs -> accept c = None ->
  (length evs < n)%nat -> all_fit c its stats evs = true -> fst (respond n c its stats evs) = ODone.
Proof. exact completes. Qed.
Print Assumptions C14_completes_when_items_fit.

(** ... and the ResourceExhausted ending happens only when that hypothesis fails. *)
Theorem C14_status_only_when_oversized :
  forall (n : nat) (c : cfg) (its : list item) (stats : list atom) (evs : list ev),
  cfg_ok c = true -> ev_sorted evs ->
  fst (respond n c its stats evs) = OStatus ->
  forallb (item_fits c) its = false \/ forallb (fun e => ev_size e <=? fresh_room c) evs = false.
Proof. exact status_means_oversized. Qed.
Print Assumptions C14_status_only_when_oversized.

(** * A peer that refuses a chunk, or stops answering

    [accept c = Some k]: the peer answers k chunks with Success; its answer to the next one is another
    status, or never comes.  The responder stops there ([OAbort]). *)

(** An aborted answer never claims to be complete: every message that went out announces more. *)
Theorem C14_aborted_never_claims_completeness :
  forall (n : nat) (c : cfg) (its : list item) (stats : list atom) (evs : list ev),
  cfg_ok c = true -> ev_sorted evs ->
  forall chunks : list (list token),
  respond n c its stats evs = (OAbort, chunks) ->
  exists vs, map parse_chunk chunks = map Some vs /\
             forallb (fun v => v_more v && negb (v_supp v)) vs = true.
Proof. exact aborted_never_complete. Qed.
Print Assumptions C14_aborted_never_claims_completeness.

(** ... and only a peer that can refuse makes the responder stop that way. *)
Theorem C14_accepting_peer_never_aborts :
  forall (n : nat) (c : cfg) (its : list item) (stats : list atom) (evs : list ev),
  cfg_ok c = true -> ev_sorted evs ->
  accept c = None -> fst (respond n c its stats evs) <> OAbort.
Proof. exact accepting_never_aborts. Qed.
Print Assumptions C14_accepting_peer_never_aborts.

(** The subscription after an aborted report ([report_round] = one turn of [process_subscriptions]):
    silence leaves it exactly as it was (nothing is marked as delivered), a refusal removes it; in
    both cases no message of the aborted answer lacks MoreChunkedMessages. *)
Theorem C14_aborted_round :
  forall (n : nat) (c : cfg) (sb : sub) (hi : N) (stats : list atom) (evs : list ev),
  cfg_ok c = true -> ev_sorted evs ->
  forall (how : silence) (x : option sub) (ch : list (list token)),
  report_round n c how sb hi stats evs = (x, OAbort, ch) ->
  x = match how with Silent => Some sb | Refuses => None end /\
  exists vs, map parse_chunk ch = map Some vs /\
             forallb (fun v => v_more v && negb (v_supp v)) vs = true.
Proof.
  intros n c sb hi stats evs Hc Hs how x ch E. split.
  - destruct how; [exact (round_refused_abort n c sb hi stats evs x ch E) | exact (round_silent_abort n c sb hi stats evs x ch E)].
  - exact (round_abort_never_complete n c sb hi stats evs Hc Hs how x ch E).
Qed.
Print Assumptions C14_aborted_round.

(** The next interaction starts clean: whatever the subscription went through before, a round with a
    peer that answers delivers everything pending -- the changed attributes and all selected events
    above the subscription's watermark -- exactly once and in order, ends properly, and advances the
    subscription.  (For a read there is no state between interactions at all: every [respond] starts
    from [init_st].) *)
Theorem C14_next_round_starts_clean :
  forall (n : nat) (c : cfg) (sb : sub) (hi : N) (stats : list atom) (evs : list ev),
  cfg_ok c = true -> ev_sorted evs ->
  forall how : silence,
  accept c = None -> has_attrs c = true -> has_events c = true ->
  (length evs < n)%nat -> all_fit c (sb_pending sb) stats evs = true ->
  nothing_to_report (with_window c (sb_seen sb) hi) (sb_pending sb) stats evs = false ->
  exists ch vs gs,
    report_round n c how sb hi stats evs = (Some (mkSub hi []), ODone, ch) /\
    map parse_chunk ch = map Some vs /\
    Forall2 sent_as (sb_pending sb) gs /\ all_attr_atoms vs = concat gs /\
    all_event_atoms vs = stats ++ map ev_atom
      (filter (fun e => (sb_seen sb <? ev_num e) && (ev_num e <=? hi) && ev_sel e) evs) /\
    only_last_ends vs = true.
Proof. exact round_complete. Qed.
Print Assumptions C14_next_round_starts_clean.

(** The executable property (the monitor that is run on the implementation's chunks)
    accepts every complete answer of the model ... *)
Theorem C14_monitor_accepts_model :
  forall (n : nat) (c : cfg) (its : list item) (stats : list atom) (evs : list ev),
  cfg_ok c = true -> ev_sorted evs ->
  forall chunks : list (list token),
  has_attrs c = true -> has_events c = true ->
  forallb item_ok its = true -> forallb is_evstatus stats = true ->
  respond n c its stats evs = (ODone, chunks) ->
  exists vs, map parse_chunk chunks = map Some vs /\
    c14_holds (tx c) (suppress c) (map expect_of_item its)
              (map evx_of_atom (events_total c stats evs)) vs = true.
Proof. exact monitor_accepts. Qed.
Print Assumptions C14_monitor_accepts_model.

(** ... and means what the property says, for any list of observed messages. *)
Theorem C14_monitor_sound :
  forall (txmax : N) (supp : bool) (ex : list expect) (xs : list evexpect) (vs : list view),
  c14_holds txmax supp ex xs vs = true ->
  (exists ids, reasm (all_attr_atoms vs) None = Some ids /\ Forall2 (fun e i => matches e i = true) ex ids) /\
  Forall2 (fun e a => ev_matches e a = true) xs (all_event_atoms vs) /\
  Forall (fun v => v_size v <= txmax /\ view_size v = v_size v) vs /\
  (exists init last, vs = init ++ [last] /\
     Forall (fun v => v_more v = true /\ v_supp v = false) init /\ v_more last = false /\ v_supp last = supp).
Proof. exact monitor_sound. Qed.
Print Assumptions C14_monitor_sound.

(** The driver's front end (synthetic node + request) meets the hypotheses above and
    hands the monitor the expectations the theorems speak about. *)
Theorem C14_front_end_consistent :
  forall (c : cfg) (nd : node) (fs : list (N * N * N)) (qs eqs : list rpath) (mins : list N) (l : list evspec),
  expects_of nd fs qs = map expect_of_item (items_of nd fs qs) /\
  forallb item_ok (items_of nd fs qs) = true /\
  forallb is_evstatus (ev_statuses_of nd eqs) = true /\
  ev_sorted (evs_of nd eqs mins 1 l) /\
  evexpects_of c nd eqs (evs_of nd eqs mins 1 l)
    = map evx_of_atom (events_total c (ev_statuses_of nd eqs) (evs_of nd eqs mins 1 l)).
Proof.
  intros c nd fs qs eqs mins l.
  exact (conj (expects_of_items nd fs qs) (conj (items_of_ok nd fs qs) (conj (ev_statuses_ok nd eqs)
        (conj (evs_of_sorted nd eqs mins l 1) (evexpects_of_total c nd eqs _))))).
Qed.
Print Assumptions C14_front_end_consistent.

(** ... also for subscription reports: the changed attributes of the subscribed paths, in expansion order, read
    from the node with the bumped data versions -- and regardless of the subscribe request's data-version filters. *)
Theorem C14_report_front_end_consistent :
  forall (nd : node) (qs chs : list rpath),
  forallb item_ok (report_items_of nd qs chs) = true /\
  (forall it, In it (report_items_of nd qs chs) -> In it (items_of (bump_node nd chs) [] qs)).
Proof.
  intros nd qs chs. split; [apply report_items_ok|].
  intros it H. unfold report_items_of in H. apply filter_In in H. tauto.
Qed.
Print Assumptions C14_report_front_end_consistent.

(** * Non-vacuity: the hypotheses are satisfiable, the outcomes are inhabited *)

Definition cfg_read : cfg := mkCfg TX_DEFAULT RESERVE_DEFAULT None true true true 0 18446744073709551615 None.
Definition cfg_sub : cfg := mkCfg TX_DEFAULT RESERVE_DEFAULT (Some 1) false true true 0 18446744073709551615 None.

Example C14_ex_cfg_ok : cfg_ok cfg_read = true /\ cfg_ok cfg_sub = true /\ fresh_room cfg_read = 1151 /\ fresh_room cfg_sub = 1148.
Proof. vm_compute. repeat split. Qed.

(** two values that fill the buffer exactly up to the reserve (the case the unrepaired code failed on) *)
Example C14_ex_exact_fit :
  let r := respond 8 cfg_read [IOne (AWhole (0,100,0) 624); IOne (AWhole (0,100,1) 527)] [] [] in
  fst r = ODone /\ map tsum (snd r) = [1164].
Proof. vm_compute. split; reflexivity. Qed.

(** a list longer than a message is streamed element by element over three messages *)
Example C14_ex_long_list :
  let r := respond 8 cfg_read [IOne (AWhole (0,100,0) 33); IArr (0,100,1) 1837 23 [626; 626; 626] 22] [] [] in
  fst r = ODone /\ map tsum (snd r) = [692; 636; 639] /\
  option_map all_attr_atoms (Some (map (fun ch => match parse_chunk ch with Some v => v | None => mkView None None None false false 0 end) (snd r)))
  = Some [AWhole (0,100,0) 33; AMarker (0,100,1) 23; AElem (0,100,1) 0 626; AElem (0,100,1) 1 626; AElem (0,100,1) 2 626].
Proof. vm_compute. repeat split. Qed.

(** a single report one byte larger than an empty message: ResourceExhausted, no chunk at all *)
Example C14_ex_oversized :
  all_fit cfg_read [IOne (AWhole (0,100,0) 1152)] [] [] = false /\
  respond 8 cfg_read [IOne (AWhole (0,100,0) 1152)] [] [] = (OStatus, []) /\
  fst (respond 8 cfg_read [IOne (AWhole (0,100,0) 1151)] [] []) = ODone.
Proof. vm_compute. repeat split. Qed.

(** a peer that accepts one chunk and refuses the second: the answer stops after two messages, both with More;
    the same request with a peer that answers is complete in three *)
Definition cfg_refuse1 : cfg := mkCfg TX_DEFAULT RESERVE_DEFAULT None true true true 0 18446744073709551615 (Some 1).
Example C14_ex_abort :
  let its := [IOne (AWhole (0,100,0) 33); IArr (0,100,1) 1837 23 [626; 626; 626] 22] in
  let r := respond 8 cfg_refuse1 its [] [] in
  fst r = OAbort /\ map tsum (snd r) = [692; 636] /\
  firstn 2 (snd (respond 8 cfg_read its [] [])) = snd r.
Proof. vm_compute. repeat split. Qed.

(** a report with nothing to report sends nothing; a silent abort keeps the subscription, a refusal drops it *)
Example C14_ex_rounds :
  let sb := mkSub 2 [IArr (0,100,1) 1837 23 [626; 626; 626] 22] in
  let evs := [mkEv 1 39 true; mkEv 2 730 true; mkEv 3 731 true] in
  respond_report 8 (with_window cfg_sub 3 3) [] [] evs = (ODone, []) /\
  fst (report_round 8 (with_window cfg_refuse1 0 0) Silent sb 3 [] evs) = (Some sb, OAbort) /\
  fst (report_round 8 (with_window cfg_refuse1 0 0) Refuses sb 3 [] evs) = (None, OAbort) /\
  fst (report_round 8 cfg_sub Silent sb 3 [] evs) = (Some (mkSub 3 []), ODone).
Proof. vm_compute. repeat split. Qed.

(** events are resumed by number across messages *)
Example C14_ex_events :
  let evs := [mkEv 1 39 true; mkEv 2 730 true; mkEv 3 731 true] in
  let r := respond 8 cfg_read [IOne (AWhole (0,100,0) 33)] [] evs in
  ev_sorted evs /\ fst r = ODone /\ map tsum (snd r) = [815; 741].
Proof.
  vm_compute. split; [|split; reflexivity].
  repeat constructor.
Qed.
