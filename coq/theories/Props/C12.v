(** Property C12 - durable counters never hand out the same value twice,
    across restarts too; a value is used only after a boundary covering it
    has been stored.  Property theorems only.

    Schedules are arbitrary lists of operations (use, store succeeds,
    store fails, restart - in any order, any number of times); [yields]
    is everything handed out for the wire over all the runs of the
    schedule.  The one-lap bound ([*_travel sched <= size of the ring]:
    one per use, one epoch per restart) is part of each uniqueness
    statement; the start value is any boundary the code can have stored,
    so the wrap-around neighbourhood is included. *)
From RsM Require Import Lib.MachInt Model.Counters Model.CountersSpec
  Proofs.CountersGeneric Proofs.CountersGroup Proofs.CountersEvent Proofs.CountersCheckin.
Open Scope N_scope.

(** ** Global group data message counter (store failures included) *)

Theorem C12_group_unique_on_wire : forall (kv0 : option N) (sched : list gop),
  g_kv_ok kv0 -> g_travel sched <= G_MASK ->
  NoDup (yields (fst (g_run true (g_init kv0) sched))).
Proof. exact group_unique_on_wire. Qed.
Print Assumptions C12_group_unique_on_wire.

Theorem C12_group_covered_before_use :
  forall (kv0 : option N) (sched : list gop) (v : N) (kv : option N),
  g_kv_ok kv0 ->
  In (EvYield v kv) (fst (g_run true (g_init kv0) sched)) -> g_covers kv v = true.
Proof. exact group_covered_before_use. Qed.
Print Assumptions C12_group_covered_before_use.

(** ** Event numbers (store failures included) *)

Theorem C12_event_unique_on_wire : forall (kv0 : option N) (sched : list eop),
  e_kv_ok kv0 -> e_travel sched <= E_SIZE ->
  NoDup (yields (fst (e_run true (e_init kv0) sched))).
Proof. exact event_unique_on_wire. Qed.
Print Assumptions C12_event_unique_on_wire.

Theorem C12_event_covered_before_use :
  forall (kv0 : option N) (sched : list eop) (v : N) (kv : option N),
  e_kv_ok kv0 ->
  In (EvYield v kv) (fst (e_run true (e_init kv0) sched)) -> e_covers kv v = true.
Proof. exact event_covered_before_use. Qed.
Print Assumptions C12_event_covered_before_use.

(** ** Check-in counter, for an application that does not send while a
    store the interface asked for is still owed *)

Theorem C12_checkin_unique_on_wire :
  forall (epoch : N), 1 <= epoch < two32 ->
  forall (kv0 : option N) (r : N) (sched : list kop), k_kv_ok kv0 ->
  k_obedient (k_boot kv0 r epoch) sched = true -> k_travel epoch sched <= two32 ->
  NoDup (yields (fst (k_run (k_boot kv0 r epoch) sched))).
Proof. exact checkin_unique_on_wire. Qed.
Print Assumptions C12_checkin_unique_on_wire.

Theorem C12_checkin_covered_before_use :
  forall (epoch : N), 1 <= epoch < two32 ->
  forall (kv0 : option N) (r : N) (sched : list kop) (v : N) (kv : option N), k_kv_ok kv0 ->
  k_obedient (k_boot kv0 r epoch) sched = true ->
  In (EvYield v kv) (fst (k_run (k_boot kv0 r epoch) sched)) -> k_covers epoch kv v = true.
Proof. exact checkin_covered_before_use. Qed.
Print Assumptions C12_checkin_covered_before_use.

(** ** The executable form run on the implementation's traces is sound *)

Theorem C12_monitor_sound : forall (cov : option N -> N -> bool) (t : list cev),
  monitor cov t = true ->
  NoDup (yields t) /\ Forall (cev_cov cov) t.
Proof. exact monitor_sound. Qed.
Print Assumptions C12_monitor_sound.

(** The monitor asks for the epoch-independent part of "covers" (the
    restart point lies ahead of the value in the serial order of the
    ring), which the tight form proved above implies. *)
Theorem C12_covers_implies_ahead : forall (kv : option N) (v : N),
  (g_covers kv v = true -> g_ahead kv v = true) /\
  (e_covers kv v = true -> e_ahead kv v = true) /\
  (forall epoch, epoch <= two31 -> k_covers epoch kv v = true -> k_ahead kv v = true).
Proof.
  exact (fun kv v => conj (g_covers_ahead kv v)
                    (conj (e_covers_ahead kv v) (fun ep => k_covers_ahead ep kv v))).
Qed.
Print Assumptions C12_covers_implies_ahead.

(** ** What fails without the repairs / without the hypothesis *)

(** [initiate_group] before the repair (reservation kept when the store
    fails): 1001 is sent with the stored boundary still 1000, and sent
    again after a restart. *)
Theorem C12_group_store_failure_refuted_before_fix :
  g_travel g_witness_unfixed <= G_MASK /\
  yields (fst (g_run false (g_init (Some 1000)) g_witness_unfixed)) = [1001; 1000; 1001] /\
  In (EvYield 1001 (Some 1000)) (fst (g_run false (g_init (Some 1000)) g_witness_unfixed)) /\
  g_covers (Some 1000) 1001 = false.
Proof. exact group_unfixed_refuted. Qed.
Print Assumptions C12_group_store_failure_refuted_before_fix.

(** [next_event_number] before the repair, from the last epoch start below 2^64. *)
Theorem C12_event_wrap_refuted_before_fix :
  e_kv_ok (Some e_last_epoch) /\ e_travel e_witness_unfixed <= E_SIZE /\
  yields (fst (e_run false (e_init (Some e_last_epoch)) e_witness_unfixed)) =
    [e_last_epoch; 8384; 8384] /\
  In (EvYield 8384 (Some 8384)) (fst (e_run false (e_init (Some e_last_epoch)) e_witness_unfixed)) /\
  e_covers (Some 8384) 8384 = false.
Proof. exact event_unfixed_refuted. Qed.
Print Assumptions C12_event_wrap_refuted_before_fix.

(** The check-in hypothesis is needed. *)
Theorem C12_checkin_disobedient_refuted :
  k_obedient (k_boot (Some 10) 0 2) k_witness_disobedient = false /\
  k_travel 2 k_witness_disobedient <= two32 /\
  yields (fst (k_run (k_boot (Some 10) 0 2) k_witness_disobedient)) = [11; 12; 13; 13].
Proof. exact checkin_disobedient_refuted. Qed.
Print Assumptions C12_checkin_disobedient_refuted.

(** ** Non-vacuity: schedules across the wrap-around that meet the hypotheses *)

Example C12_ex_group_wrap :
  g_kv_ok (Some 268435000) /\
  g_travel [GReserve 0; GStore true; GReserve 0; GCrash; GReserve 0; GStore false;
            GReserve 0; GStore true] <= G_MASK /\
  fst (g_run true (g_init (Some 268435000))
         [GReserve 0; GStore true; GReserve 0; GCrash; GReserve 0; GStore false;
          GReserve 0; GStore true]) =
  [EvPend 544; EvYield 268435000 (Some 544); EvYield 268435001 (Some 544); EvBoot;
   EvPend 1544; EvFail; EvPend 1544; EvYield 544 (Some 1544)].
Proof. vm_compute. repeat split; discriminate. Qed.

Example C12_ex_group_reset :
  fst (g_run true (g_init (Some 1000)) [GReserve 0; GStore true; GReset; GSync 7; GReserve 0]) =
  [EvPend 2000; EvYield 1000 (Some 2000); EvDone; EvDone; EvYield 1001 (Some 2000)].
Proof. vm_compute. reflexivity. Qed.

Example C12_ex_event_wrap :
  e_kv_ok (Some 18446744073709550000) /\
  fst (e_run true (e_init (Some 18446744073709550000))
         [EPush true; EPush true; ECrash; EPush false; EPush true; EPush true]) =
  [EvYield 18446744073709550000 (Some 1); EvYield 18446744073709550001 (Some 1); EvBoot;
   EvFail; EvYield 1 (Some 10000); EvYield 2 (Some 10000)].
Proof. vm_compute. repeat split; discriminate. Qed.

Example C12_ex_checkin_wrap :
  k_obedient (k_boot (Some 4294967294) 0 3)
    [KPersist true; KSend true; KSend true; KSend false; KPersist true; KSend true;
     KCrash 7; KPersist true; KSend true] = true /\
  fst (k_run (k_boot (Some 4294967294) 0 3)
    [KPersist true; KSend true; KSend true; KSend false; KPersist true; KSend true;
     KCrash 7; KPersist true; KSend true]) =
  [EvDone; EvYield 4294967295 (Some 1); EvYield 0 (Some 1); EvYield 1 (Some 1); EvDone;
   EvYield 2 (Some 4); EvBoot; EvDone; EvYield 5 (Some 7)].
Proof. vm_compute. split; reflexivity. Qed.
