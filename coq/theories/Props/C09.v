(** Property C09 — reliable messaging delivers each message at most once and
    reports the truth.  Property theorems only.

    System model: one exchange of a secure unicast session, sender A, receiver
    B, adversarial network (Model/Mrp.v).  Quantification is over every
    operation sequence of the adversary/scheduler ([list op]). *)
From RsM Require Import Lib.MachInt Model.Dedup Model.Mrp Proofs.DedupFacts
  Proofs.MrpSys Proofs.MrpTheorems Proofs.MrpLive Model.MrpSender Proofs.MrpSender.
From Coq Require Import Sorted.
Open Scope N_scope.

Theorem C09_at_most_once : forall (c0 : N) (ops : list op),
  NoDup (b_delivered (run_sys (sys_init c0) ops)).
Proof. exact delivered_at_most_once. Qed.
Print Assumptions C09_at_most_once.

Theorem C09_in_order : forall (c0 : N) (ops : list op),
  StronglySorted N.lt (b_delivered (run_sys (sys_init c0) ops)).
Proof. exact delivered_in_order. Qed.
Print Assumptions C09_in_order.

(** Success is reported only for a message the peer's stack took -- except
    for the known class: a message acknowledged as a duplicate though never
    delivered ([b_overtaken]), which by [C09_overtaken_needs_17_newer] requires
    that a counter more than 16 ahead was accepted on the session first. *)
Theorem C09_ok_implies_received_unless_overtaken : forall (c0 : N) (ops : list op) (c : N),
  let s := run_sys (sys_init c0) ops in
  In (c, true) (a_results s) -> In c (b_delivered s) \/ In c (b_overtaken s).
Proof. exact ok_implies_received_or_overtaken. Qed.
Print Assumptions C09_ok_implies_received_unless_overtaken.

Theorem C09_overtaken_is_rejected_undelivered : forall (c0 : N) (ops : list op) (c : N),
  let s := run_sys (sys_init c0) ops in
  In c (b_overtaken s) -> Seen (b_win s) c /\ ~ In c (b_delivered s).
Proof. exact overtaken_is_rejected_undelivered. Qed.
Print Assumptions C09_overtaken_is_rejected_undelivered.

Theorem C09_overtaken_needs_17_newer : forall (h : list N) (v : N),
  snd (post_recv (final true false rx_unsynced h) v true false) = false ->
  ~ In v (accepted true false rx_unsynced h) ->
  exists a, In a (accepted true false rx_unsynced h) /\ v + 16 < a.
Proof. exact reject_fresh_means_overtaken. Qed.
Print Assumptions C09_overtaken_needs_17_newer.

(** Retransmission budget: a pending message has been transmitted at most 6
    times; without an acknowledgement the send ends with TxTimeout after the
    remaining timer expiries -- never success, never an unbounded wait. *)
Theorem C09_pending_bounded : forall (c0 : N) (ops : list op) (c k : N),
  let s := run_sys (sys_init c0) ops in
  a_retr s = Some (c, k) -> k <= 5 /\ a_tx s = k + 1 /\ a_tx s <= 6.
Proof. exact pending_bounded. Qed.
Print Assumptions C09_pending_bounded.

Theorem C09_gives_up_without_ack : forall (n : nat) (s : sys) (c k : N),
  a_retr s = Some (c, k) -> k <= 5 -> n = N.to_nat (6 - k) ->
  a_retr (timers n s) = None /\
  a_results (timers n s) = a_results s ++ [(c, false)].
Proof. exact gives_up_without_ack. Qed.
Print Assumptions C09_gives_up_without_ack.

(** If a transmission and the acknowledgement get through, the call succeeds;
    every delivered copy (first or duplicate) is acknowledged again. *)
Theorem C09_every_copy_acked : forall (s : sys) (i : nat) (c : N),
  nth_error (ab s) i = Some (c, Main) -> In (c, Main) (ba (step s (Deliver i))).
Proof. exact main_delivery_is_acked. Qed.
Print Assumptions C09_every_copy_acked.

Theorem C09_ack_completes_send : forall (s : sys) (j : nat) (c k : N),
  a_retr s = Some (c, k) -> nth_error (ba s) j = Some (c, Main) ->
  a_retr (step s (DeliverAck j)) = None /\
  a_results (step s (DeliverAck j)) = a_results s ++ [(c, true)].
Proof. exact ack_completes_send. Qed.
Print Assumptions C09_ack_completes_send.

(** The composed statement: message [c] is pending after [k] retransmissions;
    ONE copy of it reaches B; then anything happens - submissions on other
    exchanges, timer expiries within the retransmission budget, deliveries,
    duplications and losses of data datagrams, duplications of
    acknowledgements - except that no acknowledgement is delivered or lost;
    then ONE acknowledgement of [c] (there is one in the network) reaches A:
    the send completes with success. *)
Theorem C09_one_copy_one_ack_suffice : forall (s : sys) (c k : N) (i : nat) (mid : list op),
  a_retr s = Some (c, k) -> nth_error (ab s) i = Some (c, Main) ->
  forallb keeps_acks mid = true -> k + ntimers mid <= 5 ->
  let s2 := run_sys (step s (Deliver i)) mid in
  exists j, nth_error (ba s2) j = Some (c, Main) /\
            a_retr (step s2 (DeliverAck j)) = None /\
            a_results (step s2 (DeliverAck j)) = a_results s2 ++ [(c, true)].
Proof. exact one_copy_one_ack_suffice. Qed.
Print Assumptions C09_one_copy_one_ack_suffice.

Theorem C09_stale_ack_ignored : forall (s : sys) (j : nat) (c k c' : N),
  a_retr s = Some (c, k) -> nth_error (ba s) j = Some (c', Main) -> c <> c' ->
  a_retr (step s (DeliverAck j)) = Some (c, k) /\
  a_results (step s (DeliverAck j)) = a_results s.
Proof. exact stale_ack_ignored. Qed.
Print Assumptions C09_stale_ack_ignored.

(** Back-off: never earlier than the protocol's (jitter-free) back-off, which
    is at least 1.1 x base and grows with the retransmission count. *)
Theorem C09_backoff_ge_base : forall base k j : N, base * 11 / 10 <= backoff_ms base k j.
Proof. exact backoff_ge_base. Qed.
Print Assumptions C09_backoff_ge_base.

Theorem C09_backoff_ge_jitter_free : forall base k j : N,
  backoff_ms base k 0 <= backoff_ms base k j.
Proof. exact backoff_ge_jitter_free. Qed.
Print Assumptions C09_backoff_ge_jitter_free.

Theorem C09_backoff_mono_counter : forall base k j : N,
  backoff_ms base k j <= backoff_ms base (k + 1) j.
Proof. exact backoff_mono_counter. Qed.
Print Assumptions C09_backoff_mono_counter.

(** Per-exchange state machine (the component the sender loop drives). *)
Theorem C09_rm_retransmission_budget : forall s c sai r,
  rm_retr s = Some r -> r_ctr r = c ->
  (r_count r < 5 ->
     exists p, rm_pre_send s c true sai =
       (mkRm (Some (mkRetrans (r_base r) c (r_count r + 1)))
             (match rm_ack s with Some a => Some (mkAck (a_ctr a) true) | None => None end) false, Ok p)) /\
  (5 <= r_count r ->
     rm_pre_send s c true sai = (mkRm None None (rm_received s), Err ERR_TX_TIMEOUT)).
Proof. exact rm_retransmission_budget. Qed.
Print Assumptions C09_rm_retransmission_budget.

Theorem C09_rm_ack_matching : forall s r rx_ctr k reliable,
  rm_retr s = Some r ->
  (r_ctr r = k -> rm_retr (fst (rm_post_recv s rx_ctr (Some k) reliable)) = None /\
                  snd (rm_post_recv s rx_ctr (Some k) reliable) = Ok tt) /\
  (r_ctr r <> k -> rm_post_recv s rx_ctr (Some k) reliable = (s, Err ERR_DUPLICATE)).
Proof. exact rm_ack_matching. Qed.
Print Assumptions C09_rm_ack_matching.

Theorem C09_rm_reliable_leaves_ack : forall s rx_ctr rx_ack,
  snd (rm_post_recv s rx_ctr rx_ack true) = Ok tt ->
  rm_ack (fst (rm_post_recv s rx_ctr rx_ack true)) = Some (mkAck rx_ctr false).
Proof. exact rm_reliable_leaves_ack. Qed.
Print Assumptions C09_rm_reliable_leaves_ack.

(** Non-vacuity and the known class, on concrete schedules. *)

(* three transmissions lost, fourth and its ack get through: Ok and delivered once *)
Example C09_ex_retransmit_then_ok :
  let s := run_sys (sys_init 100)
    [ASend; DropAB 0; ATimer; DropAB 0; ATimer; DropAB 0; ATimer; Deliver 0; DeliverAck 0] in
  a_results s = [(100, true)] /\ b_delivered s = [100] /\ b_overtaken s = [].
Proof. vm_compute. repeat split. Qed.

(* nothing gets through: TxTimeout after 6 transmissions *)
Example C09_ex_gives_up :
  let s := run_sys (sys_init 100) [ASend; ATimer; ATimer; ATimer; ATimer; ATimer; ATimer] in
  a_results s = [(100, false)] /\ length (ab s) = 6%nat /\ a_dead s = true.
Proof. vm_compute. repeat split. Qed.

(* the known class is inhabited: the message is overtaken by 17 newer
   counters of the same session, its late copy is acknowledged as a duplicate,
   the sender reports Ok, the receiver never delivered it *)
Example C09_overtaken_witness :
  let ops := [ASend] ++ repeat AOther 17 ++ [Deliver 17] ++ [Deliver 0; DeliverAck 0] in
  let s := run_sys (sys_init 100) ops in
  a_results s = [(100, true)] /\ b_delivered s = [] /\ b_overtaken s = [100].
Proof. vm_compute. repeat split. Qed.

(** The sender loop ([Sender::tx] / [wait_tx] / [init_send] of exchange.rs,
    Model/MrpSender.v) for one reliable message, under every behaviour of its
    environment - time passing, the TX buffer granted late, acknowledgements
    arriving at any point, OTHER sessions of the node being removed while it
    waits, its own session being removed - and for every back-off function:
    consecutive transmissions are at least the back-off apart, there are at
    most six, and once the acknowledgement has been processed (also while the
    sender waits for the TX buffer) nothing is transmitted any more. *)
Theorem C09_sender_never_early : forall (bo : N -> N) (t0 : N) (es : list sev),
  let s := srun bo (snd_init t0) es in
  spaced bo (txs s) (cnt s) /\ N.of_nat (length (txs s)) <= MAX_TX.
Proof. exact sender_never_early. Qed.
Print Assumptions C09_sender_never_early.

Theorem C09_acked_never_sent_again : forall (bo : N -> N) (s : sender_st) (es : list sev),
  ph s <> PInitial -> ph s <> PWantBuf true ->
  txs (srun bo (sstep bo s EvAck) es) = txs s.
Proof. exact acked_never_sent_again. Qed.
Print Assumptions C09_acked_never_sent_again.

(** a run with both disturbances: another session goes away during the first
    back-off (the wait goes on), the timer fires, the acknowledgement arrives
    while the sender waits for the TX buffer: one transmission only *)
Example C09_ex_sender :
  let bo := fun _ : N => 96 in
  let es := [EvPoll; EvBuf; EvTick 40; EvOtherGone; EvTick 60; EvTimer; EvTick 10; EvAck; EvBuf; EvTick 500; EvTimer; EvBuf] in
  txs (srun bo (snd_init 1000) es) = [1000] /\ ph (srun bo (snd_init 1000) es) = PDone true /\
  txs (srun bo (snd_init 1000) [EvPoll; EvBuf; EvTick 40; EvOtherGone; EvTimer; EvBuf; EvTick 60; EvTimer; EvBuf]) = [1100; 1000].
Proof. vm_compute. repeat split; reflexivity. Qed.

(** hypotheses of [C09_one_copy_one_ack_suffice] on a reachable state: first
    copy lost, one retransmission, which gets through; three more
    retransmissions and other traffic before the acknowledgement arrives *)
Example C09_ex_one_copy_one_ack :
  let s := run_sys (sys_init 100) [ASend; DropAB 0; ATimer] in
  let mid := [AOther; ATimer; DupBA 0; ATimer; Deliver 0; DropAB 0; ATimer] in
  a_retr s = Some (100, 1) /\ nth_error (ab s) 0 = Some (100, Main) /\
  forallb keeps_acks mid = true /\ 1 + ntimers mid <= 5 /\
  a_results (step (run_sys (step s (Deliver 0)) mid) (DeliverAck 0)) = [(100, true)].
Proof. vm_compute. repeat split; try reflexivity; discriminate. Qed.
