(** Property C10 -- a message reaches only its own exchange, and the receive
    path never wedges.  Property theorems only.

    System model: Model/Exchange.v -- the session table with its exchange slots,
    the single RX slot, the live Exchange objects, and the clock; one atomic
    step per region between two await points.  [reachable s] quantifies over
    every label sequence of the adversary (scheduler + peers + handlers) from the
    empty transport; [step false] is the repaired code (design.d/C10.md). *)
From RsM Require Import Lib.MachInt Model.Dedup Model.Mrp Model.Exchange Model.ExchangeSpec
  Model.ExchangeTx
  Proofs.ExchangeFacts Proofs.ExchangeSys Proofs.ExchangeTheorems Proofs.ExchangeLifecycle
  Proofs.ExchangeSpecFacts Proofs.ExchangeTx.
Open Scope N_scope.

(** ** routing *)

(** A message is handed to an Exchange object only out of the RX slot and only
    if session, exchange id and role identify that exchange, which is owned;
    [recv] never discards a message. *)
Theorem C10_routing_sound : forall s l s' ev,
  reachable s -> step false s l = Some (s', ev) ->
  (forall e, In e ev -> is_swallow e = false) /\
  forall sid idx m, In (EvDeliver sid idx m) ev ->
    l = LRecv sid idx /\ rx s = RxHolding m /\ rx s' = RxTaken m sid idx /\
    In (sid, idx) (handles s) /\
    exists se e, In se (sessions s) /\ s_id se = sid /\ s_key se = m_key m /\
      nth_error (s_exchs se) idx = Some (Some e) /\
      e_id e = m_exid m /\ m_init m = is_responder (e_role e) /\ is_owned (e_role e) = true.
Proof. exact routing_sound. Qed.
Print Assumptions C10_routing_sound.

(** [Session::post_recv] touches the reliability state of one slot only, and
    that slot carries the message's exchange id and role. *)
Theorem C10_routed_only_to_match : forall s m t s',
  session_post_recv s m t = (s', Ok false) ->
  exists i e, nth_error (s_exchs s) i = Some (Some e) /\
    e_id e = m_exid m /\ m_init m = is_responder (e_role e) /\
    (forall j, j <> i -> nth_error (s_exchs s') j = nth_error (s_exchs s) j).
Proof. exact routed_only_to_match. Qed.
Print Assumptions C10_routed_only_to_match.

(** ** the new-exchange gate *)

Theorem C10_new_exchange_gate : forall s m t s',
  session_post_recv s m t = (s', Ok true) ->
  snd (post_recv (s_win s) (m_ctr m) (s_enc s) false) = true /\
  m_init m = true /\ is_new_exchange (m_op m) = true /\ s_expired s = false /\
  find_exch (s_exchs s) m = None /\
  exists i,
    (nth_error (s_exchs s) i = None \/ nth_error (s_exchs s) i = Some None) /\
    nth_error (table s') i = Some (Some (m_exid m, RespPending)) /\
    (forall j, j <> i -> nth_error (table s') j = nth_error (table s) j).
Proof. exact new_exchange_gate. Qed.
Print Assumptions C10_new_exchange_gate.

Theorem C10_table_unchanged_unless_new : forall s m t s' r,
  session_post_recv s m t = (s', r) -> r <> Ok true -> table s' = table s.
Proof. exact table_unchanged_unless_new. Qed.
Print Assumptions C10_table_unchanged_unless_new.

(** whatever the label: a responder exchange appears in a slot only through
    the gate, on the session the message arrived on *)
Theorem C10_responder_only_through_gate : forall s l s' ev se se' i id r,
  reachable s -> step false s l = Some (s', ev) ->
  In se (sessions s) -> In se' (sessions s') -> s_id se' = s_id se ->
  view se i = None -> view se' i = Some (id, r) -> is_responder r = true ->
  exists m, l = LRx m /\ m_key m = s_key se /\ m_exid m = id /\ r = RespPending /\
            m_init m = true /\ is_new_exchange (m_op m) = true /\ s_expired se = false.
Proof.
  intros s l s' ev se se' i id r R. apply responder_only_through_gate. apply reachable_inv. exact R.
Qed.
Print Assumptions C10_responder_only_through_gate.

(** the complete life cycle of every slot under every label *)
Theorem C10_slot_lifecycle : forall s l s' ev,
  reachable s -> step false s l = Some (s', ev) ->
  forall se', In se' (sessions s') -> from_old l (sessions s) se' \/ brand_new l (sessions s) se'.
Proof. intros s l s' ev R. apply slot_lifecycle. apply reachable_inv. exact R. Qed.
Print Assumptions C10_slot_lifecycle.

(** ** unknown exchanges *)

Theorem C10_unknown_dropped : forall s m se,
  rx s = RxEmpty -> find_key (sessions s) (m_key m) = Some se ->
  find_exch (s_exchs se) m = None ->
  (m_init m = false \/ is_new_exchange (m_op m) = false) ->
  is_close (m_op m) = false ->
  exists s' ev, step false s (LRx m) = Some (s', ev) /\
    rx s' = RxEmpty /\ handles s' = handles s /\
    (ev = [] \/ ev = [EvDupAck (m_key m) (m_ctr m)]) /\
    forall se', In se' (sessions s') ->
      exists se0, In se0 (sessions s) /\ s_id se' = s_id se0 /\ s_exchs se' = s_exchs se0.
Proof. exact unknown_dropped. Qed.
Print Assumptions C10_unknown_dropped.

(** the one status report that is not dropped: a peer's CloseSession removes the
    session whatever exchange it arrives on (it comes on an exchange of its own) *)
Theorem C10_peer_close_honoured : forall s m se,
  reachable s -> rx s = RxEmpty -> find_key (sessions s) (m_key m) = Some se ->
  snd (post_recv (s_win se) (m_ctr m) (s_enc se) false) = true ->
  m_op m = OpScClose ->
  (find_exch (s_exchs se) m = None \/ m_ack m = None) ->
  exists s', step false s (LRx m) = Some (s', [EvPeerClosed (s_id se)]) /\
    rx s' = RxEmpty /\ handles s' = handles s /\
    (forall x, In x (sessions s') -> In x (sessions s) /\ s_id x <> s_id se).
Proof. intros s m se R. apply peer_close_honoured. apply reachable_inv. exact R. Qed.
Print Assumptions C10_peer_close_honoured.

(** ** the receive path never wedges (safety + enabledness) *)

Theorem C10_no_wedge : forall s m,
  reachable s -> rx s = RxHolding m -> discharger s m.
Proof. exact no_wedge. Qed.
Print Assumptions C10_no_wedge.

Theorem C10_empty_receives : forall s m,
  rx s = RxEmpty -> exists s' ev, step false s (LRx m) = Some (s', ev).
Proof. exact empty_receives. Qed.
Print Assumptions C10_empty_receives.

Theorem C10_taken_released : forall s m sid idx,
  reachable s -> rx s = RxTaken m sid idx ->
  In (sid, idx) (handles s) /\
  (exists s' ev, step false s (LRxDone sid idx) = Some (s', ev) /\ rx s' = RxEmpty) /\
  (exists s' ev, step false s (LDropExch sid idx) = Some (s', ev) /\ rx s' = RxEmpty).
Proof. exact taken_released. Qed.
Print Assumptions C10_taken_released.

(** owned slots and live Exchange objects coincide (what [C10_no_wedge] rests on) *)
Theorem C10_owned_iff_handle : forall s se i,
  reachable s -> In se (sessions s) ->
  (slot_owned (nth_error (s_exchs se) i) = true <-> In (s_id se, i) (handles s)).
Proof.
  intros s se i R Hse. pose proof (reachable_inv _ R) as I. split.
  - apply (inv_own _ I). exact Hse.
  - apply (inv_hdl _ I). exact Hse.
Qed.
Print Assumptions C10_owned_iff_handle.

(** ** dropped exchanges are closed cleanly *)

Theorem C10_closed_cleanly : forall s,
  (exists se i e, In se (sessions s) /\ nth_error (s_exchs se) i = Some (Some e) /\
                  is_dropped (e_role e) = true) ->
  exists sid i e s' ev,
    step false s LCloseDropped = Some (s', ev) /\
    (exists se, In se (sessions s) /\ s_id se = sid /\ nth_error (s_exchs se) i = Some (Some e) /\
                is_dropped (e_role e) = true) /\
    rx s' = rx s /\ handles s' = handles s /\
    ( (retrans_pending e = true /\ ev = [EvCloseSession sid i] /\
       sessions s' = remove_sid (sessions s) sid)
      \/
      (retrans_pending e = false /\ sessions s' = group_gc (set_slot (sessions s) sid i None) sid /\
       ( (is_group_sid (sessions s) sid = true /\ ev = [])
         \/ (is_group_sid (sessions s) sid = false /\ ack_pending e = true /\
             exists c, ev = [EvStandaloneAck sid i c])
         \/ (is_group_sid (sessions s) sid = false /\ ack_pending e = false /\ ev = [])))).
Proof. exact closed_cleanly. Qed.
Print Assumptions C10_closed_cleanly.

Theorem C10_dropped_is_absorbing : forall s l s' ev se se' i id r,
  reachable s -> step false s l = Some (s', ev) ->
  In se (sessions s) -> In se' (sessions s') -> s_id se' = s_id se ->
  view se i = Some (id, r) -> is_dropped r = true ->
  view se' i = Some (id, r) \/ (view se' i = None /\ l = LCloseDropped).
Proof.
  intros s l s' ev se se' i id r R. apply dropped_is_absorbing. apply reachable_inv. exact R.
Qed.
Print Assumptions C10_dropped_is_absorbing.

(** ** the TX buffer (Model/ExchangeTx.v: the same transport with its single TX buffer) *)

(** whenever the TX buffer is not empty, either it holds a finished packet and
    process_tx is enabled and empties it, or it is locked by the TxMessage of a
    live Exchange object which can complete, abandon, or be dropped - each
    releases it *)
Theorem C10_tx_no_wedge : forall s, reachablex s -> tx_discharger s.
Proof. exact tx_no_wedge. Qed.
Print Assumptions C10_tx_no_wedge.

(** a packet queued by one exchange leaves the buffer only through process_tx:
    no other exchange (dangling or not) can take or clear it *)
Theorem C10_tx_queued_only_flushed : forall s l s' ev v,
  stepx false s l = Some (s', ev) -> tx s = TxQueued v ->
  tx s' = TxQueued v \/ (l = XFlush /\ tx s' = TxEmpty).
Proof. exact tx_queued_only_flushed. Qed.
Print Assumptions C10_tx_queued_only_flushed.

(** the receive-side theorems hold of the core of every state of the extended system *)
Theorem C10_no_wedge_with_tx : forall s m,
  reachablex s -> rx (core s) = RxHolding m -> discharger (core s) m.
Proof. intros s m R. apply no_wedge_inv. apply core_inv. exact R. Qed.
Print Assumptions C10_no_wedge_with_tx.

Theorem C10_routing_sound_with_tx : forall s l c' ev,
  reachablex s -> step false (core s) l = Some (c', ev) ->
  (forall e, In e ev -> is_swallow e = false) /\
  forall sid idx m, In (EvDeliver sid idx m) ev ->
    l = LRecv sid idx /\ rx (core s) = RxHolding m /\ rx c' = RxTaken m sid idx /\
    In (sid, idx) (handles (core s)) /\
    exists se e, In se (sessions (core s)) /\ s_id se = sid /\ s_key se = m_key m /\
      nth_error (s_exchs se) idx = Some (Some e) /\
      e_id e = m_exid m /\ m_init m = is_responder (e_role e) /\ is_owned (e_role e) = true.
Proof. intros s l c' ev R. apply routing_sound_inv. apply core_inv. exact R. Qed.
Print Assumptions C10_routing_sound_with_tx.

(** the second repaired finding of the TX side: with [init_send] as it was, a
    reachable state exists where an Exchange whose session is gone clears the
    packet another exchange has queued *)
Theorem C10_unrepaired_init_send_swallows :
  let s := runx true (sysx_init 0) wx_trace in
  tx s = TxQueued (Some 1) /\
  exists s', stepx true s (XInitSend 0 0) = Some (s', [XTxSwallow 0 0 (Some 1)]) /\ tx s' = TxEmpty.
Proof. exact unrepaired_init_send_swallows. Qed.
Print Assumptions C10_unrepaired_init_send_swallows.

(** ** the executable clauses used as monitor *)

Theorem C10_post_recv_meets_spec : forall s m t s' r,
  session_post_recv s m t = (s', r) ->
  post_recv_ok MAX_EXCHANGES (table s) (s_expired s)
    (snd (post_recv (s_win s) (m_ctr m) (s_enc s) false))
    (m_exid m) (m_init m) (m_op m) (res_class r) (table s') = true.
Proof. exact post_recv_meets_spec. Qed.
Print Assumptions C10_post_recv_meets_spec.

Theorem C10_lifecycle_b_sound : forall l key expired o o',
  lifecycle_b l key expired o o' = true <-> lifecycle l key expired o o'.
Proof. intros. split; [apply lifecycle_b_sound|apply lifecycle_b_complete]. Qed.
Print Assumptions C10_lifecycle_b_sound.

(** ** the finding that was repaired (design.d/C10.md): with the code as it was,
    a reachable state exists where [recv] of an Exchange whose session is gone
    empties the RX slot under a live accept-pending exchange, after which no
    sweeper and no accept is enabled for that exchange *)
Theorem C10_unrepaired_recv_swallows :
  let s := run true (sys_init 0) w_trace in
  rx s = RxHolding w_m2 /\
  (exists se i e, owner_of (sessions s) w_m2 = Some (se, i, e) /\ e_role e = RespPending) /\
  exists s', step true s (LRecv 0 0) = Some (s', [EvSwallow 0 0 w_m2]) /\
    rx s' = RxEmpty /\
    (exists se i e, owner_of (sessions s') w_m2 = Some (se, i, e) /\ e_role e = RespPending) /\
    step true s' LSweepAccept = None /\ step true s' LSweepOrphan = None /\ step true s' LAccept = None.
Proof. exact unrepaired_recv_swallows. Qed.
Print Assumptions C10_unrepaired_recv_swallows.

(** ** non-vacuity *)

(** the witness trace is a run of the repaired model too: a reachable state with
    a held message whose owner is accept-pending; the dangling Exchange is refused *)
Example C10_ex_reachable_holding :
  let s := run false (sys_init 0) w_trace in
  reachable s /\ rx s = RxHolding w_m2 /\ step false s (LRecv 0 0) = None.
Proof.
  split; [exists 0, w_trace; reflexivity|]. exact repaired_recv_refuses.
Qed.

(** accept, deliver, drop with an acknowledgement pending, sweep: the closer
    then acknowledges once and frees the slot *)
Example C10_ex_closer_acks :
  let s := run false (sys_init 0)
             [LAddSession 1 true false; LRx w_m1; LAccept; LRecv 0 0; LRxDone 0 0; LDropExch 0 0] in
  exists s', step false s LCloseDropped = Some (s', [EvStandaloneAck 0 0 1]) /\
             pick_dropped (sessions s') = None.
Proof. vm_compute. eexists. split; reflexivity. Qed.

(** nobody accepts: after a Tick of the accept deadline the sweeper empties the slot *)
Example C10_ex_accept_timeout :
  let s := run false (sys_init 0) [LAddSession 1 true false; LRx w_m1; LTick 1000] in
  exists s', step false s LSweepAccept = Some (s', [EvAcceptTimeout 0 0 w_m1]) /\ rx s' = RxEmpty.
Proof. vm_compute. eexists. split; reflexivity. Qed.

(** an answer to an unknown exchange is dropped without a trace *)
Example C10_ex_unknown :
  let s := run false (sys_init 0) [LAddSession 1 true false] in
  step false s (LRx (mkMsg 1 true false false 5 77 false OpOrdinary true None)) =
  Some (mkSys (upd_sid (sessions s) 0 (fun se => set_win se (mkRx true 5 0))) RxEmpty [] 0 1, []).
Proof. vm_compute. reflexivity. Qed.

(** a group data message with the R flag set opens an exchange on a fresh ephemeral
    group session without leaving an acknowledgement behind; nobody accepts it, the
    accept timeout drops it, the closer frees it silently and the session goes with it *)
Example C10_ex_group_unaccepted :
  let m := mkMsg 9 true true false 1 30 true OpOrdinary true None in
  let s := run false (sys_init 0) [LRx m; LTick 1000; LSweepAccept] in
  (exists se, sessions s = [se] /\ s_group se = true) /\
  exists s', step false s LCloseDropped = Some (s', []) /\ sessions s' = [].
Proof. vm_compute. split; [eexists; split; reflexivity|]. eexists. split; reflexivity. Qed.

(** a handler receives the group message and drops its exchange: session gone at once *)
Example C10_ex_group_dropped :
  let m := mkMsg 9 true true false 1 30 true OpOrdinary false None in
  sessions (run false (sys_init 0) [LRx m; LAccept; LRecv 0 0; LRxDone 0 0; LDropExch 0 0]) = [].
Proof. vm_compute. reflexivity. Qed.

(** a peer's CloseSession on an exchange id nobody knows removes the session *)
Example C10_ex_peer_close :
  let s := run false (sys_init 0) [LAddSession 1 true false] in
  exists s', step false s (LRx (mkMsg 1 true false false 5 999 true OpScClose false None)) =
             Some (s', [EvPeerClosed 0]) /\ sessions s' = [].
Proof. vm_compute. eexists. split; reflexivity. Qed.
