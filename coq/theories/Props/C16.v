(** Property C16 - the TLV codec round-trips every value and rejects
    every malformed input safely.  Property theorems only.

    Model: [Model/Tlv.v] (reader of read.rs after the repairs listed in
    design.d/C16.md, writer of write.rs / tlv.rs), [Model/TlvSpec.v]
    (the accessor list run against the real code, and the monitors). *)
From Coq Require Import NArith ZArith List Lia.
From RsM Require Import Model.Tlv Model.TlvSpec
  Proofs.TlvFacts Proofs.TlvTotal Proofs.TlvWriter Proofs.TlvRoundtrip
  Proofs.TlvWithin Proofs.TlvScalar Proofs.TlvReencode Proofs.TlvIter Proofs.TlvDecodeInv
  Proofs.TlvMonitor.
From RsM Require Import Model.TlvDerive Model.TlvBuf Proofs.TlvDeriveFacts Proofs.TlvDeriveTotal
  Proofs.TlvDeriveRoundtrip Proofs.TlvDeriveLenient Proofs.TlvDeriveZoo Proofs.TlvBufFacts
  Proofs.TlvBufDerive Proofs.TlvReencodeIter.
Import ListNotations.
Open Scope N_scope.

(** * Totality

    Every public accessor of [TLVElement] and [TLVSequence], both
    iterators drained to the end (errors not stopping the consumer), the
    tree decoder and the re-encoder - the list [probe_all], which is
    exactly what the harness runs on the real code - return a value or an
    error on EVERY byte string: never a panic (overflow, [unwrap!],
    indexing), never out of fuel (unbounded loop; fuel = length of the
    input + 2, twice that for the recursive tree decoder).  The only
    hypothesis is Rust's own bound on the length of a slice. *)
Theorem C16_total : forall s : bytes,
  blen s < two63 -> Forall safe (probe_all s).
Proof. exact probe_all_safe. Qed.
Print Assumptions C16_total.

(** * Round trip

    Every well-formed value tree (all tag forms, all integer widths and
    extremes, float bit patterns, strings with every length-field width,
    null, containers nested to any depth), written by the writer and
    followed by arbitrary bytes, decodes back to the same tree. *)
Theorem C16_roundtrip : forall (x : tree) (rest : bytes),
  wf_tree x -> blen (encode x ++ rest) < two63 ->
  decode (encode x ++ rest) = ROk x.
Proof. exact decode_encode. Qed.
Print Assumptions C16_roundtrip.

(** The minimal-width writer API: what was written reads back through
    the matching typed accessor, for every value of the type. *)
Theorem C16_u64_roundtrip : forall (t : tag) (n : N) (rest : bytes),
  n < two64 -> el_u64 (w_u64 t n ++ rest) = ROk n.
Proof. exact w_u64_read. Qed.
Print Assumptions C16_u64_roundtrip.

Theorem C16_i64_roundtrip : forall (t : tag) (z : Z) (rest : bytes),
  (- 9223372036854775808 <= z < 9223372036854775808)%Z ->
  el_i64 (w_i64 t z ++ rest) = ROk z.
Proof. exact w_i64_read. Qed.
Print Assumptions C16_i64_roundtrip.

Theorem C16_str_roundtrip : forall (t : tag) (d rest : bytes),
  blen d < two64 -> el_str (w_str t d ++ rest) = ROk d.
Proof. exact w_str_read. Qed.
Print Assumptions C16_str_roundtrip.

Theorem C16_utf8_roundtrip : forall (t : tag) (d rest : bytes),
  blen d < two64 -> utf8_valid d = true -> el_utf8 (w_utf8 t d ++ rest) = ROk d.
Proof. exact w_utf8_read. Qed.
Print Assumptions C16_utf8_roundtrip.

Theorem C16_scalar_roundtrip : forall (t : tag) (rest : bytes),
  (forall b, el_bool (w_bool t b ++ rest) = ROk b) /\
  el_null (w_null t ++ rest) = ROk tt /\
  (forall b, b < 4294967296 -> el_f32 (w_f32 t b ++ rest) = ROk b) /\
  (forall b, b < two64 -> el_f64 (w_f64 t b ++ rest) = ROk b) /\
  (forall n, wf_tag t -> el_tag (w_u64 t n ++ rest) = ROk t).
Proof.
  intros t rest. repeat split; intros.
  - apply w_bool_read. - apply w_null_read. - apply w_f32_read; assumption.
  - apply w_f64_read; assumption. - apply w_u64_tag; assumption.
Qed.
Print Assumptions C16_scalar_roundtrip.

(** the writer uses the smallest width that holds the value *)
Theorem C16_u64_minimal_width : forall (t : tag) (n : N),
  n < two64 ->
  exists w, w_u64 t n = w_tlv t (VU w n) /\ n < wfull w /\
            (forall w', n < wfull w' -> widx w <= widx w').
Proof. exact w_u64_minimal. Qed.
Print Assumptions C16_u64_minimal_width.

(** The two iterators over the content of a written container:
    [tlv_iter] (repaired, F9b/F9c) yields the complete flattened stream of
    all descendants - container starts and ends included, to any depth -
    and stops at the end of the container; [iter] yields one slice per
    child, each starting with that child's encoding. *)
Theorem C16_tlv_iter_roundtrip : forall (cs : list tree) (rest : bytes),
  wf_list cs -> blen (encode_list cs ++ w_end ++ rest) < two63 ->
  tlv_iter_all (encode_list cs ++ w_end ++ rest) = ROk (map inl (flat_map flatten cs)).
Proof. exact tlv_iter_flatten. Qed.
Print Assumptions C16_tlv_iter_roundtrip.

Theorem C16_iter_children : forall (cs : list tree) (rest : bytes),
  wf_list cs -> blen (encode_list cs ++ w_end ++ rest) < two63 ->
  exists slices, seq_iter_all (encode_list cs ++ w_end ++ rest) = ROk (map inl slices) /\
    length slices = length cs /\
    Forall2 (fun sl c => exists tl, sl = encode c ++ tl) slices cs.
Proof. exact seq_iter_children. Qed.
Print Assumptions C16_iter_children.

(** * Re-encoding

    [ToTLV for TLVElement]: an element whose tag and value can be read,
    re-encoded under its own tag, yields exactly the bytes it occupied in
    the input (header of [hdr_len c] bytes + value). *)
Theorem C16_reencode : forall (s : bytes) (c : control_t) (t : tag) (v : bytes),
  is_bytes s -> control s = ROk c -> el_tag s = ROk t -> el_raw_value s = ROk v ->
  el_to_tlv t s = ROk (firstn (N.to_nat (hdr_len c + blen v)) s).
Proof. exact el_to_tlv_reproduces. Qed.
Print Assumptions C16_reencode.

(** The same through the iterator encoder: [ToTLV for TLVElement::tlv_iter]
    + [TLV::bytes_iter] of a written element (the element's [value()], every
    [TLV] of its content, the end marker) gives back exactly its bytes -
    string length-field widths included, whatever width was written. *)
Theorem C16_tlv_iter_reencode : forall (x : tree) (rest : bytes),
  wf_tree x -> blen (encode x ++ rest) < two63 ->
  el_reencode_iter (root_tag x) (encode x ++ rest) = ROk (encode x).
Proof. exact reencode_iter_reproduces. Qed.
Print Assumptions C16_tlv_iter_reencode.

(** the monitor run on the implementation's read-back of what it wrote *)
Theorem C16_read_back_monitor_sound : forall (t readback : tree) (written reenc : bytes),
  mon_read_back t readback written reenc = true -> readback = t /\ reenc = written.
Proof.
  intros t rb w r H. unfold mon_read_back in H. apply Bool.andb_true_iff in H as [H1 H2].
  split; [symmetry; apply tree_eqb_eq; exact H1|apply bytes_eqb_eq; exact H2].
Qed.
Print Assumptions C16_read_back_monitor_sound.

(** The same at the level of trees: whatever byte string decodes to a
    tree starts with exactly the encoding of that tree, and the tree is
    well-formed ([wf_root]: well-formed, or a lone end-of-container marker
    at the root).  Decoder and writer are inverse on everything the decoder
    accepts. *)
Theorem C16_decode_reencode : forall (s : bytes) (x : tree),
  is_bytes s -> blen s < two63 -> decode s = ROk x ->
  wf_root x /\ exists rest, s = encode x ++ rest.
Proof. exact decode_reencode. Qed.
Print Assumptions C16_decode_reencode.

(** * Reported length within the input

    The value slice reported for an element (scalars, strings, whole
    containers) is the piece of the input that follows its header;
    [mon_within] is the executable form run on the implementation's
    outputs.  [container_len], the total length of such an element, is
    header + value and never exceeds the input. *)
Theorem C16_len_within_input : forall (s : bytes) (c : control_t) (v : bytes),
  control s = ROk c -> el_raw_value s = ROk v ->
  hdr_len c + blen v <= blen s /\ mon_within s (hdr_len c) v = true.
Proof. exact raw_value_within. Qed.
Print Assumptions C16_len_within_input.

Theorem C16_container_len_within_input : forall (s : bytes) (c : control_t) (v : bytes),
  blen s < two63 -> control s = ROk c -> el_raw_value s = ROk v ->
  container_len s = ROk (hdr_len c + blen v) /\ hdr_len c + blen v <= blen s.
Proof. exact container_len_within. Qed.
Print Assumptions C16_container_len_within_input.

Theorem C16_string_within_input : forall (s : bytes) (c : control_t) (v : bytes),
  control s = ROk c -> el_str s = ROk v \/ el_utf8 s = ROk v \/ el_octets s = ROk v ->
  hdr_len c + blen v <= blen s /\ mon_within s (hdr_len c) v = true.
Proof. exact str_within. Qed.
Print Assumptions C16_string_within_input.

(** * The monitors run on the implementation's outputs are sound *)
Theorem C16_monitors_sound :
  (forall t written, mon_roundtrip t written = true -> decode written = ROk t) /\
  (forall l, mon_no_panic l = true -> Forall (fun o => o = CValue \/ o = CError) l) /\
  (forall input off v, mon_within input off v = true ->
     off + blen v <= blen input /\ v = firstn (length v) (skipn (N.to_nat off) input)) /\
  (forall input reenc, mon_reencode input reenc = true -> reenc = firstn (length reenc) input).
Proof.
  repeat split.
  - exact mon_roundtrip_sound. - exact mon_no_panic_sound.
  - apply mon_within_sound; assumption. - apply mon_within_sound; assumption.
  - exact mon_reencode_sound.
Qed.
Print Assumptions C16_monitors_sound.


(** * Derived encoders ([#[derive(ToTLV, FromTLV)]]), generically

    [dty] describes a derived type (integers of all widths, bool, floats,
    octets, UTF-8, [Option] fields, [Nullable], [Vec]/slices/arrays,
    structures with context-tagged fields - [datatype = "list"], [tagval],
    [start] -, tagged-union enums, unit enums, nesting); [denc]/[ddec] are
    what the macro emits composed with the hand-written impls
    ([Model/TlvDerive.v]).  For EVERY well-formed description and EVERY
    value of that type, under any tag and followed by anything: *)
Theorem C16_derive_roundtrip : forall (d : dty) (t : tag) (v : dval) (bs rest : bytes),
  wf_dty d -> has_ty d v -> wf_tag t -> denc d t v = ROk bs ->
  blen (bs ++ rest) < two63 -> ddec d (bs ++ rest) = ROk v.
Proof. exact derive_roundtrip. Qed.
Print Assumptions C16_derive_roundtrip.

(** what a derived encoder writes is one well-formed TLV element with the tag asked for
    (so all the reader theorems above apply to it) *)
Theorem C16_derive_encodes_element : forall (d : dty) (t : tag) (v : dval) (bs : bytes),
  wf_dty d -> has_ty d v -> wf_tag t -> denc d t v = ROk bs ->
  exists x, bs = encode x /\ wf_tree x /\ root_tag x = t.
Proof. exact derive_encodes_tree. Qed.
Print Assumptions C16_derive_encodes_element.

(** Unknown extra fields are skipped (and field order does not matter): a
    container of the same kind that holds anything at all, as long as the
    first child under each field's tag is the one the encoder wrote,
    decodes to the value that was written. *)
Theorem C16_derive_unknown_fields_skipped :
  forall (k : ckind) (fs : list (N * dty)) (t : tag) (vs : list dval) (bs : bytes),
  wf_dty (DStruct k false fs) -> has_ty (DStruct k false fs) (XRec vs) -> wf_tag t ->
  denc (DStruct k false fs) t (XRec vs) = ROk bs ->
  exists cs, bs = encode (Node t k cs) /\
    forall t' all_cs rest,
      wf_list all_cs ->
      (forall ft, In ft (map fst fs) -> lookup_tree ft all_cs = lookup_tree ft cs) ->
      blen (encode (Node t' k all_cs) ++ rest) < two63 ->
      ddec (DStruct k false fs) (encode (Node t' k all_cs) ++ rest) = ROk (XRec vs).
Proof. exact derive_struct_lenient. Qed.
Print Assumptions C16_derive_unknown_fields_skipped.

(** inserting a child whose tag is not the tag looked for changes no lookup *)
Theorem C16_unknown_child_invisible : forall (k : N) (pre : list tree) (x : tree) (post : list tree),
  root_tag x <> TgCtx k -> lookup_tree k (pre ++ x :: post) = lookup_tree k (pre ++ post).
Proof. exact lookup_tree_insert. Qed.
Print Assumptions C16_unknown_child_invisible.

(** A missing mandatory field is an error (never a default value, never a panic). *)
Theorem C16_derive_missing_mandatory_is_error :
  forall (k : ckind) (fs : list (N * dty)) (t : tag) (all_cs : list tree) (rest : bytes)
         (ft : N) (fd : dty),
  In (ft, fd) fs -> is_option fd = false ->
  wf_list all_cs -> lookup_ctx ft all_cs = None ->
  blen (encode (Node t k all_cs) ++ rest) < two63 ->
  exists e, ddec (DStruct k false fs) (encode (Node t k all_cs) ++ rest) = RErr e.
Proof. exact derive_missing_mandatory. Qed.
Print Assumptions C16_derive_missing_mandatory_is_error.

(** Decoding never panics: for every description (well-formed or not) and every byte string. *)
Theorem C16_derive_decode_total : forall (d : dty) (el : bytes),
  blen el < two63 -> safe (ddec d el).
Proof. exact safe_ddec. Qed.
Print Assumptions C16_derive_decode_total.

(** "naked" enums (no enclosing structure), at top level *)
Theorem C16_derive_naked_enum_roundtrip :
  forall (vs : list (N * dty)) (t : tag) (v : dval) (bs rest : bytes),
  NoDup (map fst vs) -> Forall (fun f => fst f < 256 /\ wf_dty (snd f)) vs ->
  has_ty (DEnum true vs) v -> denc (DEnum true vs) t v = ROk bs ->
  blen (bs ++ rest) < two63 -> ddec (DEnum true vs) (bs ++ rest) = ROk v.
Proof. exact derive_naked_roundtrip. Qed.
Print Assumptions C16_derive_naked_enum_roundtrip.

(** * The writer with a capacity ([WriteBuf])

    A run of bytes goes in completely, or as far as there is room and then
    NoSpace; in both cases what the buffer held below its end is untouched. *)
Theorem C16_writebuf_write : forall (bs : bytes) (w : wbuf),
  wb_ok w ->
  let k := N.min (blen bs) (wb_size w - wb_end w) in
  exists w',
    wb_write_all w bs =
      ((if blen bs <=? wb_size w - wb_end w then ROk tt else RErr E_NOSPACE), w') /\
    pres (wb_end w) w w' /\ wb_end w' = wb_end w + k /\
    firstn (N.to_nat (wb_end w + k)) (wb_mem w')
      = firstn (N.to_nat (wb_end w)) (wb_mem w) ++ firstn (N.to_nat k) bs.
Proof. exact wb_write_all_spec. Qed.
Print Assumptions C16_writebuf_write.

(** Any script of writer calls, anchors and rewinds to recorded anchors -
    whatever succeeds or fails in between - followed by a rewind to the
    first anchor restores exactly the bytes the buffer held at that anchor
    (what the chunker of C14 relies on). *)
Theorem C16_writebuf_rewind_restores : forall (w : wbuf) (ops : list bop),
  wb_ok w ->
  let w' := snd (wb_run w [] (BAnchor :: ops ++ [BRewind 0])) in
  wb_as_slice w' = wb_as_slice w /\ wb_end w' = wb_end w /\
  firstn (N.to_nat (wb_end w)) (wb_mem w') = firstn (N.to_nat (wb_end w)) (wb_mem w).
Proof. exact wb_anchor_rewind_restores. Qed.
Print Assumptions C16_writebuf_rewind_restores.

(** no script ever disturbs what lies below the position it started at *)
Theorem C16_writebuf_prefix_intact : forall (ops : list bop) (w : wbuf),
  wb_ok w -> pres (wb_end w) w (snd (wb_run w [] ops)).
Proof.
  intros ops w Hok. destruct Hok as (Hs & Hst & He).
  apply wb_run_pres; [repeat split; assumption|exact Hst|apply N.le_refl|constructor].
Qed.
Print Assumptions C16_writebuf_prefix_intact.

(** The derived encoders on a buffer: Ok exactly when the encoding fits,
    and then the buffer received exactly the bytes of [denc]; NoSpace
    otherwise; the prefix is intact in every case; a structure / enum that
    could not be written completely leaves the buffer exactly as it was. *)
Theorem C16_derive_capacity : forall (d : dty) (t : tag) (v : dval) (bs : bytes) (w : wbuf),
  denc d t v = ROk bs -> wb_ok w ->
  (blen bs <= wb_size w - wb_end w ->
     denc_wb d t v w = wb_write_all w bs /\ fst (denc_wb d t v w) = ROk tt) /\
  (wb_size w - wb_end w < blen bs -> fst (denc_wb d t v w) = RErr E_NOSPACE).
Proof. exact denc_wb_spec. Qed.
Print Assumptions C16_derive_capacity.

Theorem C16_derive_prefix_intact : forall (d : dty) (t : tag) (v : dval) (w : wbuf),
  wb_ok w -> pres (wb_end w) w (snd (denc_wb d t v w)).
Proof.
  intros d t v w Hok. destruct Hok as (Hs & Hst & He).
  apply denc_wb_keeps; [repeat split; assumption|exact Hst|apply N.le_refl].
Qed.
Print Assumptions C16_derive_prefix_intact.

Theorem C16_derive_atomic : forall (d : dty) (t : tag) (v : dval) (w : wbuf),
  atomic_ty d = true -> wb_ok w -> fst (denc_wb d t v w) <> ROk tt ->
  wb_end (snd (denc_wb d t v w)) = wb_end w /\
  wb_as_slice (snd (denc_wb d t v w)) = wb_as_slice w.
Proof. exact denc_wb_atomic. Qed.
Print Assumptions C16_derive_atomic.

(** * The defects that were repaired (DESIGN section 8, F9)

    On the unrepaired code ([*_legacy] transcriptions) totality is false;
    the same inputs are errors / values on the repaired code. *)
Example C16_total_refuted_before_fix_F9a :
  el_raw_value_legacy [0x15; 0x13; 255; 255; 255; 255; 255; 255; 255; 255] = RPanic P_LEN_ADD /\
  el_raw_value [0x15; 0x13; 255; 255; 255; 255; 255; 255; 255; 255] = RErr E_TM.
Proof. split; vm_compute; reflexivity. Qed.

Example C16_total_refuted_before_fix_F9b :
  (* the content of the valid structure 15 04 00 18 *)
  tlv_try_next_legacy [0x04; 0x00; 0x18] 0 = RPanic P_NEST_SUB /\
  tlv_iter_all [0x04; 0x00; 0x18] = ROk [inl (TgAnon, VU W1 0)].
Proof. split; vm_compute; reflexivity. Qed.

(** F9c: the repaired iterator walks nested containers to the end *)
Example C16_tlv_iter_nested :
  tlv_iter_all [0x04; 0; 0x35; 1; 4; 7; 0x18; 4; 9; 0x18] =
  ROk [inl (TgAnon, VU W1 0); inl (TgCtx 1, VCont KStruct); inl (TgAnon, VU W1 7);
       inl (TgAnon, VEnd); inl (TgAnon, VU W1 9)].
Proof. vm_compute. reflexivity. Qed.

(** * Non-vacuity *)
Definition C16_sample : tree :=
  Node TgAnon KStruct
    [ Leaf (TgCtx 0) (VU W1 255);
      Leaf (TgCtx 1) (VS W8 (-9223372036854775808)%Z);
      Node (TgF64 65521 57069 2857762541) KArray
        [ Leaf TgAnon (VUtf W2 [72; 105]); Leaf TgAnon (VStr W8 [1; 2; 3]);
          Node TgAnon KList [Leaf (TgC16 7) VNull; Leaf (TgI32 9) (VBool true)] ];
      Leaf (TgCtx 2) (VF32 2139095040) ].

Example C16_ex_wf : wf_tree C16_sample /\ blen (encode C16_sample) < two63.
Proof.
  split; [|vm_compute; reflexivity].
  cbn [C16_sample wf_tree wf_tag wf_val].
  repeat match goal with
         | |- _ /\ _ => split
         | |- True => exact I
         | |- is_bytes _ => repeat constructor; vm_compute; reflexivity
         | |- (_ <= _)%Z => vm_compute; discriminate
         | |- _ => vm_compute; reflexivity
         end.
Qed.

Example C16_ex_roundtrip : decode (encode C16_sample ++ [0x18; 0xff]) = ROk C16_sample.
Proof. vm_compute. reflexivity. Qed.

Example C16_ex_total_hostile :
  (* a length field of 2^64-1 inside a structure: every accessor answers, none panics *)
  forallb (fun r => ocl_ok (ocl_of r))
    (probe_all [0x15; 0x30; 0x01; 0x13; 255; 255; 255; 255; 255; 255; 255; 255; 0x18]) = true.
Proof. vm_compute. reflexivity. Qed.

(** the zoo (the derived types the harness instantiates, wire structs included) is well-formed *)
Example C16_ex_zoo_wf :
  Forall (fun i => match zoo i with Some d => wf_dty d | None => False end)
    [0; 1; 2; 3; 4; 5; 6; 7; 8; 10; 11; 12; 13; 14; 15; 16; 17; 20; 21; 22; 23; 24].
Proof. exact zoo_wf. Qed.

(** AttrPath {endpoint: 1, cluster: 6, attr: 0} as a TLV list; an unknown field and another
    order decode to the same value; without a mandatory field (DataVersionFilter.data_ver) it is an error *)
Example C16_ex_derive :
  denc (DStruct KList false [(0, DOption DBool); (1, DOption u64_); (2, DOption u16_); (3, DOption u32_);
                             (4, DOption u32_); (5, DOption (DNullable u16_))]) TgAnon
       (XRec [XNone; XNone; XSome (XInt 1); XSome (XInt 6); XSome (XInt 0); XNone])
    = ROk [0x17; 0x24; 2; 1; 0x24; 3; 6; 0x24; 4; 0; 0x18] /\
  ddec (DStruct KList false [(0, DOption DBool); (1, DOption u64_); (2, DOption u16_); (3, DOption u32_);
                             (4, DOption u32_); (5, DOption (DNullable u16_))])
       [0x17; 0x24; 4; 0; 0x24; 77; 9; 0x24; 3; 6; 0x24; 2; 1; 0x18]
    = ROk (XRec [XNone; XNone; XSome (XInt 1); XSome (XInt 6); XSome (XInt 0); XNone]) /\
  ddec (DStruct KStruct false [(0, DStruct KList false [(0, DOption u64_); (1, u16_); (2, u32_)]); (1, u32_)])
       [0x15; 0x37; 0; 0x24; 1; 1; 0x24; 2; 6; 0x18; 0x18] = RErr E_TM.
Proof. repeat split; vm_compute; reflexivity. Qed.

(** a structure into a buffer one byte too small: NoSpace, and the three bytes before it untouched *)
Example C16_ex_capacity :
  let w0 := snd (wb_write_all (wb_new (repeat 0 9)) [0x15; 0x24; 0]) in
  let r := denc_wb z_inner TgAnon (XRec [XInt 7; XNone; XBool true]) w0 in
  fst r = RErr E_NOSPACE /\ wb_as_slice (snd r) = ROk [0x15; 0x24; 0] /\
  fst (denc_wb z_inner TgAnon (XRec [XInt 7; XNone; XBool true])
         (snd (wb_write_all (wb_new (repeat 0 10)) [0x15; 0x24; 0]))) = ROk tt.
Proof. repeat split; vm_compute; reflexivity. Qed.
