(** Property C16 - the TLV codec round-trips every value and rejects
    every malformed input safely.  Property theorems only.

    Model: [Model/Tlv.v] (reader of read.rs after the repairs listed in
    design.d/C16.md, writer of write.rs / tlv.rs), [Model/TlvSpec.v]
    (the accessor list run against the real code, and the monitors). *)
From Coq Require Import NArith ZArith List Lia.
From RsM Require Import Model.Tlv Model.TlvSpec
  Proofs.TlvFacts Proofs.TlvTotal Proofs.TlvWriter Proofs.TlvRoundtrip
  Proofs.TlvWithin Proofs.TlvScalar Proofs.TlvReencode Proofs.TlvIter Proofs.TlvDecodeInv
  Proofs.TlvMonitor.
Import ListNotations.
Open Scope N_scope.

(** * Totality

    Every public accessor of [TLVElement] and [TLVSequence], both
    iterators drained to the end (errors not stopping the consumer), the
    tree decoder and the re-encoder - the list [probe_all], which is
    exactly what the harness runs on the real code - return a value or an
    error on EVERY byte string: never a panic (overflow, [unwrap!],
    indexing), never out of fuel (unbounded loop; fuel = length of the
    input + 2, twice that for the recursive tree decoder).  The only
    hypothesis is Rust's own bound on the length of a slice. *)
Theorem C16_total : forall s : bytes,
  blen s < two63 -> Forall safe (probe_all s).
Proof. exact probe_all_safe. Qed.
Print Assumptions C16_total.

(** * Round trip

    Every well-formed value tree (all tag forms, all integer widths and
    extremes, float bit patterns, strings with every length-field width,
    null, containers nested to any depth), written by the writer and
    followed by arbitrary bytes, decodes back to the same tree. *)
Theorem C16_roundtrip : forall (x : tree) (rest : bytes),
  wf_tree x -> blen (encode x ++ rest) < two63 ->
  decode (encode x ++ rest) = ROk x.
Proof. exact decode_encode. Qed.
Print Assumptions C16_roundtrip.

(** The minimal-width writer API: what was written reads back through
    the matching typed accessor, for every value of the type. *)
Theorem C16_u64_roundtrip : forall (t : tag) (n : N) (rest : bytes),
  n < two64 -> el_u64 (w_u64 t n ++ rest) = ROk n.
Proof. exact w_u64_read. Qed.
Print Assumptions C16_u64_roundtrip.

Theorem C16_i64_roundtrip : forall (t : tag) (z : Z) (rest : bytes),
  (- 9223372036854775808 <= z < 9223372036854775808)%Z ->
  el_i64 (w_i64 t z ++ rest) = ROk z.
Proof. exact w_i64_read. Qed.
Print Assumptions C16_i64_roundtrip.

Theorem C16_str_roundtrip : forall (t : tag) (d rest : bytes),
  blen d < two64 -> el_str (w_str t d ++ rest) = ROk d.
Proof. exact w_str_read. Qed.
Print Assumptions C16_str_roundtrip.

Theorem C16_utf8_roundtrip : forall (t : tag) (d rest : bytes),
  blen d < two64 -> utf8_valid d = true -> el_utf8 (w_utf8 t d ++ rest) = ROk d.
Proof. exact w_utf8_read. Qed.
Print Assumptions C16_utf8_roundtrip.

Theorem C16_scalar_roundtrip : forall (t : tag) (rest : bytes),
  (forall b, el_bool (w_bool t b ++ rest) = ROk b) /\
  el_null (w_null t ++ rest) = ROk tt /\
  (forall b, b < 4294967296 -> el_f32 (w_f32 t b ++ rest) = ROk b) /\
  (forall b, b < two64 -> el_f64 (w_f64 t b ++ rest) = ROk b) /\
  (forall n, wf_tag t -> el_tag (w_u64 t n ++ rest) = ROk t).
Proof.
  intros t rest. repeat split; intros.
  - apply w_bool_read. - apply w_null_read. - apply w_f32_read; assumption.
  - apply w_f64_read; assumption. - apply w_u64_tag; assumption.
Qed.
Print Assumptions C16_scalar_roundtrip.

(** the writer uses the smallest width that holds the value *)
Theorem C16_u64_minimal_width : forall (t : tag) (n : N),
  n < two64 ->
  exists w, w_u64 t n = w_tlv t (VU w n) /\ n < wfull w /\
            (forall w', n < wfull w' -> widx w <= widx w').
Proof. exact w_u64_minimal. Qed.
Print Assumptions C16_u64_minimal_width.

(** The two iterators over the content of a written container:
    [tlv_iter] (repaired, F9b/F9c) yields the complete flattened stream of
    all descendants - container starts and ends included, to any depth -
    and stops at the end of the container; [iter] yields one slice per
    child, each starting with that child's encoding. *)
Theorem C16_tlv_iter_roundtrip : forall (cs : list tree) (rest : bytes),
  wf_list cs -> blen (encode_list cs ++ w_end ++ rest) < two63 ->
  tlv_iter_all (encode_list cs ++ w_end ++ rest) = ROk (map inl (flat_map flatten cs)).
Proof. exact tlv_iter_flatten. Qed.
Print Assumptions C16_tlv_iter_roundtrip.

Theorem C16_iter_children : forall (cs : list tree) (rest : bytes),
  wf_list cs -> blen (encode_list cs ++ w_end ++ rest) < two63 ->
  exists slices, seq_iter_all (encode_list cs ++ w_end ++ rest) = ROk (map inl slices) /\
    length slices = length cs /\
    Forall2 (fun sl c => exists tl, sl = encode c ++ tl) slices cs.
Proof. exact seq_iter_children. Qed.
Print Assumptions C16_iter_children.

(** * Re-encoding

    [ToTLV for TLVElement]: an element whose tag and value can be read,
    re-encoded under its own tag, yields exactly the bytes it occupied in
    the input (header of [hdr_len c] bytes + value). *)
Theorem C16_reencode : forall (s : bytes) (c : control_t) (t : tag) (v : bytes),
  is_bytes s -> control s = ROk c -> el_tag s = ROk t -> el_raw_value s = ROk v ->
  el_to_tlv t s = ROk (firstn (N.to_nat (hdr_len c + blen v)) s).
Proof. exact el_to_tlv_reproduces. Qed.
Print Assumptions C16_reencode.

(** The same at the level of trees: whatever byte string decodes to a
    tree starts with exactly the encoding of that tree, and the tree is
    well-formed ([wf_root]: well-formed, or a lone end-of-container marker
    at the root).  Decoder and writer are inverse on everything the decoder
    accepts. *)
Theorem C16_decode_reencode : forall (s : bytes) (x : tree),
  is_bytes s -> blen s < two63 -> decode s = ROk x ->
  wf_root x /\ exists rest, s = encode x ++ rest.
Proof. exact decode_reencode. Qed.
Print Assumptions C16_decode_reencode.

(** * Reported length within the input

    The value slice reported for an element (scalars, strings, whole
    containers) is the piece of the input that follows its header;
    [mon_within] is the executable form run on the implementation's
    outputs.  [container_len], the total length of such an element, is
    header + value and never exceeds the input. *)
Theorem C16_len_within_input : forall (s : bytes) (c : control_t) (v : bytes),
  control s = ROk c -> el_raw_value s = ROk v ->
  hdr_len c + blen v <= blen s /\ mon_within s (hdr_len c) v = true.
Proof. exact raw_value_within. Qed.
Print Assumptions C16_len_within_input.

Theorem C16_container_len_within_input : forall (s : bytes) (c : control_t) (v : bytes),
  blen s < two63 -> control s = ROk c -> el_raw_value s = ROk v ->
  container_len s = ROk (hdr_len c + blen v) /\ hdr_len c + blen v <= blen s.
Proof. exact container_len_within. Qed.
Print Assumptions C16_container_len_within_input.

Theorem C16_string_within_input : forall (s : bytes) (c : control_t) (v : bytes),
  control s = ROk c -> el_str s = ROk v \/ el_utf8 s = ROk v \/ el_octets s = ROk v ->
  hdr_len c + blen v <= blen s /\ mon_within s (hdr_len c) v = true.
Proof. exact str_within. Qed.
Print Assumptions C16_string_within_input.

(** * The monitors run on the implementation's outputs are sound *)
Theorem C16_monitors_sound :
  (forall t written, mon_roundtrip t written = true -> decode written = ROk t) /\
  (forall l, mon_no_panic l = true -> Forall (fun o => o = CValue \/ o = CError) l) /\
  (forall input off v, mon_within input off v = true ->
     off + blen v <= blen input /\ v = firstn (length v) (skipn (N.to_nat off) input)) /\
  (forall input reenc, mon_reencode input reenc = true -> reenc = firstn (length reenc) input).
Proof.
  repeat split.
  - exact mon_roundtrip_sound. - exact mon_no_panic_sound.
  - apply mon_within_sound; assumption. - apply mon_within_sound; assumption.
  - exact mon_reencode_sound.
Qed.
Print Assumptions C16_monitors_sound.

(** * The defects that were repaired (DESIGN section 8, F9)

    On the unrepaired code ([*_legacy] transcriptions) totality is false;
    the same inputs are errors / values on the repaired code. *)
Example C16_total_refuted_before_fix_F9a :
  el_raw_value_legacy [0x15; 0x13; 255; 255; 255; 255; 255; 255; 255; 255] = RPanic P_LEN_ADD /\
  el_raw_value [0x15; 0x13; 255; 255; 255; 255; 255; 255; 255; 255] = RErr E_TM.
Proof. split; vm_compute; reflexivity. Qed.

Example C16_total_refuted_before_fix_F9b :
  (* the content of the valid structure 15 04 00 18 *)
  tlv_try_next_legacy [0x04; 0x00; 0x18] 0 = RPanic P_NEST_SUB /\
  tlv_iter_all [0x04; 0x00; 0x18] = ROk [inl (TgAnon, VU W1 0)].
Proof. split; vm_compute; reflexivity. Qed.

(** F9c: the repaired iterator walks nested containers to the end *)
Example C16_tlv_iter_nested :
  tlv_iter_all [0x04; 0; 0x35; 1; 4; 7; 0x18; 4; 9; 0x18] =
  ROk [inl (TgAnon, VU W1 0); inl (TgCtx 1, VCont KStruct); inl (TgAnon, VU W1 7);
       inl (TgAnon, VEnd); inl (TgAnon, VU W1 9)].
Proof. vm_compute. reflexivity. Qed.

(** * Non-vacuity *)
Definition C16_sample : tree :=
  Node TgAnon KStruct
    [ Leaf (TgCtx 0) (VU W1 255);
      Leaf (TgCtx 1) (VS W8 (-9223372036854775808)%Z);
      Node (TgF64 65521 57069 2857762541) KArray
        [ Leaf TgAnon (VUtf W2 [72; 105]); Leaf TgAnon (VStr W8 [1; 2; 3]);
          Node TgAnon KList [Leaf (TgC16 7) VNull; Leaf (TgI32 9) (VBool true)] ];
      Leaf (TgCtx 2) (VF32 2139095040) ].

Example C16_ex_wf : wf_tree C16_sample /\ blen (encode C16_sample) < two63.
Proof.
  split; [|vm_compute; reflexivity].
  cbn [C16_sample wf_tree wf_tag wf_val].
  repeat match goal with
         | |- _ /\ _ => split
         | |- True => exact I
         | |- is_bytes _ => repeat constructor; vm_compute; reflexivity
         | |- (_ <= _)%Z => vm_compute; discriminate
         | |- _ => vm_compute; reflexivity
         end.
Qed.

Example C16_ex_roundtrip : decode (encode C16_sample ++ [0x18; 0xff]) = ROk C16_sample.
Proof. vm_compute. reflexivity. Qed.

Example C16_ex_total_hostile :
  (* a length field of 2^64-1 inside a structure: every accessor answers, none panics *)
  forallb (fun r => ocl_ok (ocl_of r))
    (probe_all [0x15; 0x30; 0x01; 0x13; 255; 255; 255; 255; 255; 255; 255; 255; 0x18]) = true.
Proof. vm_compute. reflexivity. Qed.
