(** Property C06 - every Interaction Model operation is mediated by the
    access check.  Property theorems only.

    Model: Model/Im.v (im/expand.rs, dm/types/cluster.rs check_*_access,
    im/invoker.rs, im.rs handle / timed_out / read / write / invoke,
    transcribed).  The access decision is C05's (Model/Acl.v).
    Specification: Model/ImSpec.v ([permitted], [served],
    [concrete_decision], [request_spec], [spec_response]) over the
    declarative [spec_granted] of C05.

    Reading of "permitted for the requester" where the code caches the
    authorisation (expand.rs [last_authorized]): an entry that repeats the
    element served immediately before it in the same request is covered by
    the authorisation of that first access.  With the node and the access
    control lists fixed during a request the cache is invisible (first
    group of theorems); with either replaced between steps the reading is
    explicit in [served_sound] (C06_resume_sound). *)
From RsM Require Import Lib.MachInt Model.Acl Model.AclSpec Model.Im Model.ImSpec Model.ImEvents.
From RsM Require Import Proofs.ImEventFacts Proofs.ImExpand Proofs.ImRun Proofs.ImSound Proofs.ImTimed
  Proofs.ImTheorems Proofs.ImMonitor Proofs.ImResume Proofs.ImChunked.
Open Scope N_scope.

(** ** Exactness, for every node, every access-control table, every
    requester, every list of concrete and wildcard paths in any order and
    with repeats: the entries of the answer are the specified ones, in
    order, and the handler is called for exactly the served ones. *)
Theorem C06_request_exact :
  forall (fabs : list fabric) (who : accessor) (op : operation) (timed : bool)
         (flt : N -> N -> N -> bool) (ff : bool) (nd : node),
  wf_fabrics fabs = true -> wf_node nd = true ->
  forall (items : list item) (fuel : nat),
  (length (request_spec nd fabs who op timed flt items) < fuel)%nat ->
  expand_all fuel (mkEnv op who timed flt) ff (mkCfg nd fabs) [] items
  = RunDone (request_spec nd fabs who op timed flt items)
            (calls_of who op ff (request_spec nd fabs who op timed flt items)).
Proof. exact expand_all_exact. Qed.
Print Assumptions C06_request_exact.

(** A wildcard item: the outputs are exactly [permitted] (restricted by the
    report filter), each once, in node order; the rest is omitted silently;
    the handler receives exactly those. *)
Theorem C06_wildcard_exact :
  forall (fabs : list fabric) (who : accessor) (op : operation) (timed : bool)
         (flt : N -> N -> N -> bool) (ff : bool) (nd : node) (it : item) (fuel : nat),
  wf_fabrics fabs = true -> wf_node nd = true ->
  is_wildcard (it_path it) = true ->
  is_read op = true \/ (is_some (p_cl (it_path it)) = true /\ is_some (p_leaf (it_path it)) = true) ->
  (length (served nd fabs who op timed flt (it_path it)) < fuel)%nat ->
  expand_all fuel (mkEnv op who timed flt) ff (mkCfg nd fabs) [] [it]
  = RunDone (map (out_of (it_tag it)) (served nd fabs who op timed flt (it_path it)))
            (calls_of who op ff (map (out_of (it_tag it)) (served nd fabs who op timed flt (it_path it)))).
Proof. exact wildcard_exact. Qed.
Print Assumptions C06_wildcard_exact.

(** without a report filter, [served] is [permitted] *)
Theorem C06_served_unfiltered :
  forall (nd : node) (fabs : list fabric) (who : accessor) (op : operation) (timed : bool) (p : gpath),
  served nd fabs who op timed (fun _ _ _ => true) p = permitted nd fabs who op timed p.
Proof. exact served_unfiltered. Qed.
Print Assumptions C06_served_unfiltered.

(** A concrete path: the value, or the status the decision table gives;
    on a status the handler is not called. *)
Theorem C06_concrete_status :
  forall (fabs : list fabric) (who : accessor) (op : operation) (timed : bool)
         (flt : N -> N -> N -> bool) (ff : bool) (nd : node) (e c l : N) (tag : option N) (fuel : nat),
  wf_fabrics fabs = true -> wf_node nd = true -> (1 < fuel)%nat ->
  expand_all fuel (mkEnv op who timed flt) ff (mkCfg nd fabs) []
             [mkItem (mkPath (Some e) (Some c) (Some l)) tag]
  = match concrete_decision nd fabs who op timed flt e c l with
    | Served t => RunDone [out_of tag t] (calls_of who op ff [out_of tag t])
    | Refused s => RunDone [OStatus (mkPath (Some e) (Some c) (Some l)) tag s] []
    | Silent => RunDone [] []
    end.
Proof. exact concrete_status. Qed.
Print Assumptions C06_concrete_status.

(** the decision table serves exactly the permitted elements *)
Theorem C06_concrete_served_permitted :
  forall (nd : node) (fabs : list fabric) (who : accessor) (op : operation) (timed : bool)
         (flt : N -> N -> N -> bool) (e c l : N) (t : cand),
  concrete_decision nd fabs who op timed flt e c l = Served t ->
  In t (all_leaves op nd) /\ cand_ids t = (e, c, l)
  /\ permitted_leaf fabs who op timed t = true /\ flt e c l = true.
Proof. exact concrete_served. Qed.
Print Assumptions C06_concrete_served_permitted.

(** every served entry of an answer is an element that exists on the node,
    matches one of the requested paths and is permitted *)
Theorem C06_served_permitted :
  forall (nd : node) (fabs : list fabric) (who : accessor) (op : operation) (timed : bool)
         (flt : N -> N -> N -> bool) (items : list item) (e c l : N) (tag : option N),
  In (OData e c l tag) (request_spec nd fabs who op timed flt items) ->
  exists it t, In it items /\ In t (all_leaves op nd) /\ cand_ids t = (e, c, l)
               /\ matches (it_path it) t = true /\ permitted_leaf fabs who op timed t = true.
Proof. exact request_spec_data. Qed.
Print Assumptions C06_served_permitted.

(** ** The whole engine (timed gate, request validation, expansion) *)
Theorem C06_engine_exact :
  forall (fuel max_paths : nat) (who : accessor) (nd : node) (fabs : list fabric) (rq : imreq),
  wf_node nd = true -> wf_fabrics fabs = true ->
  (length (spec_outs nd fabs who rq) < fuel)%nat ->
  im_handle fuel max_paths who (mkCfg nd fabs) [] rq = spec_response max_paths who nd fabs rq.
Proof. exact im_handle_exact. Qed.
Print Assumptions C06_engine_exact.

(** ** Timed interactions *)
Theorem C06_timed_gate :
  forall (win : option N) (flag : bool) (elapsed : N),
  timed_gate win flag elapsed = gate_spec win flag elapsed.
Proof. exact timed_gate_eq_spec. Qed.
Print Assumptions C06_timed_gate.

(** a write / invoke is processed only if its flag says what happened on
    the exchange, and a timed one only inside the unexpired window: a timed
    action without the window is refused as a whole *)
Theorem C06_timed_window :
  forall (fuel max_paths : nat) (who : accessor) (c0 : config) (sw : list (nat * config))
         (rq : imreq) (outs : list out) (log : list hcall),
  im_handle fuel max_paths who c0 sw rq = RespItems outs log -> rq_op rq <> Read ->
  rq_flag rq = is_some (rq_win rq)
  /\ (rq_flag rq = true -> window_open (rq_win rq) (rq_elapsed rq) = true).
Proof. exact im_handle_items_gate. Qed.
Print Assumptions C06_timed_window.

(** a permitted write / invoke of a timed-only element is a timed one ... *)
Theorem C06_timed_only :
  forall (fabs : list fabric) (who : accessor) (op : operation) (timed : bool) (t : cand),
  permitted_leaf fabs who op timed t = true -> op <> Read ->
  timed_only (l_access (snd t)) = true -> timed = true.
Proof. exact permitted_timed_only. Qed.
Print Assumptions C06_timed_only.

(** ... and outside a timed interaction it is refused with NeedsTimedInteraction *)
Theorem C06_timed_only_refused :
  forall (fabs : list fabric) (who : accessor) (op : operation) (t : cand),
  op <> Read -> timed_only (l_access (snd t)) = true ->
  leaf_decision fabs who op false t = Some SNeedsTimedInteraction.
Proof. exact timed_only_refused. Qed.
Print Assumptions C06_timed_only_refused.

(** ** Fabric-scoped commands are refused to requesters without a fabric *)
Theorem C06_fabric_scoped :
  forall (fabs : list fabric) (who : accessor) (timed : bool) (t : cand),
  permitted_leaf fabs who Invoke timed t = true ->
  fabric_scoped (l_access (snd t)) = true -> a_fab who <> 0.
Proof. exact permitted_fabric_scoped. Qed.
Print Assumptions C06_fabric_scoped.

Theorem C06_fabric_scoped_refused :
  forall (fabs : list fabric) (who : accessor) (timed : bool) (t : cand),
  fabric_scoped (l_access (snd t)) = true -> a_fab who = 0 ->
  timed_ok Invoke timed (l_access (snd t)) = true ->
  leaf_decision fabs who Invoke timed t = Some SUnsupportedAccess.
Proof. exact fabric_scoped_refused. Qed.
Print Assumptions C06_fabric_scoped_refused.

(** ** Fabric-sensitive data: every call the handler receives carries the
    requester's own fabric and, for reads, the request's filter flag
    (writes are always fabric-filtered); the filtering of the data itself
    is the cluster handler's (outside the model). *)
Theorem C06_fabric_sensitive :
  forall (who : accessor) (op : operation) (ff : bool) (outs : list out) (h : hcall),
  In h (calls_of who op ff outs) ->
  hcall_fabric h = a_fab who /\
  (forall e c l f b, h = HRead e c l f b -> b = ff).
Proof. exact calls_carry_fabric. Qed.
Print Assumptions C06_fabric_sensitive.

(** ** The node (and the access control lists) replaced between steps:
    whatever the cursor and whatever the replacement, an element is handed
    to the handler only if it exists in the node in force at that step,
    matches and is permitted there - or repeats the element served
    immediately before it (authorisation of the first access). *)
Theorem C06_step_sound :
  forall (env : xenv) (fabs : list fabric) (path : gpath) (nd : node) (st : xstate)
         (eid cl id : N) (st' : xstate),
  next_for_path env nd fabs st path = NFound eid cl id st' ->
  x_last st' = Some (eid, cl, id) /\
  exists e c l, In e nd /\ In c (ep_clusters e) /\ In l (leaves (xe_op env) c)
                /\ ep_id e = eid /\ c_id c = cl /\ l_id l = id
                /\ eok env fabs path e = true /\ cok path c = true
                /\ accepted env fabs path (x_last st) e c l.
Proof. exact next_for_path_found. Qed.
Print Assumptions C06_step_sound.

Theorem C06_resume_sound :
  forall (fuel max_paths : nat) (who : accessor) (c0 : config) (sw : list (nat * config))
         (rq : imreq) (outs : list out) (log : list hcall),
  forallb cfg_wf (c0 :: map snd sw) = true ->
  im_handle fuel max_paths who c0 sw rq = RespItems outs log ->
  served_sound c0 sw who (rq_op rq) (run_timed rq) 0 None outs = true
  /\ log = calls_of who (rq_op rq) (rq_ff rq) outs.
Proof. exact im_handle_sound. Qed.
Print Assumptions C06_resume_sound.

(** one step of a wildcard scan on any well-formed node, from any coherent
    cursor: the first acceptable element of what the cursor has not passed,
    and the cursor lands right behind it (nothing in between is skipped,
    nothing behind it is revisited) *)
Theorem C06_resume_step :
  forall (env : xenv) (fabs : list fabric) (path : gpath),
  is_wildcard path = true ->
  forall (nd : node) (st : xstate),
  path_ok env path -> sorted nd -> scoh env fabs path nd st -> x_last st = None ->
  match next_for_path env nd fabs st path with
  | NFound eid cl id st' =>
      exists e c l, In e nd /\ In c (ep_clusters e) /\ In l (leaves (xe_op env) c)
                    /\ eok env fabs path e = true /\ cok path c = true /\ lok env fabs path e c l = true
                    /\ eid = ep_id e /\ cl = c_id c /\ id = l_id l
                    /\ remaining env fabs path nd st = (e, c, l) :: remaining env fabs path nd st'
                    /\ scoh env fabs path nd st'
                    /\ x_last st' = Some (eid, cl, id)
  | NExhausted => remaining env fabs path nd st = []
  | NStatus _ => False
  end.
Proof. exact next_for_path_wild. Qed.
Print Assumptions C06_resume_step.

(** The whole scan of a wildcard item while the node is replaced between
    cursor steps ([drain nodes cursor ys]: the i-th step runs on the i-th
    node, the last one finds the item exhausted) by nodes drawn from one
    family of endpoints in which an id keeps its shape (the Node invariant
    of dm/types/node.rs): every yield exists and is permitted in the node
    in force at its step, nothing is yielded twice, and whatever every node
    of the run serves is yielded. *)
Theorem C06_resume_stable :
  forall (fabs : list fabric) (who : accessor) (op : operation) (timed : bool)
         (flt : N -> N -> N -> bool) (path : gpath) (fam : endpoint -> Prop)
         (nodes : list node) (ys : list (N * N * N)),
  wf_fabrics fabs = true -> is_wildcard path = true -> path_ok (mkEnv op who timed flt) path ->
  (forall e e', fam e -> fam e' -> ep_id e = ep_id e' -> e = e') ->
  (forall nd, In nd nodes -> good fam nd) ->
  drain (mkEnv op who timed flt) fabs path nodes (fresh None) ys ->
  Forall2 (fun nd y => exists t, cand_ids t = y /\ In t (served nd fabs who op timed flt path))
          (firstn (length ys) nodes) ys
  /\ NoDup ys
  /\ (forall t, (forall nd, In nd nodes -> In t (served nd fabs who op timed flt path)) ->
                In (cand_ids t) ys).
Proof. exact resume_stable. Qed.
Print Assumptions C06_resume_stable.

(** ** The monitor run on the implementation is the property *)
Theorem C06_monitor_sound :
  forall (max_paths : nat) (who : accessor) (nd : node) (fabs : list fabric) (rq : imreq) (resp : imresp),
  wf_node nd = true -> wf_fabrics fabs = true ->
  holds max_paths who (mkCfg nd fabs) [] rq resp = true ->
  resp = spec_response max_paths who nd fabs rq.
Proof. exact holds_stable_sound. Qed.
Print Assumptions C06_monitor_sound.

Theorem C06_model_satisfies_monitor :
  forall (fuel max_paths : nat) (who : accessor) (nd : node) (fabs : list fabric) (rq : imreq),
  wf_node nd = true -> wf_fabrics fabs = true ->
  (length (spec_outs nd fabs who rq) < fuel)%nat ->
  holds max_paths who (mkCfg nd fabs) [] rq (im_handle fuel max_paths who (mkCfg nd fabs) [] rq) = true.
Proof. exact holds_model. Qed.
Print Assumptions C06_model_satisfies_monitor.

(** ** A write continued over several chunks: the timed gate (flag against
    the one TimedRequest of the exchange, window against the clock at that
    chunk) is applied to every chunk; a refused chunk ends the interaction. *)
Theorem C06_chunked_exact :
  forall (fuel max_paths : nat) (who : accessor) (nd : node) (fabs : list fabric)
         (win : option N) (ff : bool) (chunks : list wchunk),
  wf_node nd = true -> wf_fabrics fabs = true ->
  (forall ch, In ch chunks -> (length (spec_outs nd fabs who (chunk_req win ff ch)) < fuel)%nat) ->
  write_chunked fuel max_paths who (mkCfg nd fabs) [] win ff chunks
  = spec_write_chunked max_paths who nd fabs win ff chunks.
Proof. exact write_chunked_exact. Qed.
Print Assumptions C06_chunked_exact.

Theorem C06_chunked_timed_window :
  forall (fuel max_paths : nat) (who : accessor) (c0 : config) (sw : list (nat * config))
         (win : option N) (ff : bool) (chunks : list wchunk) (i : nat) (ch : wchunk)
         (outs : list out) (log : list hcall),
  nth_error chunks i = Some ch ->
  nth_error (write_chunked fuel max_paths who c0 sw win ff chunks) i = Some (RespItems outs log) ->
  ch_flag ch = is_some win /\ (ch_flag ch = true -> window_open win (ch_elapsed ch) = true).
Proof. exact write_chunked_gate. Qed.
Print Assumptions C06_chunked_timed_window.

Theorem C06_chunked_stops :
  forall (fuel max_paths : nat) (who : accessor) (c0 : config) (sw : list (nat * config))
         (win : option N) (ff : bool) (chunks : list wchunk) (i : nat) (s : status),
  nth_error (write_chunked fuel max_paths who c0 sw win ff chunks) i = Some (RespStatus s) ->
  length (write_chunked fuel max_paths who c0 sw win ff chunks) = S i.
Proof. exact write_chunked_stops. Qed.
Print Assumptions C06_chunked_stops.

Theorem C06_chunked_monitor_sound :
  forall (max_paths : nat) (who : accessor) (nd : node) (fabs : list fabric)
         (win : option N) (ff : bool) (chunks : list wchunk) (resps : list imresp),
  wf_node nd = true -> wf_fabrics fabs = true ->
  holds_chunked max_paths who (mkCfg nd fabs) [] win ff chunks resps = true ->
  resps = spec_write_chunked max_paths who nd fabs win ff chunks.
Proof. exact holds_chunked_sound. Qed.
Print Assumptions C06_chunked_monitor_sound.

(** ** Events.  What a read (or the priming report of a subscription)
    with event paths reports is [permitted_events]: the queued
    events that are visible to the requester's fabric, come from an element
    that exists and that the requester may read, and match a requested
    path - in queue order; concrete paths get the status of the decision
    table; the rest is omitted silently. *)
(** Known finding [absent-event-no-status] (design.d/C06.md): on a
    ReadRequest a concrete event path whose cluster exists on the endpoint
    but whose event id is not among the cluster's events must yield an
    UnsupportedEvent status ([event_path_status]); the code deliberately
    answers nothing for it.  [known_absent_event_no_status] is the class of
    such requests; exactness is proved outside it, the code's answer is
    characterised inside it, and the class is inhabited. *)
Theorem C06_event_exact :
  forall (fabs : list fabric) (who : accessor) (nd : node),
  wf_fabrics fabs = true -> wf_node_events nd = true ->
  forall (paths : list gpath) (queue : list qevent),
  known_absent_event_no_status nd paths = false ->
  read_events fabs who nd paths queue = spec_read_events nd fabs who paths queue.
Proof. exact read_events_exact. Qed.
Print Assumptions C06_event_exact.

(** for every request, in the class or not: the code's answer is the specified
    one without its UnsupportedEvent status entries - nothing else differs *)
Theorem C06_event_code_exact :
  forall (fabs : list fabric) (who : accessor) (nd : node),
  wf_fabrics fabs = true -> wf_node_events nd = true ->
  forall (paths : list gpath) (queue : list qevent),
  read_events fabs who nd paths queue = strip_known (spec_read_events nd fabs who paths queue).
Proof. exact read_events_code. Qed.
Print Assumptions C06_event_code_exact.

Theorem C06_event_known_inhabited :
  wf_node_events known_witness_node = true /\ wf_fabrics known_witness_fabs = true
  /\ known_absent_event_no_status known_witness_node known_witness_paths = true
  /\ spec_read_events known_witness_node known_witness_fabs known_witness_who known_witness_paths known_witness_queue
     = RespItems [OStatus (mkPath (Some 0) (Some 6) (Some 9)) None SUnsupportedEvent; OData 0 6 0 None] []
  /\ read_events known_witness_fabs known_witness_who known_witness_node known_witness_paths known_witness_queue
     = RespItems [OData 0 6 0 None] []
  /\ holds_events false known_witness_who known_witness_node known_witness_fabs known_witness_paths known_witness_queue
       (read_events known_witness_fabs known_witness_who known_witness_node known_witness_paths known_witness_queue)
     = false.
Proof. exact known_absent_event_inhabited. Qed.
Print Assumptions C06_event_known_inhabited.

Theorem C06_event_absent_no_status :
  forall (fabs : list fabric) (who : accessor) (nd : node),
  wf_fabrics fabs = true -> wf_node_events nd = true ->
  forall (e c id : N) (queue : list qevent),
  absent_event_path nd (mkPath (Some e) (Some c) (Some id)) = true ->
  event_path_status nd fabs who e c id = Some SUnsupportedEvent
  /\ read_events fabs who nd [mkPath (Some e) (Some c) (Some id)] queue
     = RespItems (map event_out (permitted_events nd fabs who [mkPath (Some e) (Some c) (Some id)] queue)) [].
Proof. exact event_absent_no_status. Qed.
Print Assumptions C06_event_absent_no_status.

Theorem C06_event_wildcard_exact :
  forall (fabs : list fabric) (who : accessor) (nd : node),
  wf_fabrics fabs = true -> wf_node_events nd = true ->
  forall (p : gpath) (queue : list qevent),
  is_wildcard p = true ->
  read_events fabs who nd [p] queue
  = RespItems (map event_out (permitted_events nd fabs who [p] queue)) [].
Proof. exact event_wildcard_exact. Qed.
Print Assumptions C06_event_wildcard_exact.

Theorem C06_event_concrete_status :
  forall (fabs : list fabric) (who : accessor) (nd : node),
  wf_fabrics fabs = true -> wf_node_events nd = true ->
  forall (e c id : N) (queue : list qevent),
  absent_event_path nd (mkPath (Some e) (Some c) (Some id)) = false ->
  read_events fabs who nd [mkPath (Some e) (Some c) (Some id)] queue
  = RespItems ((match event_path_status nd fabs who e c id with
                | Some s => [OStatus (mkPath (Some e) (Some c) (Some id)) None s]
                | None => []
                end)
               ++ map event_out (permitted_events nd fabs who [mkPath (Some e) (Some c) (Some id)] queue)) [].
Proof. exact event_concrete_status. Qed.
Print Assumptions C06_event_concrete_status.

(** subscriptions refuse such paths as a whole (InvalidAction): no deviation *)
Theorem C06_event_subscribe_exact :
  forall (fabs : list fabric) (who : accessor) (nd : node),
  wf_fabrics fabs = true -> wf_node_events nd = true ->
  forall (paths : list gpath) (queue : list qevent),
  subscribe_events fabs who nd paths queue = spec_subscribe_events nd fabs who paths queue.
Proof. exact subscribe_events_spec. Qed.
Print Assumptions C06_event_subscribe_exact.

(** the classifier of the known finding *)
Theorem C06_event_known_classifier_sound :
  forall (subscribe : bool) (who : accessor) (nd : node) (fabs : list fabric)
         (paths : list gpath) (queue : list qevent) (resp : imresp),
  holds_events_known subscribe who nd fabs paths queue resp = true ->
  subscribe = false /\ known_absent_event_no_status nd paths = true
  /\ resp = strip_known (spec_read_events nd fabs who paths queue)
  /\ resp = read_events fabs who nd paths queue.
Proof. exact holds_events_known_sound. Qed.
Print Assumptions C06_event_known_classifier_sound.

(** an event that names a fabric is reported to that fabric only (no hypothesis) *)
Theorem C06_event_fabric_sensitive :
  forall (fabs : list fabric) (who : accessor) (nd : node) (paths : list gpath)
         (queue : list qevent) (ev : qevent) (f : N),
  In ev (filter (event_reported fabs who nd paths) queue) -> qe_fab ev = Some f -> f = a_fab who.
Proof. exact event_fabric_sensitive. Qed.
Print Assumptions C06_event_fabric_sensitive.

Theorem C06_event_source_permitted :
  forall (nd : node) (fabs : list fabric) (who : accessor) (paths : list gpath)
         (queue : list qevent) (ev : qevent),
  In ev (permitted_events nd fabs who paths queue) ->
  In ev queue /\ event_visible who ev = true
  /\ (exists t, event_source nd ev = Some t /\ event_granted fabs who t = true)
  /\ exists p, In p paths /\ event_matches p ev = true.
Proof. exact permitted_event_source. Qed.
Print Assumptions C06_event_source_permitted.

Theorem C06_event_monitor_sound :
  forall (subscribe : bool) (who : accessor) (nd : node) (fabs : list fabric)
         (paths : list gpath) (queue : list qevent) (resp : imresp),
  wf_node_events nd = true -> wf_fabrics fabs = true ->
  holds_events subscribe who nd fabs paths queue resp = true ->
  resp = if subscribe then spec_subscribe_events nd fabs who paths queue
         else spec_read_events nd fabs who paths queue.
Proof. exact holds_events_sound. Qed.
Print Assumptions C06_event_monitor_sound.

(** ** A group requester reaches only the endpoints of its group: whatever
    a request serves lies on an endpoint that is reachable for the requester
    (C05: for a group requester, a member endpoint of its group). *)
Theorem C06_group_members_only :
  forall (nd : node) (fabs : list fabric) (who : accessor) (op : operation) (timed : bool)
         (flt : N -> N -> N -> bool) (items : list item) (e c l : N) (tag : option N),
  In (OData e c l tag) (request_spec nd fabs who op timed flt items) ->
  spec_endpoint fabs who e = true.
Proof. exact group_members_only. Qed.
Print Assumptions C06_group_members_only.

(** ** Non-vacuity: the hypotheses are satisfiable and every kind of
    outcome occurs (evaluated inside Coq on the model). *)
Definition ex_node : node :=
  [mkEndpoint 0 [22] [mkCluster 6 [mkLeaf 0 17 true; mkLeaf 1 57 true; mkLeaf 2 313 true; mkLeaf 3 24 true]
                                  [mkLeaf 0 46 true; mkLeaf 1 302 true; mkLeaf 2 104 true]
                                  [mkLeaf 0 17 true; mkLeaf 1 24 true; mkLeaf 2 145 true]];
   mkEndpoint 1 [] [mkCluster 6 [mkLeaf 0 17 true] [] [mkLeaf 0 17 true]]].
Definition ex_manager : list fabric := [mkFabric 1 [mkEntry 7 ACase (Some [112233]) None (Some 1)] []].
Definition ex_admin : list fabric := [mkFabric 1 [mkEntry 15 ACase (Some [112233]) None (Some 1)] []].
Definition ex_who : accessor := for_session (SCase 1 [0; 0; 0]) (Some 112233) false.
Definition ex_pase : accessor := for_session (SPase 0) None false.
Definition ex_it (e c l : option N) : item := mkItem (mkPath e c l) None.
Definition ex_p (e c l : N) : gpath := mkPath (Some e) (Some c) (Some l).

Example C06_ex_wellformed :
  wf_node ex_node = true /\ wf_fabrics ex_manager = true /\ wf_fabrics ex_admin = true.
Proof. vm_compute. repeat split. Qed.

(** a wildcard read by a Manage requester: the Administer-only attribute 3 is omitted silently *)
Example C06_ex_wildcard_read :
  im_handle 30 4 ex_who (mkCfg ex_node ex_manager) [] (mkReqst None 0 Read false false [ex_it None None None])
  = RespItems [OData 0 6 0 None; OData 0 6 1 None; OData 0 6 2 None; OData 1 6 0 None]
              [HRead 0 6 0 1 false; HRead 0 6 1 1 false; HRead 0 6 2 1 false; HRead 1 6 0 1 false].
Proof. vm_compute. reflexivity. Qed.

(** concrete reads: not permitted, absent, permitted *)
Example C06_ex_concrete_read :
  im_handle 30 4 ex_who (mkCfg ex_node ex_manager) []
    (mkReqst None 0 Read false false
       [ex_it (Some 0) (Some 6) (Some 3); ex_it (Some 0) (Some 6) (Some 9); ex_it (Some 0) (Some 6) (Some 0)])
  = RespItems [OStatus (ex_p 0 6 3) None SUnsupportedAccess; OStatus (ex_p 0 6 9) None SUnsupportedAttribute;
               OData 0 6 0 None]
              [HRead 0 6 0 1 false].
Proof. vm_compute. reflexivity. Qed.

(** writes by an Administer requester: a timed-only attribute outside / inside a timed interaction *)
Example C06_ex_write_untimed :
  im_handle 30 4 ex_who (mkCfg ex_node ex_admin) []
    (mkReqst None 0 Write false false [ex_it (Some 0) (Some 6) (Some 2); ex_it (Some 0) (Some 6) (Some 1)])
  = RespItems [OStatus (ex_p 0 6 2) None SNeedsTimedInteraction; OData 0 6 1 None] [HWrite 0 6 1 1].
Proof. vm_compute. reflexivity. Qed.

Example C06_ex_write_timed :
  im_handle 30 4 ex_who (mkCfg ex_node ex_admin) []
    (mkReqst (Some 5000) 10 Write true false [ex_it (Some 0) (Some 6) (Some 2)])
  = RespItems [OData 0 6 2 None] [HWrite 0 6 2 1].
Proof. vm_compute. reflexivity. Qed.

Example C06_ex_write_expired :
  im_handle 30 4 ex_who (mkCfg ex_node ex_admin) []
    (mkReqst (Some 5) 10 Write true false [ex_it (Some 0) (Some 6) (Some 2)]) = RespStatus STimeout.
Proof. vm_compute. reflexivity. Qed.

Example C06_ex_write_flag_without_window :
  im_handle 30 4 ex_who (mkCfg ex_node ex_admin) []
    (mkReqst None 0 Write true false [ex_it (Some 0) (Some 6) (Some 2)]) = RespStatus STimedRequestMisMatch.
Proof. vm_compute. reflexivity. Qed.

(** a fabric-scoped command: refused to a PASE requester without fabric, served to the administrator *)
Example C06_ex_fabric_scoped :
  im_handle 30 4 ex_pase (mkCfg ex_node ex_admin) []
    (mkReqst None 0 Invoke false false [ex_it (Some 0) (Some 6) (Some 2)])
  = RespItems [OStatus (ex_p 0 6 2) None SUnsupportedAccess] []
  /\ im_handle 30 4 ex_who (mkCfg ex_node ex_admin) []
       (mkReqst None 0 Invoke false false [ex_it (Some 0) (Some 6) (Some 2)])
     = RespItems [OData 0 6 2 None] [HInvoke 0 6 2 1].
Proof. vm_compute. split; reflexivity. Qed.

(** endpoint 0 removed after the first handler call of a wildcard read: the scan goes on with endpoint 1 *)
Example C06_ex_node_replaced :
  im_handle 30 4 ex_who (mkCfg ex_node ex_manager) [(1%nat, mkCfg (tl ex_node) ex_manager)]
    (mkReqst None 0 Read false false [ex_it None None None])
  = RespItems [OData 0 6 0 None; OData 1 6 0 None] [HRead 0 6 0 1 false; HRead 1 6 0 1 false].
Proof. vm_compute. reflexivity. Qed.

(** the same run at the level of the cursor: a [drain] over three nodes of one family *)
Example C06_ex_drain :
  drain (mkEnv Read ex_who false (fun _ _ _ => true)) ex_manager (mkPath None None None)
        [ex_node; tl ex_node; tl ex_node] (fresh None) [(0, 6, 0); (1, 6, 0)]
  /\ (forall nd, In nd [ex_node; tl ex_node; tl ex_node] -> good (fun e => In e ex_node) nd).
Proof.
  split.
  - eapply drain_step; [vm_compute; reflexivity|].
    eapply drain_step; [vm_compute; reflexivity|].
    apply drain_done. vm_compute. reflexivity.
  - intros nd [<-|[<-|[<-|[]]]]; (split; [vm_compute; reflexivity|]); intros e He;
      [exact He|right; exact He|right; exact He].
Qed.

(** chunked writes of the timed-only attribute 2: a continuation chunk cannot claim to be timed
    when no TimedRequest opened the exchange, and is refused once the window has expired *)
Example C06_ex_chunked_flag :
  write_chunked 30 4 ex_who (mkCfg ex_node ex_admin) [] None false
    [mkChunk false 0 [ex_it (Some 0) (Some 6) (Some 1)]; mkChunk true 0 [ex_it (Some 0) (Some 6) (Some 2)]]
  = [RespItems [OData 0 6 1 None] [HWrite 0 6 1 1]; RespStatus STimedRequestMisMatch].
Proof. vm_compute. reflexivity. Qed.

Example C06_ex_chunked_expiry :
  write_chunked 30 4 ex_who (mkCfg ex_node ex_admin) [] (Some 150) false
    [mkChunk true 0 [ex_it (Some 0) (Some 6) (Some 2)]; mkChunk true 400 [ex_it (Some 0) (Some 6) (Some 2)];
     mkChunk true 400 [ex_it (Some 0) (Some 6) (Some 1)]]
  = [RespItems [OData 0 6 2 None] [HWrite 0 6 2 1]; RespStatus STimeout].
Proof. vm_compute. reflexivity. Qed.

(** events: event 1 of cluster 6 needs Administer, event 2 is fabric-sensitive; a Manage requester of
    fabric 1 reading everything sees its own and the fabric-less events it may read *)
Definition ex_queue : list qevent :=
  [mkQEvent 0 6 0 None; mkQEvent 0 6 1 None; mkQEvent 0 6 2 (Some 1); mkQEvent 0 6 2 (Some 2);
   mkQEvent 1 6 0 None; mkQEvent 7 6 0 None].

Example C06_ex_events :
  wf_node_events ex_node = true
  /\ read_events ex_manager ex_who ex_node [mkPath None None None; ex_p 0 6 1; ex_p 0 9 0; ex_p 0 6 9] ex_queue
     = RespItems [OStatus (ex_p 0 6 1) None SUnsupportedAccess; OStatus (ex_p 0 9 0) None SUnsupportedCluster;
                  OData 0 6 0 None; OData 0 6 2 (Some 1); OData 1 6 0 None] []
  /\ subscribe_events ex_manager ex_who ex_node [mkPath None None None; ex_p 0 6 9] ex_queue = RespStatus SInvalidAction.
Proof. vm_compute. repeat split. Qed.

(** a group requester (group 7 with member endpoint 1) invoking command 0 of cluster 6 on every endpoint *)
Definition ex_group_fabs : list fabric :=
  [mkFabric 1 [mkEntry 3 AGroup (Some [7]) None (Some 1)] [mkGroup 7 [1] None]].
Definition ex_group_node : node :=
  [mkEndpoint 0 [] [mkCluster 6 [] [mkLeaf 0 46 true] []]; mkEndpoint 1 [] [mkCluster 6 [] [mkLeaf 0 46 true] []]].
Example C06_ex_group :
  im_handle 30 4 (for_session (SGroup 1 7) None false) (mkCfg ex_group_node ex_group_fabs) []
    (mkReqst None 0 Invoke false false [mkItem (mkPath None (Some 6) (Some 0)) None])
  = RespItems [OData 1 6 0 None] [HInvoke 1 6 0 1].
Proof. vm_compute. reflexivity. Qed.
