(** Property C06 - every Interaction Model operation is mediated by the
    access check.  Property theorems only (work in progress). *)
From RsM Require Import Lib.MachInt Model.Acl Model.AclSpec Model.Im Model.ImSpec Proofs.ImTimed.
Open Scope N_scope.

Theorem C06_timed_gate :
  forall (win : option N) (flag : bool) (elapsed : N),
  timed_gate win flag elapsed = gate_spec win flag elapsed.
Proof. exact timed_gate_eq_spec. Qed.
Print Assumptions C06_timed_gate.
