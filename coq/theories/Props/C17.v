(** Property C17 — headers, onboarding payloads and discovery records decode
    what was encoded; decoders are total; malformed codes are refused.
    Property theorems only.  Byte strings are [list N] with all elements
    below 256 ([bytes]); character strings are lists of character codes. *)
From RsM Require Import Lib.MachInt Model.Headers Model.Codecs Model.CodecsSpec
  Model.CodecsCheckin Model.CodecsBdx Model.CodecsBle Model.CodecsMdns Model.CodecsCertExt
  Proofs.HeadersFacts Proofs.CodecsBase38 Proofs.CodecsManual Proofs.CodecsQr
  Proofs.CodecsSpecFacts Proofs.CodecsCheckinFacts Proofs.CodecsBdxFacts
  Proofs.CodecsBleFacts Proofs.CodecsMdnsFacts Proofs.CodecsCertExtFacts.
Open Scope N_scope.

(** * Message header (PlainHdr) *)

Theorem C17_plain_roundtrip : forall (h : plain_hdr) (rest : list N),
  plain_wf h = true -> plain_decode (plain_encode h ++ rest) = Ok (h, rest).
Proof. exact plain_roundtrip. Qed.
Print Assumptions C17_plain_roundtrip.

Theorem C17_plain_canonical : forall (b : list N) (h : plain_hdr) (rest : list N),
  bytes b -> plain_decode b = Ok (h, rest) ->
  b = plain_encode h ++ rest /\ plain_wf h = true /\ bytes rest.
Proof. exact plain_decode_canonical. Qed.
Print Assumptions C17_plain_canonical.

Theorem C17_plain_total : forall (h0 : plain_hdr) (b : list N),
  no_panic (plain_decode_from h0 b).
Proof. exact plain_decode_total. Qed.
Print Assumptions C17_plain_total.

Theorem C17_plain_setters_wf :
  forall (h : plain_hdr) (src : option N) (dstk : N) (dst : option N),
  plain_wf h = true ->
  (match src with Some v => v < two64 | None => True end) ->
  (match dst with Some v => v < (if dstk =? 0 then two64 else two16) | None => True end) ->
  plain_wf ((if dstk =? 0 then plain_set_dst_unicast else plain_set_dst_groupcast)
              (plain_set_src h src) dst) = true.
Proof. exact plain_setters_wf. Qed.
Print Assumptions C17_plain_setters_wf.

Theorem C17_plain_encode_injective : forall (h1 h2 : plain_hdr) (r1 r2 : list N),
  plain_wf h1 = true -> plain_wf h2 = true ->
  plain_encode h1 ++ r1 = plain_encode h2 ++ r2 -> h1 = h2 /\ r1 = r2.
Proof. exact plain_encode_inj. Qed.
Print Assumptions C17_plain_encode_injective.

Theorem C17_plain_encode_shape : forall h : plain_hdr,
  (length (plain_encode h) <= 24)%nat /\ bytes (plain_encode h).
Proof. intro h. split; [apply plain_encode_length|apply plain_encode_bytes]. Qed.
Print Assumptions C17_plain_encode_shape.

(** * Protocol header (ProtoHdr) *)

Theorem C17_proto_roundtrip : forall (h : proto_hdr) (rest : list N),
  proto_wf h = true -> proto_decode (proto_encode h ++ rest) = Ok (h, rest).
Proof. exact proto_roundtrip. Qed.
Print Assumptions C17_proto_roundtrip.

Theorem C17_proto_canonical : forall (b : list N) (h : proto_hdr) (rest : list N),
  bytes b -> proto_decode b = Ok (h, rest) ->
  b = proto_encode h ++ rest /\ proto_wf h = true /\ bytes rest.
Proof. exact proto_decode_canonical. Qed.
Print Assumptions C17_proto_canonical.

Theorem C17_proto_total : forall (h0 : proto_hdr) (b : list N),
  no_panic (proto_decode_from h0 b).
Proof. exact proto_decode_total. Qed.
Print Assumptions C17_proto_total.

Theorem C17_proto_encode_injective : forall (h1 h2 : proto_hdr) (r1 r2 : list N),
  proto_wf h1 = true -> proto_wf h2 = true ->
  proto_encode h1 ++ r1 = proto_encode h2 ++ r2 -> h1 = h2 /\ r1 = r2.
Proof. exact proto_encode_inj. Qed.
Print Assumptions C17_proto_encode_injective.

(** both headers in sequence, as they start every packet *)
Theorem C17_hdrs_roundtrip : forall (p : plain_hdr) (x : proto_hdr) (rest : list N),
  plain_wf p = true -> proto_wf x = true ->
  hdrs_decode (hdrs_encode p x ++ rest) = Ok (p, x, rest).
Proof. exact hdrs_roundtrip. Qed.
Print Assumptions C17_hdrs_roundtrip.

Theorem C17_hdrs_canonical : forall (b : list N) p x rest,
  bytes b -> hdrs_decode b = Ok (p, x, rest) ->
  b = hdrs_encode p x ++ rest /\ plain_wf p = true /\ proto_wf x = true /\ bytes rest.
Proof. exact hdrs_decode_canonical. Qed.
Print Assumptions C17_hdrs_canonical.

Theorem C17_hdrs_total : forall b : list N, no_panic (hdrs_decode b).
Proof. exact hdrs_decode_total. Qed.
Print Assumptions C17_hdrs_total.

(** * Base-38 *)

Theorem C17_b38_roundtrip : forall bs : list N,
  bytes bs -> b38_decode (b38_encode bs) = Ok bs.
Proof. exact b38_roundtrip. Qed.
Print Assumptions C17_b38_roundtrip.

Theorem C17_b38_canonical : forall s bs : list N,
  b38_decode s = Ok bs -> b38_encode bs = s /\ bytes bs.
Proof. exact b38_decode_canonical. Qed.
Print Assumptions C17_b38_canonical.

Theorem C17_b38_total : forall s : list N, no_panic (b38_decode s).
Proof. exact b38_decode_total. Qed.
Print Assumptions C17_b38_total.

Theorem C17_b38_rejects_bad_char : forall (s : list N) (c : N),
  In c s -> ~ In c B38_CHARS -> b38_decode s = Err E_INVDATA.
Proof. exact b38_rejects_bad_char. Qed.
Print Assumptions C17_b38_rejects_bad_char.

Theorem C17_b38_rejects_overrange_chunk : forall (chars : list N) (m : nat) (v : N),
  b38_chunk_bytes (length chars) = Some m -> dec38_val chars = Some v ->
  256 ^ N.of_nat m <= v -> dec38_chunk chars = Err E_INVDATA.
Proof. exact dec38_chunk_overrange. Qed.
Print Assumptions C17_b38_rejects_overrange_chunk.

Theorem C17_b38_rejects_noncanonical : forall s : list N,
  (forall bs, bytes bs -> b38_encode bs <> s) -> b38_decode s = Err E_INVDATA.
Proof. exact b38_rejects_noncanonical. Qed.
Print Assumptions C17_b38_rejects_noncanonical.

Theorem C17_b38_rejects_bad_length : forall s : list N,
  (length s mod 5 = 1 \/ length s mod 5 = 3)%nat -> b38_decode s = Err E_INVDATA.
Proof. exact b38_rejects_bad_length. Qed.
Print Assumptions C17_b38_rejects_bad_length.

(** * Verhoeff check digit: every digit string of every length; the table
    facts are finite (10 x 10 x 10 and 8 x 10 x 10 x 10 cases, by computation) *)

Theorem C17_verhoeff_check_digit_valid : forall ds : list N,
  digits ds -> vh_validate (ds ++ [vh_calc ds]) = true.
Proof. exact vh_validate_calc. Qed.
Print Assumptions C17_verhoeff_check_digit_valid.

Theorem C17_verhoeff_detects_substitution : forall (l1 l2 : list N) (a b : N),
  vh_validate (l1 ++ a :: l2) = true -> a <> b -> vh_validate (l1 ++ b :: l2) = false.
Proof. exact vh_detects_substitution. Qed.
Print Assumptions C17_verhoeff_detects_substitution.

Theorem C17_verhoeff_detects_transposition : forall (l1 l2 : list N) (a b : N),
  vh_validate (l1 ++ a :: b :: l2) = true -> a <> b ->
  vh_validate (l1 ++ b :: a :: l2) = false.
Proof. exact vh_detects_transposition. Qed.
Print Assumptions C17_verhoeff_detects_transposition.

(** * Manual pairing code *)

Theorem C17_manual_roundtrip : forall (passcode disc : N) (code : list N),
  passcode < MAX_PASS -> disc < 4096 ->
  manual_encode passcode disc = Ok code ->
  manual_parse (map digit_char code) = Ok (mkManual false (disc / 256) passcode 0 0).
Proof. exact manual_roundtrip_short. Qed.
Print Assumptions C17_manual_roundtrip.

Theorem C17_manual_encode_no_panic : forall passcode disc : N,
  passcode < MAX_PASS -> disc < 4096 -> exists code, manual_encode passcode disc = Ok code.
Proof. exact manual_encode_ok. Qed.
Print Assumptions C17_manual_encode_no_panic.

Theorem C17_manual_roundtrip_long : forall passcode disc vid pid : N,
  passcode < MAX_PASS -> disc < 4096 -> vid < two16 -> pid < two16 ->
  manual_parse (map digit_char (manual_encode_long passcode disc vid pid)) =
  Ok (mkManual true (disc / 256) passcode vid pid).
Proof. exact manual_roundtrip_long. Qed.
Print Assumptions C17_manual_roundtrip_long.

Theorem C17_manual_total : forall code : list N,
  (exists p, manual_parse code = Ok p) \/ manual_parse code = Err E_INVDATA.
Proof. exact manual_parse_total. Qed.
Print Assumptions C17_manual_total.

Theorem C17_manual_accepts_only_checked_in_range :
  forall (code : list N) (p : manual_payload),
  manual_parse code = Ok p ->
  exists ds, manual_strip code [] = Ok ds /\
    length ds = (if m_long p then 21 else 11)%nat /\
    vh_validate ds = true /\
    m_passcode p < MAX_PASS /\ m_short_disc p < 16 /\
    m_vid p < two16 /\ m_pid p < two16 /\
    dec_val (slice ds 1 5) <= 65535 /\ dec_val (slice ds 6 4) <= 8191 /\
    dec_val (slice ds 0 1) <= 7 /\
    (m_long p = false -> m_vid p = 0 /\ m_pid p = 0).
Proof. exact manual_parse_inv. Qed.
Print Assumptions C17_manual_accepts_only_checked_in_range.

Theorem C17_manual_rejects_bad_check_digit : forall ds : list N,
  digits ds -> (length ds <= 21)%nat -> vh_validate ds = false ->
  manual_parse (map digit_char ds) = Err E_INVDATA.
Proof. exact manual_rejects_bad_check. Qed.
Print Assumptions C17_manual_rejects_bad_check_digit.

Theorem C17_manual_rejects_substitution :
  forall (l1 l2 : list N) (a b : N) (p : manual_payload),
  digits (l1 ++ a :: l2) -> b < 10 -> a <> b ->
  manual_parse (map digit_char (l1 ++ a :: l2)) = Ok p ->
  manual_parse (map digit_char (l1 ++ b :: l2)) = Err E_INVDATA.
Proof. exact manual_rejects_substitution. Qed.
Print Assumptions C17_manual_rejects_substitution.

Theorem C17_manual_rejects_transposition :
  forall (l1 l2 : list N) (a b : N) (p : manual_payload),
  digits (l1 ++ a :: b :: l2) -> a <> b ->
  manual_parse (map digit_char (l1 ++ a :: b :: l2)) = Ok p ->
  manual_parse (map digit_char (l1 ++ b :: a :: l2)) = Err E_INVDATA.
Proof. exact manual_rejects_transposition. Qed.
Print Assumptions C17_manual_rejects_transposition.

(** * QR payload *)

Theorem C17_qr_roundtrip : forall (p : qr_payload) (tail : list N),
  qr_valid p = true -> bytes tail -> qr_decode (qr_encode p tail) = Ok (p, tail).
Proof. exact qr_roundtrip. Qed.
Print Assumptions C17_qr_roundtrip.

Theorem C17_qr_total_in_range : forall s : list N,
  (exists p tail, qr_decode s = Ok (p, tail) /\ qr_valid p = true /\ bytes tail) \/
  qr_decode s = Err E_INVDATA.
Proof. exact qr_decode_total. Qed.
Print Assumptions C17_qr_total_in_range.

(** * StatusReport *)

Theorem C17_status_report_roundtrip : forall r : status_report,
  sr_valid r = true -> sr_decode (sr_encode r) = Ok r.
Proof. exact sr_roundtrip. Qed.
Print Assumptions C17_status_report_roundtrip.

Theorem C17_status_report_canonical : forall (b : list N) (r : status_report),
  bytes b -> sr_decode b = Ok r -> b = sr_encode r /\ sr_valid r = true.
Proof. exact sr_decode_canonical. Qed.
Print Assumptions C17_status_report_canonical.

Theorem C17_status_report_total : forall b : list N, no_panic (sr_decode b).
Proof. exact sr_decode_total. Qed.
Print Assumptions C17_status_report_total.

(** * Check-In message payload (nonce || AEAD(counter || data) || MIC).
    The primitives are symbolic: every theorem holds for all functions that
    satisfy [aead_ideal] (13-byte nonce derivation; ideal AEAD with a 16-byte MIC). *)

Theorem C17_checkin_roundtrip : forall nonce_of aead_enc aead_dec,
  aead_ideal nonce_of aead_enc aead_dec ->
  forall (cap : nat) (counter : N) (app p : list N),
  counter < two32 -> bytes app -> checkin_generate nonce_of aead_enc cap counter app = Ok p ->
  checkin_parse nonce_of aead_dec p = Ok (counter, app).
Proof. exact checkin_roundtrip_i. Qed.
Print Assumptions C17_checkin_roundtrip.

Theorem C17_checkin_generate : forall nonce_of aead_enc aead_dec,
  aead_ideal nonce_of aead_enc aead_dec ->
  forall (cap : nat) (counter : N) (app : list N),
  if Nat.ltb cap (33 + length app)
  then checkin_generate nonce_of aead_enc cap counter app = Err E_BUF
  else exists p, checkin_generate nonce_of aead_enc cap counter app = Ok p /\
                 length p = (33 + length app)%nat.
Proof. exact checkin_generate_i. Qed.
Print Assumptions C17_checkin_generate.

Theorem C17_checkin_canonical : forall nonce_of aead_enc aead_dec,
  aead_ideal nonce_of aead_enc aead_dec ->
  forall (p : list N) (c : N) (a : list N),
  checkin_parse nonce_of aead_dec p = Ok (c, a) ->
  c < two32 /\ bytes a /\ checkin_generate nonce_of aead_enc (length p) c a = Ok p.
Proof. exact checkin_canonical_i. Qed.
Print Assumptions C17_checkin_canonical.

Theorem C17_checkin_total : forall nonce_of aead_enc aead_dec,
  aead_ideal nonce_of aead_enc aead_dec ->
  forall p : list N, no_panic (checkin_parse nonce_of aead_dec p).
Proof. exact checkin_total_i. Qed.
Print Assumptions C17_checkin_total.

(** * BDX message bodies *)

Theorem C17_bdx_init_roundtrip : forall m : bdx_init,
  init_wf m = true -> init_decode (init_encode m) = Ok m.
Proof. exact init_roundtrip. Qed.
Print Assumptions C17_bdx_init_roundtrip.

(** accepted bytes = two flag bytes (reserved bits ignored) then exactly the encoding of the result *)
Theorem C17_bdx_init_accepted : forall (b : list N) (m : bdx_init),
  bytes b -> init_decode b = Ok m ->
  init_wf m = true /\
  exists tcb rcb, b = tcb :: rcb :: skipn 2 (init_encode m) /\
                  tc_of_byte tcb = i_tc m /\ rc_of_byte rcb = i_rc m.
Proof. exact init_decode_inv. Qed.
Print Assumptions C17_bdx_init_accepted.

Theorem C17_bdx_init_total : forall b : list N, no_panic (init_decode b).
Proof. exact init_decode_total. Qed.
Print Assumptions C17_bdx_init_total.

Theorem C17_bdx_accept_roundtrip : forall m : bdx_accept,
  accept_wf m = true -> accept_decode (a_receive m) (accept_encode m) = Ok m.
Proof. exact accept_roundtrip. Qed.
Print Assumptions C17_bdx_accept_roundtrip.

Theorem C17_bdx_accept_accepted : forall (receive : bool) (b : list N) (m : bdx_accept),
  bytes b -> accept_decode receive b = Ok m ->
  accept_wf m = true /\ a_receive m = receive /\
  exists tcb, tc_of_byte tcb = a_tc m /\
    (if receive then exists rcb, rc_of_byte rcb = a_rc m /\
                                 b = tcb :: rcb :: skipn 2 (accept_encode m)
     else b = tcb :: skipn 1 (accept_encode m)).
Proof. exact accept_decode_inv. Qed.
Print Assumptions C17_bdx_accept_accepted.

Theorem C17_bdx_accept_total : forall (receive : bool) (b : list N),
  no_panic (accept_decode receive b).
Proof. exact accept_decode_total. Qed.
Print Assumptions C17_bdx_accept_total.

Theorem C17_bdx_block_roundtrip : forall (ctr : N) (data : list N),
  ctr < two32 -> block_decode (block_encode ctr data) = Ok (ctr, data).
Proof. exact block_roundtrip. Qed.
Print Assumptions C17_bdx_block_roundtrip.

Theorem C17_bdx_block_canonical : forall (b : list N) (ctr : N) (data : list N),
  bytes b -> block_decode b = Ok (ctr, data) ->
  b = block_encode ctr data /\ ctr < two32 /\ bytes data.
Proof. exact block_decode_canonical. Qed.
Print Assumptions C17_bdx_block_canonical.

Theorem C17_bdx_query_roundtrip : forall (ctr : N) (trailing : list N),
  ctr < two32 -> query_decode (query_encode ctr ++ trailing) = Ok ctr.
Proof. exact query_roundtrip. Qed.
Print Assumptions C17_bdx_query_roundtrip.

Theorem C17_bdx_query_accepted : forall (b : list N) (ctr : N),
  bytes b -> query_decode b = Ok ctr -> ctr < two32 /\ firstn 4 b = query_encode ctr.
Proof. exact query_decode_inv. Qed.
Print Assumptions C17_bdx_query_accepted.

Theorem C17_bdx_skip_roundtrip : forall (ctr skip : N) (trailing : list N),
  ctr < two32 -> skip < two64 ->
  skip_decode (skip_encode ctr skip ++ trailing) = Ok (ctr, skip).
Proof. exact skip_roundtrip. Qed.
Print Assumptions C17_bdx_skip_roundtrip.

Theorem C17_bdx_skip_accepted : forall (b : list N) (ctr skip : N),
  bytes b -> skip_decode b = Ok (ctr, skip) ->
  ctr < two32 /\ skip < two64 /\ firstn 12 b = skip_encode ctr skip.
Proof. exact skip_decode_inv. Qed.
Print Assumptions C17_bdx_skip_accepted.

Theorem C17_bdx_small_total : forall b : list N,
  no_panic (block_decode b) /\ no_panic (query_decode b) /\ no_panic (skip_decode b).
Proof.
  intro b. split; [apply block_decode_total|split; [apply query_decode_total|apply skip_decode_total]].
Qed.
Print Assumptions C17_bdx_small_total.

(** * BLE advertisement payloads (the parsers return an option: they have no
    failing slice access left in the model, [ad_find]/[nth] are total) *)

Theorem C17_ble_adv_roundtrip : forall a : adv,
  adv_valid a = true ->
  adv_parse (adv_encode a) = Some a /\ adv_parse_service (adv_payload a) = Some a.
Proof. intros a H. split; [apply adv_roundtrip|apply adv_service_roundtrip]; exact H. Qed.
Print Assumptions C17_ble_adv_roundtrip.

Theorem C17_ble_recovery_roundtrip : forall r : radv,
  radv_valid r = true ->
  radv_parse (radv_encode r) = Some r /\ radv_parse_service (radv_payload r) = Some r.
Proof. intros r H. split; [apply radv_roundtrip|apply radv_service_roundtrip]; exact H. Qed.
Print Assumptions C17_ble_recovery_roundtrip.

Theorem C17_ble_accepted_in_range : forall (advb : list N),
  bytes advb ->
  (forall a, adv_parse advb = Some a -> adv_valid a = true) /\
  (forall r, radv_parse advb = Some r -> radv_valid r = true) /\
  (forall a, adv_parse advb = Some a -> radv_parse advb = None).
Proof.
  intros advb Hb. split; [|split].
  - intros a H. exact (adv_parse_valid _ _ Hb H).
  - intros r H. exact (radv_parse_valid _ _ Hb H).
  - intros a H. exact (adv_radv_disjoint _ _ H).
Qed.
Print Assumptions C17_ble_accepted_in_range.

(** * mDNS TXT records and instance-name labels *)

Theorem C17_mdns_txt_roundtrip : forall kvs : list (list N * list N),
  Forall good_kv kvs -> txt_decode (txt_encode kvs) = kvs.
Proof. exact txt_roundtrip. Qed.
Print Assumptions C17_mdns_txt_roundtrip.

Theorem C17_mdns_number_roundtrip : forall bound v : N,
  v < bound -> bound <= two64 -> parse_uint bound (dec_print v) = Some v.
Proof. exact parse_print. Qed.
Print Assumptions C17_mdns_number_roundtrip.

Theorem C17_mdns_commissionable_record_roundtrip : forall a : comm_adv,
  comm_adv_valid a = true ->
  txt_decode (txt_encode (comm_txt a)) = comm_txt a /\
  txt_scan (comm_txt a) =
    mkTF (Some (ca_disc a)) (Some (ca_vid a)) (Some (ca_pid a)) (ca_dt a)
         (if ca_enhanced a then 2 else 1).
Proof. intros a H. split; [apply comm_txt_roundtrip|apply comm_txt_scan]; exact H. Qed.
Print Assumptions C17_mdns_commissionable_record_roundtrip.

Theorem C17_mdns_own_filter_finds_device : forall a : comm_adv,
  comm_adv_valid a = true ->
  filter_matches (mkCF (Some (ca_disc a)) (Some (ca_disc a / 256)) (Some (ca_vid a))
                       (Some (ca_pid a)) (ca_dt a) true)
                 (txt_scan (txt_decode (txt_encode (comm_txt a)))) = true.
Proof. exact comm_own_filter_matches. Qed.
Print Assumptions C17_mdns_own_filter_finds_device.

Theorem C17_mdns_hex_id_roundtrip : forall v : N,
  v < two64 -> parse_hex_u64 (hex16 v) = Some v.
Proof. exact parse_hex16. Qed.
Print Assumptions C17_mdns_hex_id_roundtrip.

Theorem C17_mdns_instance_labels : forall fabric node id : N,
  fabric < two64 -> node < two64 -> id < two64 ->
  op_label_match fabric node (op_label fabric node) = true /\
  comm_label_match id (comm_label id) = true /\
  (forall f' n', op_label_match f' n' (op_label fabric node) = true -> f' = fabric /\ n' = node) /\
  (forall id', comm_label_match id' (comm_label id) = true -> id' = id).
Proof.
  intros f n i Hf Hn Hi. split; [apply op_label_roundtrip; assumption|].
  split; [apply comm_label_roundtrip; assumption|]. split.
  - intros f' n'. apply op_label_exact; assumption.
  - intro id'. apply comm_label_exact; assumption.
Qed.
Print Assumptions C17_mdns_instance_labels.

(** * X.509 extension values of a converted Matter certificate *)

Theorem C17_cert_eku_roundtrip : forall ids : list N,
  eku_legal ids -> eku_read (eku_value ids) = Some ids.
Proof. exact eku_roundtrip. Qed.
Print Assumptions C17_cert_eku_roundtrip.

Theorem C17_cert_eku_injective : forall a b : list N,
  eku_legal a -> eku_legal b -> eku_value a = eku_value b -> a = b.
Proof. exact eku_value_injective. Qed.
Print Assumptions C17_cert_eku_injective.

(** all nine key-usage bits in every combination: 512 values, enumerated *)
Theorem C17_cert_key_usage_roundtrip : forall k : N,
  k < 512 -> ku_read (ku_value k) = Some k.
Proof. exact ku_roundtrip. Qed.
Print Assumptions C17_cert_key_usage_roundtrip.

Theorem C17_cert_basic_constraints_roundtrip : forall (ca : bool) (path : option N),
  bc_read (bc_value ca path) = Some (ca, path).
Proof. exact bc_roundtrip. Qed.
Print Assumptions C17_cert_basic_constraints_roundtrip.

Theorem C17_monitor_certext : forall (ku : N) (ids : list N) (ca : bool) (path : option N),
  mon_certext ku ids ca path (ku_value ku) (eku_value ids) (bc_value ca path) = true.
Proof. exact mon_certext_model. Qed.
Print Assumptions C17_monitor_certext.

(** * The monitors run on the implementation are implied by the theorems:
    the model's own answers always satisfy them *)

Theorem C17_monitor_plain_dec : forall b : list N,
  bytes b -> mon_plain_dec b (consumed b (plain_decode b)) = true.
Proof. exact mon_plain_dec_model. Qed.
Print Assumptions C17_monitor_plain_dec.

Theorem C17_monitor_proto_dec : forall b : list N,
  bytes b -> mon_proto_dec b (consumed b (proto_decode b)) = true.
Proof. exact mon_proto_dec_model. Qed.
Print Assumptions C17_monitor_proto_dec.

Theorem C17_monitor_b38_dec : forall s : list N, mon_b38_dec s (b38_decode s) = true.
Proof. exact mon_b38_dec_model. Qed.
Print Assumptions C17_monitor_b38_dec.

Theorem C17_monitor_manual_dec : forall code : list N,
  mon_manual_dec code (manual_parse code) = true.
Proof. exact mon_manual_dec_model. Qed.
Print Assumptions C17_monitor_manual_dec.

Theorem C17_monitor_qr_dec : forall s : list N, mon_qr_dec s (qr_decode s) = true.
Proof. exact mon_qr_dec_model. Qed.
Print Assumptions C17_monitor_qr_dec.

Theorem C17_monitor_checkin_dec : forall nonce_of aead_enc aead_dec,
  aead_ideal nonce_of aead_enc aead_dec ->
  forall p : list N, mon_checkin_dec nonce_of p (checkin_parse nonce_of aead_dec p) = true.
Proof. exact mon_checkin_dec_i. Qed.
Print Assumptions C17_monitor_checkin_dec.

Theorem C17_monitor_bdx_dec : forall (receive : bool) (b : list N),
  bytes b ->
  mon_init_dec b (init_decode b) = true /\
  mon_accept_dec receive b (accept_decode receive b) = true.
Proof. intros r b H. split; [apply mon_init_dec_model|apply mon_accept_dec_model]; exact H. Qed.
Print Assumptions C17_monitor_bdx_dec.

Theorem C17_monitor_ble_dec : forall advb : list N,
  bytes advb -> mon_adv_dec (adv_parse advb) (radv_parse advb) = true.
Proof. exact mon_adv_dec_model. Qed.
Print Assumptions C17_monitor_ble_dec.

(** * Non-vacuity *)

Example C17_ex_plain :
  let h := plain_set_dst_unicast (plain_set_src
             (mkPlain 0 4660 64 305419896 0 0) (Some 81985529216486895)) (Some 1311768467463790320) in
  plain_wf h = true /\
  plain_encode h = [5; 52; 18; 64; 120; 86; 52; 18;
                    239; 205; 171; 137; 103; 69; 35; 1; 240; 222; 188; 154; 120; 86; 52; 18] /\
  plain_decode (plain_encode h ++ [1; 2]) = Ok (h, [1; 2]).
Proof. vm_compute. repeat split; reflexivity. Qed.

Example C17_ex_b38 :
  b38_encode [136; 255; 167; 145; 80; 64; 0; 71; 81; 221; 2] =
  [45; 77; 79; 65; 53; 55; 90; 85; 48; 50; 73; 84; 50; 76; 50; 66; 74; 48; 48] /\
  b38_decode [90; 90; 90; 90; 90] = Err E_INVDATA /\
  b38_decode [48; 48; 33; 48; 48] = Err E_INVDATA.
Proof. vm_compute. repeat split; reflexivity. Qed.

(** "34970112332" is the well known code of discriminator 3840, passcode 20202021 *)
Example C17_ex_manual :
  manual_encode 20202021 3840 = Ok [3; 4; 9; 7; 0; 1; 1; 2; 3; 3; 2] /\
  manual_parse (map digit_char [3; 4; 9; 7; 0; 1; 1; 2; 3; 3; 2]) =
    Ok (mkManual false 15 20202021 0 0) /\
  manual_parse (map digit_char [3; 4; 9; 7; 0; 1; 1; 2; 3; 3; 3]) = Err E_INVDATA.
Proof. vm_compute. repeat split; reflexivity. Qed.

(** "MT:YNJV7VSC00CMVH7SR00" (vector of the repository's own test) *)
Example C17_ex_qr :
  qr_encode (mkQr 0 9050 65279 0 2 2976 34567890) [] =
    [77; 84; 58; 89; 78; 74; 86; 55; 86; 83; 67; 48; 48; 67; 77; 86; 72; 55; 83; 82; 48; 48] /\
  qr_valid (mkQr 0 9050 65279 0 2 2976 34567890) = true.
Proof. vm_compute. split; reflexivity. Qed.

(** the advertisement of discriminator 0xF00, VID 0xFFF1, PID 0x8000 *)
Example C17_ex_ble :
  adv_encode (mkAdv 65521 32768 3840 false) =
    [2; 1; 6; 11; 22; 246; 255; 0; 0; 15; 241; 255; 0; 128; 0] /\
  adv_parse [2; 1; 6; 11; 22; 246; 255; 0; 0; 15; 241; 255; 0; 128; 0] =
    Some (mkAdv 65521 32768 3840 false).
Proof. vm_compute. split; reflexivity. Qed.

(** "D=3840", "CM=1", "VP=65521+32769" published and read back; SendInit with a 64-bit length *)
Example C17_ex_mdns_bdx :
  txt_scan (txt_decode (txt_encode
    (comm_txt (mkCA 3840 false 65521 32769 None None [] [] 33 None false None)))) =
    mkTF (Some 3840) (Some 65521) (Some 32769) None 1 /\
  init_wf (mkInit (mkTc 0 true false false) (mkRc true false true) 1024 0 4294967296 [102] []) = true /\
  init_encode (mkInit (mkTc 0 true false false) (mkRc true false true) 1024 0 4294967296 [102] []) =
    [16; 17; 0; 4; 0; 0; 0; 0; 1; 0; 0; 0; 1; 0; 102].
Proof. vm_compute. repeat split; reflexivity. Qed.

(** the assumptions on the symbolic AEAD are satisfiable (a toy scheme), so the
    check-in theorems are not vacuous *)
Example C17_ex_aead_ideal : aead_ideal (fun c => le_bytes 13 c) toy_enc toy_dec.
Proof. exact toy_aead_ideal. Qed.

(** key purposes 1 and 6 (serverAuth, OCSPSigning): the value ends in the arcs 1 and 9 *)
Example C17_ex_eku :
  eku_value [1; 6] = [48; 20; 6; 8; 43; 6; 1; 5; 5; 7; 3; 1; 6; 8; 43; 6; 1; 5; 5; 7; 3; 9] /\
  ku_value 97 = [3; 2; 1; 134] /\ bc_value true (Some 1) = [48; 6; 1; 1; 255; 2; 1; 1].
Proof. vm_compute. repeat split; reflexivity. Qed.
