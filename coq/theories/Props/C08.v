(** Property C08 - commissioning under the fail-safe is all-or-nothing.
    Property theorems only.

    Model: Model/Failsafe.v (failsafe.rs, gen_comm.rs, noc.rs, acl.rs, net_comm.rs, adm_comm.rs,
    fabric.rs, persist.rs transcribed; with the repair "persist before disarm").
    Vocabulary: Model/FailsafeSpec.v ([Inv], [safe_run], [nothing_stored], [may_store],
    [rollback_op], [needs_ctx], [spec_step], [spec_words], [track_run]).

    Two classes are outside the theorems and are known findings (witnesses at the end):
    - partial commit: the SECOND store of CommissioningComplete fails ([OComplete _ 2]) or power
      is lost between its two stores ([OCompleteCut _ 1]);
    - context switch: AddNOC on a CASE session whose fabric has staged changes ([orphaning]);
    - VID statement: SetVIDVerificationStatement with no NOC command pending stores the whole
      fabric, staged changes included (it is one of the operations with [may_store] = true, so
      the theorems below are true of it; [C08_vid_statement_witness] shows the violation).
    Failing IMMEDIATE stores (ACL writes outside the fail-safe, [good_op]) are another
    property's subject (C11). *)
From Coq Require Import NArith List Bool.
From RsM Require Import Model.Failsafe Model.FailsafeSpec
  Proofs.FailsafeFacts Proofs.FailsafeInv Proofs.FailsafeTheorems Proofs.FailsafeOrder
  Proofs.FailsafeWitness.
Import ListNotations.
Open Scope N_scope.

(** ** The invariant holds initially and is kept by every operation *)
Theorem C08_invariant :
  (forall w n f p, Inv (init_state w n f p)) /\
  (forall st o, Inv st -> good_op o -> orphaning st o = false -> Inv (fst (step st o))).
Proof. exact (conj init_inv step_inv). Qed.
Print Assumptions C08_invariant.

(** ** Rollback is exact.  From any state [st0] with RAM = load(KV) and no fail-safe, after
    ArmFailSafe and ANY sequence of operations during which nothing reached the store, each of
    timer expiry / ArmFailSafe(0) / RevokeCommissioning / restart leaves the fabrics (with their
    ACLs), the networks, the breadcrumb and the store exactly as they were in [st0]. *)
Theorem C08_rollback_exact :
  forall st0 s t bc ops r,
  Inv st0 -> s_fs st0 = Idle -> t <> 0 ->
  snd (step st0 (OArm s t bc)) = StOk ->
  let st1 := fst (step st0 (OArm s t bc)) in
  safe_run st1 ops -> nothing_stored st1 ops ->
  let st := exec st1 ops in
  rollback_op r -> snd (step st r) = StOk ->
  let st' := fst (step st r) in
  cfg_eq (s_fabs st') (s_fabs st0) /\ s_nets st' = s_nets st0 /\ s_bc st' = s_bc st0 /\
  s_kv st' = s_kv st0 /\ s_fs st' = Idle.
Proof. exact rollback_exact. Qed.
Print Assumptions C08_rollback_exact.

(** The same with the excluded classes spelled out ([in_scope]): from any [st0] with RAM = load(KV),
    after ArmFailSafe and ANY sequence of operations none of which is a failing immediate store
    ([good_op]), an orphaning context switch ([orphaning]), a VID-statement leak ([vid_leak]), a
    CommissioningComplete, or a write from outside the fail-safe's context ([outside_write]) -
    every way of ending the commissioning restores fabrics (ACLs, labels, vendor ids, NOCs),
    networks, breadcrumb and the stored blobs exactly. *)
Theorem C08_rollback_exact_outside_classes :
  forall st0 s t bc ops r,
  Inv st0 -> s_fs st0 = Idle -> t <> 0 ->
  snd (step st0 (OArm s t bc)) = StOk ->
  let st1 := fst (step st0 (OArm s t bc)) in
  in_scope st1 ops ->
  let st := exec st1 ops in
  rollback_op r -> snd (step st r) = StOk ->
  let st' := fst (step st r) in
  cfg_eq (s_fabs st') (s_fabs st0) /\ s_nets st' = s_nets st0 /\ s_bc st' = s_bc st0 /\
  s_kv st' = s_kv st0 /\ s_fs st' = Idle.
Proof. exact rollback_exact_outside_classes. Qed.
Print Assumptions C08_rollback_exact_outside_classes.

(** ... and these are all the ways to reach the store. *)
Theorem C08_store_writers :
  forall st o, may_store st o = is_complete o || outside_write st o || vid_leak st o.
Proof. exact may_store_split. Qed.
Print Assumptions C08_store_writers.

(** Which operations can reach the store at all: only CommissioningComplete, ACL / label writes on a
    fabric the fail-safe is not armed for, and a VID statement while no AddNOC / UpdateNOC of the
    context is pending for its fabric.  Everything else - all credential commands, network writes,
    ACL and label writes of the fail-safe's fabric - is staged in RAM. *)
Theorem C08_store_frozen_under_failsafe :
  forall st o, may_store st o = false -> s_kv (fst (step st o)) = s_kv st.
Proof. exact store_frozen. Qed.
Print Assumptions C08_store_frozen_under_failsafe.

(** In every reachable state, every way of ending the commissioning leaves RAM = load(KV)
    (nothing half-undone) and does not write the store. *)
Theorem C08_rollback_to_durable :
  forall st r,
  Inv st -> rollback_op r -> snd (step st r) = StOk ->
  let st' := fst (step st r) in
  s_fs st' = Idle /\ s_bc st' = 0 /\ ram_synced st' /\ s_kv st' = s_kv st.
Proof. exact rollback_durable. Qed.
Print Assumptions C08_rollback_to_durable.

(** A rollback that removes the fabric of the fail-safe context (nothing stored to reload) removes
    the fabric and leaves no usable CASE session on its index - whoever triggered the rollback. *)
Theorem C08_rollback_drops_sessions :
  forall st c f fl,
  s_fs st = Armed f fl -> f <> 0 -> fget f (k_fabs (s_kv st)) = None ->
  sess_ctx (expire st c) (SC f) = None /\ fget f (s_fabs (expire st c)) = None.
Proof. exact rollback_drops_case_session. Qed.
Print Assumptions C08_rollback_drops_sessions.

(** ** Commit is atomic.  CommissioningComplete, with no store failing or the FIRST store failing,
    either answers OK with everything staged now durable (RAM = load(KV), fabrics and networks as
    staged), or answers an error and has changed nothing at all (the fail-safe stays armed). *)
Theorem C08_commit_atomic :
  forall st s fault,
  Inv st -> fault <> 2 ->
  let st' := fst (step st (OComplete s fault)) in
  let r := snd (step st (OComplete s fault)) in
  (r = StOk /\ s_fs st' = Idle /\ s_bc st' = 0 /\ ram_synced st' /\
   s_fabs st' = s_fabs st /\ n_ids (s_nets st') = n_ids (s_nets st)) \/
  (r <> StOk /\ st' = st).
Proof. exact commit_atomic. Qed.
Print Assumptions C08_commit_atomic.

(** After CommissioningComplete answered OK, a later expiry / forced expiry / revoke / restart
    changes nothing. *)
Theorem C08_committed_is_final :
  forall st s fault r,
  Inv st -> snd (step st (OComplete s fault)) = StOk ->
  let st' := fst (step st (OComplete s fault)) in
  rollback_op r -> snd (step st' r) = StOk ->
  let st'' := fst (step st' r) in
  cfg_eq (s_fabs st'') (s_fabs st') /\ s_nets st'' = s_nets st' /\ s_kv st'' = s_kv st' /\
  s_fs st'' = Idle.
Proof. exact committed_is_final. Qed.
Print Assumptions C08_committed_is_final.

(** Power loss inside CommissioningComplete, anywhere but between its two stores: the node
    restarts either from the store as it was (all undone) or from the store of a completed
    CommissioningComplete (all committed). *)
Theorem C08_power_loss_atomic :
  forall st s j,
  Inv st -> j <> 1 ->
  let st' := fst (step st (OCompleteCut s j)) in
  st' = fst (step st ORestart) \/
  (snd (step st (OComplete s 0)) = StOk /\
   st' = fst (step (fst (step st (OComplete s 0))) ORestart)).
Proof. exact cut_atomic. Qed.
Print Assumptions C08_power_loss_atomic.

(** ** Context.  A command that needs the fail-safe (CSRRequest, AddTrustedRootCertificate, AddNOC,
    UpdateNOC, network writes, CommissioningComplete, re-arming) from a usable session whose fabric
    index differs from the fail-safe context's is refused and changes nothing; with no fail-safe
    armed they are all refused and change nothing. *)
Theorem C08_context :
  forall st o s sfab p f fl,
  needs_ctx o = true -> sess_of o = Some s ->
  sess_ctx st s = Some (sfab, p) -> s_fs st = Armed f fl -> f <> sfab ->
  snd (step st o) <> StOk /\ fst (step st o) = st.
Proof. exact context_refused. Qed.
Print Assumptions C08_context.

Theorem C08_no_failsafe :
  forall st o,
  needs_ctx o = true -> s_fs st = Idle ->
  match o with OArm _ _ _ => True | _ => snd (step st o) <> StOk /\ fst (step st o) = st end.
Proof. exact no_failsafe_refused. Qed.
Print Assumptions C08_no_failsafe.

(** ** Order.  An accepted credential command is a step of the spec automaton from the flags of the
    fail-safe context, and sets exactly its flag. *)
Theorem C08_order_sound :
  forall st o c,
  cred_of o = Some c -> snd (step st o) = StOk ->
  exists f fl f' fl',
    s_fs st = Armed f fl /\ spec_step fl c = Some fl' /\ s_fs (fst (step st o)) = Armed f' fl'.
Proof. exact order_sound. Qed.
Print Assumptions C08_order_sound.

(** Conversely a step of the automaton, from the fail-safe's own context and an authorised session,
    is accepted (up to [side_conditions], which are not about order). *)
Theorem C08_order_complete :
  forall st o c s sfab p fl fl',
  cred_of o = Some c -> sess_of o = Some s ->
  sess_ctx st s = Some (sfab, p) -> allowed st sfab p = true ->
  s_fs st = Armed sfab fl -> spec_step fl c = Some fl' ->
  side_conditions st c sfab p ->
  snd (step st o) = StOk.
Proof. exact order_complete. Qed.
Print Assumptions C08_order_complete.

(** The record of accepted credential commands changes only by an accepted credential command: any
    other operation (re-arming included) leaves the flags alone, ends the fail-safe period, or
    starts a new one with no flag. *)
Theorem C08_flags_only_by_credential_commands :
  forall st o,
  cred_of o = None ->
  match s_fs (fst (step st o)) with
  | Idle => True
  | Armed _ fl' =>
    match s_fs st with
    | Idle => fl' = fl_empty
    | Armed _ fl => fl' = fl
    end
  end.
Proof. exact flags_other. Qed.
Print Assumptions C08_flags_only_by_credential_commands.

(** The automaton's language is finite and written out in [spec_words]: CSR(add) and root in either
    order then AddNOC; CSR(update) then UpdateNOC (a root only where it cannot be used); each
    command at most once. *)
Theorem C08_order_language :
  (forall w, spec_accepts w = true <-> In w spec_words) /\
  (forall f c f', spec_step f c = Some f' -> spec_step f' c = None).
Proof. exact (conj spec_language spec_once). Qed.
Print Assumptions C08_order_language.

(** Along every run (outside the two classes) the credential commands accepted since the fail-safe
    was armed form one of those words, and the flags are the automaton's state after it. *)
Theorem C08_order_runs :
  forall ops st w,
  Inv st -> safe_run st ops -> tracked st w ->
  tracked (fst (track_run st w ops)) (snd (track_run st w ops)) /\
  In (snd (track_run st w ops)) spec_words.
Proof. exact period_word_in_language. Qed.
Print Assumptions C08_order_runs.

(** ** The known classes are inhabited and do violate the property *)
Theorem C08_partial_commit_witness :
  let staged := exec w_init (OArm SP 60 5 :: w_staging) in
  (let st := exec staged [OComplete (SC 2) 2; OTimeout] in
   s_fs st = Idle /\
   fget 2 (s_fabs st) = fget 2 (s_fabs staged) /\ fget 2 (s_fabs st) <> None /\
   fget 2 (k_fabs (s_kv st)) = fget 2 (s_fabs staged) /\
   s_nets st = s_nets w_init /\ s_nets staged <> s_nets w_init /\
   fget 2 (s_fabs w_init) = None) /\
  (let st := exec staged [OCompleteCut (SC 2) 1] in
   s_fs st = Idle /\
   fget 2 (s_fabs st) = fget 2 (s_fabs staged) /\ fget 2 (s_fabs st) <> None /\
   s_nets st = s_nets w_init /\ s_nets staged <> s_nets w_init /\
   fget 2 (s_fabs w_init) = None).
Proof. exact (conj partial_commit_store_failure partial_commit_power_loss). Qed.
Print Assumptions C08_partial_commit_witness.

Theorem C08_context_switch_witness :
  (let st := exec w_init2 (w_switch ++ [OTimeout]) in
   s_fs st = Idle /\ fget 2 (s_fabs st) = None /\
   fget 1 (s_fabs st) <> fget 1 (k_fabs (s_kv st)) /\
   fget 1 (k_fabs (s_kv st)) = fget 1 (s_fabs w_init2)) /\
  ~ safe_run w_init2 w_switch.
Proof. exact (conj context_switch_orphans_staged_change context_switch_not_safe). Qed.
Print Assumptions C08_context_switch_witness.

Theorem C08_vid_statement_witness :
  let st := exec w_init2 w_vid in
  s_fs st = Idle /\
  option_map f_acl (fget 1 (s_fabs st)) = Some [ADMIN; 5] /\
  option_map f_acl (fget 1 (k_fabs (s_kv st))) = Some [ADMIN; 5] /\
  option_map f_acl (fget 1 (s_fabs w_init2)) = Some [ADMIN] /\
  safe_run w_init2 w_vid /\ ~ nothing_stored w_init2 w_vid /\
  vid_leak (exec w_init2 [OArm (SC 1) 60 5; OAclW (SC 1) 5 false]) (OVid (SC 1) 65522 false) = true.
Proof. exact vid_statement_stores_staged_change. Qed.
Print Assumptions C08_vid_statement_witness.

(** ** Non-vacuity: the hypotheses hold on the two commissioning flows, which do change things *)
Example C08_pase_flow_meets_hypotheses :
  snd (step w_init (OArm SP 60 5)) = StOk /\
  safe_run (fst (step w_init (OArm SP 60 5))) w_staging /\
  nothing_stored (fst (step w_init (OArm SP 60 5))) w_staging.
Proof. exact staging_is_safe. Qed.

Example C08_pase_flow_changes_state :
  let st := exec w_init (OArm SP 60 5 :: w_staging) in
  fget 2 (s_fabs st) <> None /\ s_nets st <> s_nets w_init /\ s_bc st = 6 /\
  s_fs st = Armed 2 (mkFlags true false true true false).
Proof. exact staging_changes_things. Qed.

Example C08_update_flow_meets_hypotheses :
  snd (step w_init2 (OArm (SC 1) 60 5)) = StOk /\
  safe_run (fst (step w_init2 (OArm (SC 1) 60 5))) w_update /\
  nothing_stored (fst (step w_init2 (OArm (SC 1) 60 5))) w_update /\
  fget 1 (s_fabs (exec w_init2 (OArm (SC 1) 60 5 :: w_update))) <> fget 1 (s_fabs w_init2).
Proof. exact update_flow_is_safe. Qed.

Example C08_label_staged_and_rolled_back :
  let ops := [OAclW (SC 1) 5 false; OLabel (SC 1) 3 false] in
  let st1 := fst (step w_init2 (OArm (SC 1) 60 5)) in
  safe_run st1 ops /\ nothing_stored st1 ops /\
  option_map f_label (fget 1 (s_fabs (exec st1 ops))) = Some 3 /\
  fget 1 (s_fabs (exec st1 (ops ++ [OTimeout]))) = fget 1 (s_fabs w_init2).
Proof. exact label_is_staged_and_rolled_back. Qed.

Example C08_commit_happens :
  snd (step (exec w_init (OArm SP 60 5 :: w_staging)) (OComplete (SC 2) 0)) = StOk.
Proof. exact commit_happens. Qed.
