(** Property C19 — a certificate chain is accepted exactly when it is
    valid under the Matter rules.  Property theorems only.

    Model: Model/Cert.v (the verifier loop of cert.rs and its three
    callers, over abstract certificates, ECDSA ideal).  Predicate of the
    property: Model/CertSpec.v ([chain_valid] = every rule of the
    sentence holds on every link of the chain). *)
From RsM Require Import Lib.MachInt Model.Cert Model.CertSpec
  Proofs.CertFacts Proofs.CertTheorems Proofs.CertWitness.
Open Scope N_scope.

(** The verifier accepts a chain (leaf first, root last; any number of
    intermediates; also a root on its own) iff every rule holds.  The
    bound is the u8 depth counter of the implementation. *)
Theorem C19_accept_iff_valid : forall (t : clock) (cs : list cert),
  N.of_nat (length cs) <= 256 ->
  (verify_chain t cs = Ok tt <-> chain_valid t cs).
Proof. exact accept_iff_valid. Qed.
Print Assumptions C19_accept_iff_valid.

(** [chain_valid] read back in plain terms: the chain is not empty and
    every link (certificate, next certificate up; root with itself)
    satisfies the meaning of every rule. *)
Theorem C19_valid_means : forall (t : clock) (cs : list cert),
  chain_valid t cs <->
  (cs <> [] /\ forall r l, In l (links cs) -> rule_meaning t r l).
Proof. exact chain_valid_meaning. Qed.
Print Assumptions C19_valid_means.

(** The executable predicate (the monitor run on the implementation's
    decisions) is the predicate, and the model computes it. *)
Theorem C19_monitor_is_spec : forall (t : clock) (cs : list cert),
  chain_validb t cs = true <-> chain_valid t cs.
Proof. exact chain_validb_iff. Qed.
Print Assumptions C19_monitor_is_spec.

Theorem C19_verifier_computes_spec : forall (t : clock) (cs : list cert),
  N.of_nat (length cs) <= 256 ->
  (match verify_chain t cs with Ok _ => true | _ => false end) = chain_validb t cs.
Proof. exact verifier_computes_spec. Qed.
Print Assumptions C19_verifier_computes_spec.

(** Every rule is enforced on its own: for each rule there are two
    chains of the same shape, one accepted, the other rejected, and on
    the rejected one that rule is the ONLY one that fails. *)
Theorem C19_each_rule_enforced : forall r : rule,
  exists (t : clock) (good bad : list cert),
    length good = length bad /\
    verify_chain t good = Ok tt /\
    verify_chain t bad <> Ok tt /\
    rule_holds t r bad = false /\
    (forall r', r' <> r -> rule_holds t r' bad = true).
Proof. exact each_rule_enforced. Qed.
Print Assumptions C19_each_rule_enforced.

(** CASE: a peer is admitted with node id [n] iff its chain is valid up
    to the addressed fabric's root, the leaf (and the intermediate when
    it names a fabric) carries that fabric's id, and [n] is the leaf's
    node id; a valid chain always yields a node id. *)
Theorem C19_case_admits_iff_valid : forall t fid root noc icac n,
  case_admit t fid root noc icac = Ok n <->
  (case_valid t fid root noc icac /\ get_node_id noc = Some n).
Proof. exact case_admit_iff. Qed.
Print Assumptions C19_case_admits_iff_valid.

Theorem C19_case_valid_admitted : forall t fid root noc icac,
  case_valid t fid root noc icac -> exists n, case_admit t fid root noc icac = Ok n.
Proof. exact case_admit_total. Qed.
Print Assumptions C19_case_valid_admitted.

(** Installing credentials adds exactly: intermediate is a separate
    certificate, leaf key = the key generated for this request, the
    leaf names a fabric, and (AddNOC) that fabric does not exist yet
    under this root and the admin subject is usable / (UpdateNOC) it is
    the fabric being updated. *)
Theorem C19_install_checks : forall t fabrics csr admin fabric_id root noc icac,
  ((exists out, add_noc t fabrics csr admin root noc icac = Ok out) <->
   (chain_valid t (noc :: opt_list icac ++ [root]) /\ icac_separate icac = true /\
    pubkey noc = csr /\
    (exists fid, get_fabric_id noc = Some fid /\ fabric_exists fabrics fid (pubkey root) = false) /\
    (is_node admin = true \/ is_noc_cat admin = true))) /\
  ((exists out, update_noc t fabric_id csr root noc icac = Ok out) <->
   (chain_valid t (noc :: opt_list icac ++ [root]) /\ icac_separate icac = true /\
    pubkey noc = csr /\ get_fabric_id noc = Some fabric_id)).
Proof. exact install_checks. Qed.
Print Assumptions C19_install_checks.

(** What gets installed is what the leaf says. *)
Theorem C19_add_noc_installs : forall t fabrics csr admin root noc icac fid nid rk,
  add_noc t fabrics csr admin root noc icac = Ok (fid, nid, rk) <->
  (add_noc_valid t fabrics csr admin root noc icac fid nid /\ rk = pubkey root).
Proof. exact add_noc_iff. Qed.
Print Assumptions C19_add_noc_installs.

(** After the chain has been validated, the node-id extraction that
    [Fabrics::add] / [Fabrics::update] perform AFTER overwriting the
    fabric record cannot fail (no half-updated fabric from this path). *)
Theorem C19_install_no_late_node_id_failure :
  forall t fabrics csr admin fabric_id root noc icac,
  add_noc t fabrics csr admin root noc icac <> Err E_NONODE /\
  update_noc t fabric_id csr root noc icac <> Err E_NONODE.
Proof. exact install_no_late_node_id_failure. Qed.
Print Assumptions C19_install_no_late_node_id_failure.

(** Presenting the trusted root once more as "intermediate" admits
    nothing that is not admitted without it. *)
Theorem C19_repeated_root_admits_nothing_new : forall t fid root noc n,
  case_admit t fid root noc (Some root) = Ok n ->
  case_admit t fid root noc None = Ok n.
Proof. exact repeated_root_admits_nothing_new. Qed.
Print Assumptions C19_repeated_root_admits_nothing_new.

(** A trusted root on its own. *)
Theorem C19_root_accepted_iff : forall t root,
  add_root t root = Ok tt <-> root_validb t root = true.
Proof. exact add_root_iff. Qed.
Print Assumptions C19_root_accepted_iff.

(** The wrapper monitors are the wrapper predicates. *)
Theorem C19_case_monitor : forall t fid root noc icac,
  case_validb t fid root noc icac = true <-> case_valid t fid root noc icac.
Proof. exact case_validb_iff. Qed.
Print Assumptions C19_case_monitor.

Theorem C19_add_noc_monitor : forall t fabrics csr admin root noc icac,
  add_noc_validb t fabrics csr admin root noc icac = true <->
  exists out, add_noc t fabrics csr admin root noc icac = Ok out.
Proof. exact add_noc_validb_iff. Qed.
Print Assumptions C19_add_noc_monitor.

Theorem C19_update_noc_monitor : forall t fabric_id csr root noc icac,
  update_noc_validb t fabric_id csr root noc icac = true <->
  exists out, update_noc t fabric_id csr root noc icac = Ok out.
Proof. exact update_noc_validb_iff. Qed.
Print Assumptions C19_update_noc_monitor.

(** Non-vacuity: valid chains exist (with and without intermediate), the
    wrappers accept them, and each wrapper rule rejects on its own. *)
Example C19_ex_valid3 : chain_valid w_time w_good /\ verify_chain w_time w_good = Ok tt.
Proof. split; [apply chain_validb_iff|]; vm_compute; reflexivity. Qed.

Example C19_ex_valid2 : chain_valid w_time w_good2 /\ verify_chain w_time w_good2 = Ok tt.
Proof. split; [apply chain_validb_iff|]; vm_compute; reflexivity. Qed.

Example C19_ex_root_alone : add_root w_time w_root = Ok tt.
Proof. vm_compute. reflexivity. Qed.

Example C19_ex_last_known_time_ignores_not_before :
  verify_chain (LastKnown 5000000) w_good = Ok tt /\
  verify_chain (Reliable 5000000) w_good = Err E_TIME.
Proof. vm_compute. split; reflexivity. Qed.

(** The root repeated as "intermediate" ([noc issued by the root; root; root]):
    every certificate is signed by the next one, names and key ids link
    (the root is self-issued), both authorities are CA certificates, so
    the chain is valid exactly when the root's pathLen admits one
    intermediate.  CASE follows the rule; AddNOC / UpdateNOC additionally
    refuse a self-issued intermediate. *)
Example C19_ex_root_repeated_as_intermediate :
  chain_validb w_time [w_noc_direct; w_root; w_root] = true /\
  case_admit w_time 9 w_root w_noc_direct (Some w_root) = Ok 5 /\
  (let r0 := set_bc w_root (Some (true, Some 0)) in
   rule_holds w_time RAuthPathLen [w_noc_direct; r0; r0] = false /\
   case_admit w_time 9 r0 w_noc_direct None = Ok 5 /\
   case_admit w_time 9 r0 w_noc_direct (Some r0) = Err E_DATA) /\
  add_noc w_time [] 3 112233 w_root w_noc_direct (Some w_root) = Err E_NOC_INVALID /\
  update_noc w_time 9 3 w_root w_noc_direct (Some w_root) = Err E_NOC_INVALID.
Proof. vm_compute. repeat split; reflexivity. Qed.

Example C19_ex_wrappers :
  case_admit w_time 9 w_root w_noc (Some w_icac) = Ok 5 /\
  case_admit w_time 8 w_root w_noc (Some w_icac) = Err E_INVALID /\
  add_noc w_time [(9, 7); (8, 1)] 3 112233 w_root w_noc (Some w_icac) = Ok (9, 5, 1) /\
  add_noc w_time [(9, 7); (8, 1)] 4 112233 w_root w_noc (Some w_icac) = Err E_NOC_PUBKEY /\
  add_noc w_time [(9, 7); (9, 1)] 3 112233 w_root w_noc (Some w_icac) = Err E_NOC_CONFLICT /\
  add_noc w_time [] 3 112233 w_root w_noc_direct (Some w_root) = Err E_NOC_INVALID /\
  update_noc w_time 9 3 w_root w_noc (Some w_icac) = Ok (9, 5) /\
  update_noc w_time 8 3 w_root w_noc (Some w_icac) = Err E_NOC_CONFLICT.
Proof. vm_compute. repeat split; reflexivity. Qed.
