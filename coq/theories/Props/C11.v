(** Property C11 - persisted state survives a crash at any point and reloads to
    what was committed.  Property theorems only.

    A history is any list of administrative operations ([op]) from any state
    satisfying the invariant [Inv] ("the store holds exactly the encodings of
    what is in memory, except for the fabric the fail-safe is armed for and
    the networks while it is armed" - the empty node satisfies it, and so does
    every state reached from it); a crash point is any prefix [firstn n] of
    the key-value log the history issued.  The byte encodings are abstract:
    the hypotheses [rt_*] say that each decoder reads back what its encoder
    wrote (checked on the real codecs by the correspondence harness). *)
From Coq Require Import NArith List Bool Lia ZifyN ZifyBool.
From RsM Require Import Model.Persist Model.PersistSpec Proofs.PersistFacts Proofs.PersistInv Proofs.PersistTheorems.
Import ListNotations.
Open Scope N_scope.

Section C11.
  Variable blob : Type.
  Variable enc_fab : N -> fabric -> blob.
  Variable dec_fab : blob -> option (N * fabric).
  Variable enc_basic : basic -> blob.
  Variable dec_basic : blob -> option basic.
  Variable enc_nets : nets -> blob.
  Variable dec_nets : blob -> option nets.
  Variable enc_labels : N -> blob.
  Variable dec_labels : blob -> option N.
  Variable enc_binds : list (N * N) -> blob.
  Variable dec_binds : blob -> option (list (N * N)).
  Variable enc_res : list (N * N) -> blob.
  Variable dec_res : blob -> option (list (N * N)).
  Variable enc_tz : N -> blob.
  Variable dec_tz : blob -> option N.
  Variable enc_tts : N * N -> blob.
  Variable dec_tts : blob -> option (N * N).
  Variable enc_icd : list (N * N) -> blob.
  Variable dec_icd : blob -> option (list (N * N)).
  Variable enc_ota : list (N * N) -> blob.
  Variable dec_ota : blob -> option (list (N * N)).
  Variable enc_scenes : list (N * N) -> blob.
  Variable dec_scenes : blob -> option (list (N * N)).
  Variable enc_sub : N * N -> blob.
  Variable dec_sub : blob -> option (N * N).
  Hypothesis rt_fab : forall i f, dec_fab (enc_fab i f) = Some (i, f).
  Hypothesis rt_basic : forall v, dec_basic (enc_basic v) = Some v.
  Hypothesis rt_nets : forall v, dec_nets (enc_nets v) = Some v.
  Hypothesis rt_labels : forall v, dec_labels (enc_labels v) = Some v.
  Hypothesis rt_binds : forall v, dec_binds (enc_binds v) = Some v.
  Hypothesis rt_res : forall v, dec_res (enc_res v) = Some v.
  Hypothesis rt_tz : forall v, dec_tz (enc_tz v) = Some v.
  Hypothesis rt_tts : forall v, dec_tts (enc_tts v) = Some v.
  Hypothesis rt_icd : forall v, dec_icd (enc_icd v) = Some v.
  Hypothesis rt_ota : forall v, dec_ota (enc_ota v) = Some v.
  Hypothesis rt_scenes : forall v, dec_scenes (enc_scenes v) = Some v.
  Hypothesis rt_sub : forall v, dec_sub (enc_sub v) = Some v.

  Notation stepf := (step blob enc_fab dec_fab enc_basic dec_basic enc_nets dec_nets enc_labels dec_labels
                          enc_binds dec_binds enc_res dec_res enc_tz dec_tz enc_tts dec_tts
                          enc_icd dec_icd enc_ota dec_ota enc_scenes dec_scenes enc_sub dec_sub).
  Notation step := (stepf true).
  Notation run := (run blob enc_fab dec_fab enc_basic dec_basic enc_nets dec_nets enc_labels dec_labels
                       enc_binds dec_binds enc_res dec_res enc_tz dec_tz enc_tts dec_tts
                          enc_icd dec_icd enc_ota dec_ota enc_scenes dec_scenes enc_sub dec_sub true).
  Notation startup := (startup blob dec_fab dec_basic dec_nets dec_labels dec_binds enc_res dec_res
                               dec_tz dec_tts dec_icd dec_ota dec_scenes enc_sub dec_sub).
  Notation boot := (boot blob dec_fab dec_basic dec_nets dec_labels dec_binds enc_res dec_res
                         dec_tz dec_tts dec_icd dec_ota dec_scenes enc_sub dec_sub).
  Notation Inv := (Inv blob enc_fab enc_basic enc_nets enc_labels enc_binds enc_res enc_tz enc_tts enc_icd enc_ota enc_scenes enc_sub).
  Notation state_at := (state_at blob enc_fab dec_fab enc_basic dec_basic enc_nets dec_nets enc_labels dec_labels
                                 enc_binds dec_binds enc_res dec_res enc_tz dec_tz enc_tts dec_tts
                          enc_icd dec_icd enc_ota dec_ota enc_scenes dec_scenes enc_sub dec_sub).
  Notation cut_inside := (cut_inside blob enc_fab dec_fab enc_basic dec_basic enc_nets dec_nets enc_labels dec_labels
                                     enc_binds dec_binds enc_res dec_res enc_tz dec_tz enc_tts dec_tts
                          enc_icd dec_icd enc_ota dec_ota enc_scenes dec_scenes enc_sub dec_sub).
  Notation full_log := (full_log blob).
  Notation committed_view := (committed_view blob).

  (** the invariant is kept by every operation (hence holds along every history) *)
  Theorem C11_invariant : forall (st : state blob) (o : op), Inv st -> Inv (fst (step st o)).
  Proof. intros; apply step_inv; assumption. Qed.

  (** the store of a state is the replay of the key-value operations the operations returned *)
  Theorem C11_log_is_store : forall fx (st : state blob) (o : op),
    s_kv (fst (stepf fx st o)) = replay blob (s_kv st) (kvlog blob (snd (stepf fx st o))).
  Proof. intros; apply step_kv_log. Qed.

  (** a restart from the store of any reachable state comes up, and comes up with memory as it
      was - except the fabric the fail-safe is armed for, and the networks while it is armed *)
  Theorem C11_restart_committed : forall st : state blob, Inv st ->
    exists r, boot (s_kv st) = Some r /\ committed_view st r.
  Proof. intros; eapply restart_committed; eassumption. Qed.

  (** for every history and EVERY prefix of its key-value log that does not fall strictly inside one
      operation: the restarted node is the committed view of the state after a whole number of
      operations *)
  Theorem C11_prefix_consistent : forall (st0 : state blob) (ops : list op) (n : nat), Inv st0 ->
    (n <= length (full_log (snd (run st0 ops))))%nat ->
    (forall j, ~ cut_inside st0 ops n j) ->
    exists j r, (j <= length ops)%nat /\
      boot (replay blob (s_kv st0) (firstn n (full_log (snd (run st0 ops))))) = Some r /\
      committed_view (state_at st0 ops j) r.
  Proof. intros; eapply prefix_consistent; eassumption. Qed.

  (** the excluded class (known finding partial-commit) consists of cuts between two key-value
      operations of ONE operation: an operation with at most one has no inside *)
  Theorem C11_partial_commit_needs_two_writes : forall (st0 : state blob) ops n j, cut_inside st0 ops n j ->
    exists o, nth_error ops j = Some o /\
      (2 <= length (kvlog blob (snd (step (state_at st0 ops j) o))))%nat.
  Proof. intros; eapply cut_inside_multi; eassumption. Qed.

  (** the answer to the peer is the last effect of every operation: all its writes precede it -
      except for a subscribe request, whose table is persisted best-effort AFTER the answer *)
  Theorem C11_ack_implies_durable : forall fx (st : state blob) (o : op),
    (forall c v, o <> OSub c v) ->
    ack_is_last blob (snd (stepf fx st o)) = true.
  Proof. intros; apply ack_after_writes; assumption. Qed.

  (** ... and what was answered is there after a restart right behind the operation *)
  Theorem C11_acked_change_survives : forall (st : state blob) (o : op), Inv st ->
    exists r, boot (s_kv (fst (step st o))) = Some r /\ committed_view (fst (step st o)) r.
  Proof. intros; eapply restart_committed; try eassumption. apply step_inv; assumption. Qed.

  (** an operation whose gate is closed (fail-safe armed for its fabric; staged commissioning
      steps) issues no key-value operation at all *)
  Theorem C11_nothing_uncommitted : forall (st : state blob) (o : op),
    gate_closed blob st o = true -> kvlog blob (snd (step st o)) = [].
  Proof. intros; apply gated_writes_nothing; assumption. Qed.

  (** a refused command writes nothing and leaves the persisted structures in memory alone *)
  Theorem C11_refused_changes_nothing : forall (st : state blob) (o : op),
    In (EAck Refused) (snd (step st o)) ->
    kvlog blob (snd (step st o)) = [] /\ s_ram (fst (step st o)) = s_ram st.
  Proof. intros; apply refused_changes_nothing_durable; assumption. Qed.

  (** every store any operation ever issues goes to a key of [writable_keys] (the fabric keys 1..255
      and the five singleton keys of the structures modelled) ... *)
  Theorem C11_writes_only_writable_keys : forall (st : state blob) (o : op) k b, Inv st ->
    In (KStore k b) (kvlog blob (snd (step st o))) -> In k writable_keys.
  Proof.
    intros st o k b HI H. eapply writes_only_writable_keys in H; [exact H|..]; first [exact HI|eassumption].
  Qed.

  (** ... and after a factory reset every one of those keys is absent *)
  Theorem C11_factory_reset_empty : forall (st : state blob) k, In k writable_keys ->
    aget (s_kv (fst (step st OReset))) k = None.
  Proof. intros; apply reset_removes_writable; assumption. Qed.

  (** ANY bytes under the resumption key: start-up succeeds with the committed view; bytes that do
      not parse give an empty cache and are removed; afterwards the key is absent, untouched-and-
      parseable, or rewritten *)
  Theorem C11_bad_cache_boots : forall (st : state blob) (b : blob), Inv st ->
    exists r ops,
      startup (aset (s_kv st) K_RESUMP b) = Some (r, ops) /\
      committed_view st r /\
      (dec_res b = None -> r_resump r = [] /\ In (KRemove K_RESUMP) ops) /\
      (aget (replay blob (aset (s_kv st) K_RESUMP b) ops) K_RESUMP = None \/
       exists l, dec_res b = Some l /\
         (aget (replay blob (aset (s_kv st) K_RESUMP b) ops) K_RESUMP = Some b \/
          exists l', aget (replay blob (aset (s_kv st) K_RESUMP b) ops) K_RESUMP = Some (enc_res l'))).
  Proof. intros; eapply bad_cache_boots; eassumption. Qed.

  (** from ANY store - also one a power loss inside RemoveFabric left behind, with the fabric key gone
      and the records of that fabric still in the stored cache - start-up leaves a cache that holds
      only records of fabrics in the table, and the stored cache reads back as exactly that: the next
      restart cannot bring a dropped record back, whatever happens to the fabric index in between *)
  Theorem C11_startup_cleans_cache : forall (m : kv blob) r ops,
    startup m = Some (r, ops) ->
    (forall x, In x (r_resump r) -> amem (r_fabs r) (fst x) = true) /\
    match aget (replay blob m ops) K_RESUMP with
    | None => r_resump r = []
    | Some b => dec_res b = Some (r_resump r)
    end.
  Proof. intros m r ops H. eapply startup_cache_clean in H; eassumption. Qed.
End C11.

Print Assumptions C11_invariant.
Print Assumptions C11_log_is_store.
Print Assumptions C11_restart_committed.
Print Assumptions C11_prefix_consistent.
Print Assumptions C11_partial_commit_needs_two_writes.
Print Assumptions C11_ack_implies_durable.
Print Assumptions C11_acked_change_survives.
Print Assumptions C11_nothing_uncommitted.
Print Assumptions C11_refused_changes_nothing.
Print Assumptions C11_writes_only_writable_keys.
Print Assumptions C11_factory_reset_empty.
Print Assumptions C11_bad_cache_boots.
Print Assumptions C11_startup_cleans_cache.

(** ** The hypotheses are satisfiable, the classes set aside are inhabited *)

Notation i_step := (c_step true).
Notation i_Inv := (Inv cblob BFab BBasic BNets BLabels BBinds BRes BTz BTts BIcd BOta BScenes BSub).

(** the codec instance of Model/PersistSpec.v reads back what it wrote *)
Example C11_codecs_satisfiable :
  (forall i f, c_dec_fab (BFab i f) = Some (i, f)) /\ (forall v, c_dec_basic (BBasic v) = Some v) /\
  (forall v, c_dec_nets (BNets v) = Some v) /\ (forall v, c_dec_labels (BLabels v) = Some v) /\
  (forall v, c_dec_binds (BBinds v) = Some v) /\ (forall v, c_dec_res (BRes v) = Some v) /\
  (forall v, c_dec_tz (BTz v) = Some v) /\ (forall v, c_dec_tts (BTts v) = Some v) /\
  (forall v, c_dec_icd (BIcd v) = Some v) /\ (forall v, c_dec_ota (BOta v) = Some v) /\
  (forall v, c_dec_scenes (BScenes v) = Some v) /\ (forall v, c_dec_sub (BSub v) = Some v).
Proof. repeat split. Qed.

(** the initial states of the harness satisfy the invariant *)
Example C11_initial_states_inv : forall pase, i_Inv (init_state 0 pase) /\ i_Inv (init_state 2 pase).
Proof.
  intros pase. split; constructor.
  (* the empty node *)
  - constructor.
  - intros i [].
  - vm_compute. repeat constructor.
  - intros i Hi. right. reflexivity.
  - left. split; reflexivity.
  - intros _. left. split; reflexivity.
  - left. reflexivity.
  - left. split; reflexivity.
  - left. split; reflexivity.
  - left. reflexivity.
  - left. split; reflexivity.
  - reflexivity.
  - left. split; reflexivity.
  - left. split; reflexivity.
  - left. split; reflexivity.
  - intros i Hi. left. reflexivity.
  - destruct pase; cbn; intros pf H; congruence.
  (* two commissioned fabrics *)
  - cbn. repeat constructor; cbn; intuition congruence.
  - intros i Hi. assert (Hi' : i = 1 \/ i = 2) by (cbn in Hi; destruct Hi as [H|[H|[]]]; [left|right]; symmetry; exact H). lia.
  - vm_compute. repeat constructor.
  - intros i Hi. cbn [init_state s_kv s_ram s_fs r_fabs armed_for].
    change (init_fabs 2) with [(1, init_fabric 1); (2, init_fabric 2)].
    cbn [map fst snd aget amem]. rewrite !fabric_key_id.
    destruct (N.eqb_spec i 1) as [E|E].
    + subst i. exists (init_fabric 1). split; [reflexivity|]. split; [reflexivity|]. intros _. reflexivity.
    + destruct (N.eqb_spec i 2) as [E2|E2].
      * subst i. exists (init_fabric 2). split; [reflexivity|]. split; [reflexivity|]. intros _. reflexivity.
      * right. cbn [aget]. destruct (N.eqb_spec i 1); [congruence|]. destruct (N.eqb_spec i 2); [congruence|reflexivity].
  - left. split; reflexivity.
  - intros _. left. split; reflexivity.
  - left. reflexivity.
  - left. split; reflexivity.
  - left. split; reflexivity.
  - left. reflexivity.
  - left. split; reflexivity.
  - reflexivity.
  - left. split; reflexivity.
  - left. split; reflexivity.
  - left. split; reflexivity.
  - intros i Hi. left. cbn [init_state s_kv].
    change (init_fabs 2) with [(1, init_fabric 1); (2, init_fabric 2)].
    cbn [map fst snd aget]. rewrite !fabric_key_id.
    destruct (N.eqb_spec (SUBS_START + i) 1) as [E1|E1]; [unfold SUBS_START in E1; lia|].
    destruct (N.eqb_spec (SUBS_START + i) 2) as [E2|E2]; [unfold SUBS_START in E2; lia|]. reflexivity.
  - destruct pase; cbn; intros pf H; congruence.
Qed.

Definition c_run (fx : bool) : c_state -> list op -> c_state * list (list (ev cblob)) :=
  run cblob BFab c_dec_fab BBasic c_dec_basic BNets c_dec_nets BLabels c_dec_labels BBinds c_dec_binds BRes c_dec_res
      BTz c_dec_tz BTts c_dec_tts BIcd c_dec_icd BOta c_dec_ota BScenes c_dec_scenes BSub c_dec_sub fx.
Definition c_boot : kv cblob -> option ram :=
  boot cblob c_dec_fab c_dec_basic c_dec_nets c_dec_labels c_dec_binds BRes c_dec_res
       c_dec_tz c_dec_tts c_dec_icd c_dec_ota c_dec_scenes BSub c_dec_sub.
Definition fab_acl (r : option ram) (i : N) : option N :=
  match r with Some r => option_map f_acl (aget (r_fabs r) i) | None => None end.
Definition fab_label (r : option ram) (i : N) : option N :=
  match r with Some r => option_map f_label (aget (r_fabs r) i) | None => None end.

(** BEFORE the repair of UpdateFabricLabel ([label_fix = false]): the command is answered OK,
    nothing is written, and a restart comes up with the old label *)
Theorem C11_label_lost_before_fix :
  let st0 := init_state 1 false in
  let (st1, evs) := c_step false st0 (OLabel (SC 1) 3) in
  evs = [EAck Ok] /\ fab_label (Some (s_ram st1)) 1 = Some 3 /\ fab_label (c_boot (s_kv st1)) 1 = Some 0.
Proof. vm_compute. repeat split. Qed.
Print Assumptions C11_label_lost_before_fix.

(** ... and with the repair the same history is durable *)
Example C11_label_kept_after_fix :
  let (st1, evs) := i_step (init_state 1 false) (OLabel (SC 1) 3) in
  fab_label (c_boot (s_kv st1)) 1 = Some 3.
Proof. vm_compute. reflexivity. Qed.

(** known finding partial-commit is inhabited: RemoveFabric(2) with a binding of fabric 2: a power
    loss after its first key-value operation (of three) restarts with the binding of a fabric that
    is gone - neither the state before nor the state after the command *)
Theorem C11_partial_commit_witness :
  let st0 := init_state 2 false in
  let ops := [OBind (SC 2) 5; ORemove (SC 1) 2] in
  let log := flat_map c_kvlog (snd (c_run true st0 ops)) in
  length log = 4%nat /\
  option_map r_binds (c_boot (c_replay (s_kv st0) (firstn 1 log))) = Some [(2, 5)] /\
  option_map (fun r => amem (r_fabs r) 2) (c_boot (c_replay (s_kv st0) (firstn 1 log))) = Some true /\
  option_map r_binds (c_boot (c_replay (s_kv st0) (firstn 2 log))) = Some [(2, 5)] /\
  option_map (fun r => amem (r_fabs r) 2) (c_boot (c_replay (s_kv st0) (firstn 2 log))) = Some false /\
  option_map r_binds (c_boot (c_replay (s_kv st0) (firstn 4 log))) = Some [].
Proof. vm_compute. repeat split. Qed.
Print Assumptions C11_partial_commit_witness.

(** known finding uncommitted-flushed is inhabited: fail-safe armed over CASE on fabric 1, ACL
    written (staged), SetVIDVerificationStatement stores the whole fabric, the fail-safe expires:
    the staged ACL is in memory AND in the store although nothing was committed *)
Theorem C11_uncommitted_flushed_witness :
  let st0 := init_state 2 false in
  let ops := [OArm (SC 1); OAcl (SC 1) 5; OVid (SC 1) 7; OExpire] in
  let st := fst (c_run true st0 ops) in
  s_fs st = Idle /\ fab_acl (Some (s_ram st)) 1 = Some 5 /\ fab_acl (c_boot (s_kv st)) 1 = Some 5 /\
  (* without the SetVIDVerificationStatement the expiry rolls the ACL back *)
  fab_acl (Some (s_ram (fst (c_run true st0 [OArm (SC 1); OAcl (SC 1) 5; OExpire])))) 1 = Some 0.
Proof. vm_compute. repeat split. Qed.
Print Assumptions C11_uncommitted_flushed_witness.

(** (after the repair of the ICD and time zone handlers) of the keys of rs-matter's own layout the
    two factory resets - with every persisting handler part of the data model - leave behind nothing
    but the subscription slots beyond the size of this build's subscription table *)
Theorem C11_reset_leftover_witness :
  filter (fun k => negb (existsb (N.eqb k) reset_keys)) layout_keys = nrange 2063 2033.
Proof. vm_compute. reflexivity. Qed.
Print Assumptions C11_reset_leftover_witness.

(** persisted subscriptions are best effort: the answer precedes the 15 key-value operations that
    write the table back; a power loss inside them restarts with a duplicated record; a factory reset
    removes the records but not the table in memory *)
Theorem C11_subscription_best_effort_witness :
  let st0 := init_state 2 false in
  let (st1, evs) := i_step st0 (OSub (SC 1) 3) in
  hd (EAck Refused) evs = EAck Ok /\ length (c_kvlog evs) = 15%nat /\
  let ops := [OSub (SC 1) 3; OSub (SC 2) 4; OSub (SC 1) 5] in
  let log := flat_map c_kvlog (snd (c_run true st0 ops)) in
  option_map r_subs (c_boot (c_replay (s_kv st0) (firstn 30 log))) = Some [(1, 3); (2, 4)] /\
  option_map r_subs (c_boot (c_replay (s_kv st0) (firstn 31 log))) = Some [(2, 4); (2, 4)] /\
  option_map r_subs (c_boot (c_replay (s_kv st0) (firstn 45 log))) = Some [(2, 4); (1, 5)] /\
  r_subs (s_ram (fst (c_run true st0 [OSub (SC 1) 3; OReset]))) = [(1, 3)].
Proof. vm_compute. repeat split. Qed.
Print Assumptions C11_subscription_best_effort_witness.

(** RemoveFabric(2) cut by a power loss after its first key-value operation (the fabric key is gone,
    the stored cache still has the record of fabric 2), restart, a new fabric is commissioned and gets
    index 2 again, second restart before any flush: the old record is NOT live under the new fabric,
    because the first start-up rewrote the stored cache ([s267] among its operations) *)
Theorem C11_cut_removal_record_not_rebound :
  let st0 := init_state 2 true in
  let st1 := fst (c_run true st0 [OResume 2 71; OFlush]) in
  let (st2, evs) := c_step_cut true st1 (ORemove (SC 1) 2) 1 in
  c_kvlog evs = [KRemove 2; KStore K_RESUMP (BRes [])] /\
  aget (s_kv st1) K_RESUMP = Some (BRes [(2, 71)]) /\
  let st3 := fst (c_run true st2 [OPase; OArm SP; OAddNoc 77; OComplete 2; OCrash]) in
  amem (r_fabs (s_ram st3)) 2 = true /\ fab_label (Some (s_ram st3)) 2 = Some 0 /\
  option_map f_nid (aget (r_fabs (s_ram st3)) 2) = Some 77 /\
  r_resump (s_ram st3) = [] /\ aget (s_kv st3) K_RESUMP = Some (BRes []).
Proof. vm_compute. repeat split. Qed.
Print Assumptions C11_cut_removal_record_not_rebound.

(** the monitor tells the two restarts apart: observations as a start-up that prunes in memory only
    would give them (stored cache [K] unchanged by the first restart, the record live again after the
    second, fabric index 2 standing for commissioning 1000 instead of 2) yield the two cache
    violations; the same history observed on the code as it is yields none of them *)
Example C11_cache_monitor_not_vacuous :
  let mk restart sess fabs res kres inc :=
    mkOp true 0 None None 0 None false [] restart sess fabs res kres inc None false false [] [] in
  let bad := [ mk false (Some (2, 71)) [1; 2] [(2, 71)] [] [(1, 1); (2, 2)];          (* H:2:71 *)
               mk false None [1; 2] [(2, 71)] [(2, 71)] [(1, 1); (2, 2)];             (* J *)
               mk true None [1] [] [(2, 71)] [(1, 1)];                                (* X1:2~1 *)
               mk false None [1; 2] [] [(2, 71)] [(1, 1); (2, 1000)];                 (* commissioned again *)
               mk true None [1; 2] [(2, 71)] [(2, 71)] [(1, 1); (2, 1000)] ] in       (* Q *)
  let good := [ mk false (Some (2, 71)) [1; 2] [(2, 71)] [] [(1, 1); (2, 2)];
                mk false None [1; 2] [(2, 71)] [(2, 71)] [(1, 1); (2, 2)];
                mk true None [1] [] [] [(1, 1)];
                mk false None [1; 2] [] [] [(1, 1); (2, 1000)];
                mk true None [1; 2] [] [] [(1, 1); (2, 1000)] ] in
  check_stale_ops 0 bad ++ check_rebound 0 [] bad = [(V_STALE_LIVE, 2); (V_REBOUND, 4)] /\
  check_stale_ops 0 good ++ check_rebound 0 [] good = [] /\
  (* a session established anew under the new fabric binds the record anew *)
  check_rebound 0 [] (firstn 4 good ++ [mk false (Some (2, 71)) [1; 2] [(2, 71)] [] [(1, 1); (2, 1000)]]) = [] /\
  check_stale_cuts [mkCut 2 true [] [1] [(2, 71)] []; mkCut 3 true [] [1; 2] [(2, 71)] []] = [(V_STALE, 2)].
Proof. vm_compute. repeat split. Qed.

(** the same for the subscription slots: D1:3, D2:4, restart, RemoveFabric(2), restart, index 2 commissioned
    again, restart - observed on a persist pass that does not clear the slots it did not write itself in this
    boot (slot 1 keeps the record of fabric 2), and as the code is *)
Example C11_subscription_monitor_not_vacuous :
  let mk restart subd pass fabs subs ksubs inc :=
    mkOp true 0 None None 0 None false [] restart None fabs [] [] inc subd pass false subs ksubs in
  let i0 := [(1, 1); (2, 2)] in
  let pre := [ mk false (Some (1, 3)) true [1; 2] [(1, 3)] [(0, (1, 3))] i0;
               mk false (Some (2, 4)) true [1; 2] [(1, 3); (2, 4)] [(0, (1, 3)); (1, (2, 4))] i0;
               mk true None false [1; 2] [(1, 3); (2, 4)] [(0, (1, 3)); (1, (2, 4))] i0 ] in
  let bad := pre ++
             [ mk false None true [1] [(1, 3)] [(0, (1, 3)); (1, (2, 4))] [(1, 1)];                        (* X1:2 *)
               mk true None true [1] [(1, 3)] [(0, (1, 3)); (1, (2, 4))] [(1, 1)];                         (* Q *)
               mk false None false [1; 2] [(1, 3)] [(0, (1, 3)); (1, (2, 4))] [(1, 1); (2, 1000)];         (* Z2 *)
               mk true None false [1; 2] [(1, 3); (2, 4)] [(0, (1, 3)); (1, (2, 4))] [(1, 1); (2, 1000)] ] in
  let good := pre ++
             [ mk false None true [1] [(1, 3)] [(0, (1, 3))] [(1, 1)];
               mk true None false [1] [(1, 3)] [(0, (1, 3))] [(1, 1)];
               mk false None false [1; 2] [(1, 3)] [(0, (1, 3))] [(1, 1); (2, 1000)];
               mk true None false [1; 2] [(1, 3)] [(0, (1, 3))] [(1, 1); (2, 1000)] ] in
  check_subs_mirror 0 [] bad ++ check_subs_stale_ops 0 bad ++ check_subs_rebound 0 [] bad
    = [(V_SUBS_MIRROR, 3); (V_SUBS_STALE_LIVE, 4); (V_SUBS_REBOUND, 6)] /\
  check_subs_mirror 0 [] good ++ check_subs_stale_ops 0 good ++ check_subs_rebound 0 [] good = [] /\
  (* a record behind an empty slot is not resumed: not stale in the sense of (d) *)
  check_subs_stale_cuts [mkCut 5 true [] [1] [] [(0, (1, 3)); (2, (2, 4))]; mkCut 6 true [] [1] [] [(0, (1, 3)); (1, (2, 4))]]
    = [(V_SUBS_STALE, 6)].
Proof. vm_compute. repeat split. Qed.

(** the stores of the other handlers: time zone, trusted time source (removed with its fabric),
    ICD registration, OTA provider and scene (dropped with their fabric) *)
Example C11_other_stores_example :
  let st0 := init_state 2 false in
  let ops := [OTz (SC 1) 3; OTts (SC 2) 9; OIcd (SC 2) 4; OOta (SC 2) 5; OScene (SC 2) 6; OIcd (SC 1) 7;
              ORemove (SC 1) 2; OCrash] in
  let st := fst (c_run true st0 ops) in
  r_tz (s_ram st) = 3 /\ r_tts (s_ram st) = None /\ r_icd (s_ram st) = [(1, 7)] /\
  r_ota (s_ram st) = [] /\ r_scenes (s_ram st) = [] /\
  length (flat_map c_kvlog (snd (c_run true st0 ops))) = 12%nat.
Proof. vm_compute. repeat split. Qed.

(** the local index of a new fabric (Fabrics::add_with_post_init): highest index in use + 1 while
    that is below 254, then the first unused one of 1..254; 255 is never handed out - and a fabric
    committed under ANY index comes back after a restart (start-up probes all of 1..255) *)
Example C11_index_allocation :
  let f := init_fabric 1 in
  new_index [(1, f); (5, f)] = Some 6 /\ new_index [(253, f)] = Some 254 /\
  new_index [(1, f); (254, f)] = Some 2 /\ new_index [(2, f); (254, f)] = Some 1 /\
  let st0 := init_state_at [253] true in
  let ops := [OArm SP; OAddNoc 77; OComplete 254; OPase; OArm SP; OAddNoc 78; OComplete 1; OAcl (SC 254) 5; OCrash] in
  let st := fst (c_run true st0 ops) in
  map fst (r_fabs (s_ram st)) = [1; 253; 254] /\ fab_acl (Some (s_ram st)) 254 = Some 5.
Proof. vm_compute. repeat split. Qed.

(** a commissioning committed, a label write, a restart: durable; the invariant's hypotheses are met *)
Example C11_history_example :
  let st0 := init_state 1 true in
  let ops := [OArm SP; OAddNoc 77; ONet SP 9; OAcl (SC 2) 5; OComplete 2; OLabel (SC 2) 4; OCrash] in
  let st := fst (c_run true st0 ops) in
  fab_acl (Some (s_ram st)) 2 = Some 5 /\ fab_label (Some (s_ram st)) 2 = Some 4 /\
  r_nets (s_ram st) = mkNets true [9] /\
  length (flat_map c_kvlog (snd (c_run true st0 ops))) = 3%nat.
Proof. vm_compute. repeat split. Qed.
