(** Property C05 - access is granted exactly when the Matter
    access-control algorithm grants it.  Property theorems only.

    Model: Model/Acl.v (acl.rs, fabric.rs, privilege.rs transcribed).
    Specification: Model/AclSpec.v ([acl_granted], [granted],
    [endpoint_reachable] over levels, Node/Cat subjects and targets). *)
From RsM Require Import Lib.MachInt Model.Acl Model.AclSpec
  Proofs.AclFacts Proofs.AclTheorems.
Open Scope N_scope.

(** ** The decision procedure computes the declarative decision, for every
    table of fabrics (entries with one of the five privileges, 16-bit
    group ids), every accessor, every request and each of read / write /
    invoke.  [AccessReq::allow] on the left. *)
Theorem C05_allow_iff_granted :
  forall (fabs : list fabric) (a : accessor) (r : request) (op : operation),
  wf_fabrics fabs = true -> r_op r = op_bits op ->
  allow fabs a r =
  acl_granted (map abs_fabric fabs) (abs_accessor a) op (abs_element r).
Proof. exact allow_eq_spec. Qed.
Print Assumptions C05_allow_iff_granted.

(** The decision for a concrete element as the interaction model takes it
    (endpoint reachable for the accessor, then the ACL check). *)
Theorem C05_access_iff_granted :
  forall (fabs : list fabric) (a : accessor) (op : operation)
         (ep cl : N) (dts : list N) (decl : N),
  wf_fabrics fabs = true ->
  im_access fabs a ep cl dts (op_bits op) decl =
  granted (map abs_fabric fabs) (abs_accessor a) op ep cl dts decl.
Proof. exact im_access_eq_spec. Qed.
Print Assumptions C05_access_iff_granted.

Theorem C05_endpoint_iff_reachable :
  forall (fabs : list fabric) (a : accessor) (ep : N),
  is_endpoint_accessible fabs a ep =
  endpoint_reachable (map abs_fabric fabs) (abs_accessor a) ep.
Proof. exact endpoint_eq_spec. Qed.
Print Assumptions C05_endpoint_iff_reachable.

(** What [acl_granted] says, in the words of the property text: a PASE
    commissioner, or some entry in force in the accessor's own (existing,
    non-zero) fabric grants the operation. *)
Theorem C05_granted_meaning :
  forall (fabs : list sfabric) (a : saccessor) (op : operation) (el : selement),
  acl_granted fabs a op el = true <->
  sa_mode a = Some Pase \/
  exists f e, sa_fabric a <> 0 /\
              find (fun f => sf_index f =? sa_fabric a) fabs = Some f /\
              In e (entries_in_force f a) /\
              entry_grants e a op el = true.
Proof. exact acl_granted_iff. Qed.
Print Assumptions C05_granted_meaning.

(** ** Fabric isolation.  A fabric with another index - all its entries,
    all its groups - can be deleted without changing any decision. *)
Theorem C05_fabric_isolation :
  forall (fabs1 fabs2 : list fabric) (g : fabric) (a : accessor) (r : request),
  f_idx g <> a_fab a ->
  allow (fabs1 ++ g :: fabs2) a r = allow (fabs1 ++ fabs2) a r.
Proof. exact other_fabric_irrelevant. Qed.
Print Assumptions C05_fabric_isolation.

Theorem C05_fabric_isolation_endpoint :
  forall (fabs1 fabs2 : list fabric) (g : fabric) (a : accessor) (ep : N),
  f_idx g <> a_fab a ->
  is_endpoint_accessible (fabs1 ++ g :: fabs2) a ep =
  is_endpoint_accessible (fabs1 ++ fabs2) a ep.
Proof. exact other_fabric_irrelevant_endpoint. Qed.
Print Assumptions C05_fabric_isolation_endpoint.

(** An entry that carries another fabric index (or none) grants nothing,
    wherever it is stored: deleting it changes no decision. *)
Theorem C05_foreign_entry_never_grants :
  forall (e : entry) (a : accessor) (r : request) (aux : bool),
  e_fab e <> Some (a_fab a) -> entry_allow e a r aux = false.
Proof. exact entry_other_fabric. Qed.
Print Assumptions C05_foreign_entry_never_grants.

Theorem C05_foreign_entry_irrelevant :
  forall (fabs1 fabs2 : list fabric) (f : fabric)
         (l1 l2 : list entry) (e : entry) (a : accessor) (r : request),
  f_acl f = l1 ++ e :: l2 -> e_fab e <> Some (a_fab a) ->
  allow (fabs1 ++ f :: fabs2) a r =
  allow (fabs1 ++ mkFabric (f_idx f) (l1 ++ l2) (f_groups f) :: fabs2) a r.
Proof. exact foreign_entry_irrelevant. Qed.
Print Assumptions C05_foreign_entry_irrelevant.

(** Entries installed through [Fabric::acl_add] always carry the index of
    the fabric they are stored in. *)
Theorem C05_acl_add_own_index :
  forall (f : fabric) (e : entry),
  own_entries f ->
  own_entries (fst (acl_add f e)) /\ f_idx (fst (acl_add f e)) = f_idx f.
Proof. exact acl_add_own_index. Qed.
Print Assumptions C05_acl_add_own_index.

(** ** An accessor whose fabric does not exist (or is 0) is denied. *)
Theorem C05_missing_fabric_denied :
  forall (fabs : list fabric) (a : accessor) (r : request),
  a_auth a <> Some APase ->
  a_fab a = 0 \/ (forall f, In f fabs -> f_idx f <> a_fab a) ->
  allow fabs a r = false.
Proof. exact missing_fabric_denied. Qed.
Print Assumptions C05_missing_fabric_denied.

Theorem C05_unauthenticated_denied :
  forall (fabs : list fabric) (peer : option N) (aux : bool) (r : request),
  allow fabs (for_session SPlain peer aux) r = false.
Proof. exact plaintext_denied. Qed.
Print Assumptions C05_unauthenticated_denied.

(** ** A passcode-authenticated commissioner is granted. *)
Theorem C05_pase_commissioner_granted :
  forall (fabs : list fabric) (a : accessor) (r : request),
  a_auth a = Some APase -> allow fabs a r = true.
Proof. exact pase_granted. Qed.
Print Assumptions C05_pase_commissioner_granted.

Theorem C05_pase_session_granted :
  forall (fabs : list fabric) (fab : N) (peer : option N) (aux : bool)
         (ep cl : N) (dts : list N) (op perms : N),
  im_access fabs (for_session (SPase fab) peer aux) ep cl dts op perms = true.
Proof. exact pase_session_granted. Qed.
Print Assumptions C05_pase_session_granted.

(** ** Tags: an accessor holding tag (id, v) satisfies the entry subject
    (id', w) exactly when the identifiers are equal and w <= v. *)
Theorem C05_cat_version_order :
  forall (node id v id' w : N),
  node <= 0xFFFFFFEFFFFFFFFF ->
  id < 65536 -> v < 65536 -> id' < 65536 -> w < 65536 ->
  0 < id * 65536 + v -> 0 < id' * 65536 + w ->
  subj_matches (subj_add_catid_ignore (subj_new node) (gen_noc_cat id v))
               (N.lor NOC_CAT_SUBJECT_PREFIX (gen_noc_cat id' w))
  = (id =? id') && (w <=? v).
Proof. exact cat_version_order. Qed.
Print Assumptions C05_cat_version_order.

(** ** Group accessors reach only endpoints that are members of their
    group in their own fabric. *)
Theorem C05_group_endpoint_membership :
  forall (fabs : list fabric) (a : accessor)
         (ep cl : N) (dts : list N) (op perms : N),
  a_auth a = Some AGroup ->
  im_access fabs a ep cl dts op perms = true ->
  exists f g, fabrics_get fabs (a_fab a) = Some f /\
              groups_get (f_groups f) (wrap16 (hd 0 (a_subj a))) = Some g /\
              In ep (g_eps g).
Proof. exact group_im_access_membership. Qed.
Print Assumptions C05_group_endpoint_membership.

Theorem C05_missing_fabric_group_unreachable :
  forall (fabs : list fabric) (a : accessor) (ep : N),
  a_auth a = Some AGroup ->
  a_fab a = 0 \/ (forall f, In f fabs -> f_idx f <> a_fab a) ->
  is_endpoint_accessible fabs a ep = false.
Proof. exact missing_fabric_group_unreachable. Qed.
Print Assumptions C05_missing_fabric_group_unreachable.

(** ** The access flags the code generator emits mean what the cluster
    definition says (for every combination the generator accepts). *)
Theorem C05_declared_privilege :
  forall d : edecl,
  decl_supported d = true ->
  (match d_read d with
   | Some r => supports (encode_decl d) Read = true /\ requires (encode_decl d) Read = Some r
   | None => supports (encode_decl d) Read = false
   end) /\
  (match d_write d with
   | Some w => supports (encode_decl d) Write = true /\ requires (encode_decl d) Write = Some w
               /\ supports (encode_decl d) Invoke = true /\ requires (encode_decl d) Invoke = Some w
   | None => supports (encode_decl d) Write = false /\ supports (encode_decl d) Invoke = false
   end).
Proof. exact declared_privilege. Qed.
Print Assumptions C05_declared_privilege.

(** ** Non-vacuity: concrete configurations meeting the hypotheses. *)

(** fabric 1: Operate for tag (0xABCD, >= 2) on endpoint 1; fabric 2: Administer for node 7 *)
Definition ex_fabs : list fabric :=
  [mkFabric 1 [mkEntry PRIV_OPERATE ACase
                 (Some [N.lor NOC_CAT_SUBJECT_PREFIX (gen_noc_cat 0xABCD 2)])
                 (Some [mkTarget None (Some 1) None]) (Some 1)]
              [mkGroup 5 [2] (Some true)];
   mkFabric 2 [mkEntry PRIV_ADMIN ACase (Some [7]) None (Some 2)] []].

Definition ex_case (fab node cat : N) : accessor :=
  for_session (SCase fab [cat; 0; 0]) (Some node) false.

Example C05_ex_wf : wf_fabrics ex_fabs = true.
Proof. vm_compute. reflexivity. Qed.

(** tag version 3 >= 2: write with Operate granted on endpoint 1, not on
    endpoint 2, not with version 1, not for the same accessor in fabric 2,
    not for Manage-level writes *)
Example C05_ex_decisions :
  map (fun '(a, ep, decl) => im_access ex_fabs a ep 6 [] ACC_WRITE decl)
    [(ex_case 1 7 (gen_noc_cat 0xABCD 3), 1, 46);
     (ex_case 1 7 (gen_noc_cat 0xABCD 3), 2, 46);
     (ex_case 1 7 (gen_noc_cat 0xABCD 1), 1, 46);
     (ex_case 2 8 (gen_noc_cat 0xABCD 3), 1, 46);
     (ex_case 1 7 (gen_noc_cat 0xABCD 3), 1, 44);
     (ex_case 2 7 0, 1, 40);
     (ex_case 3 7 0, 1, 40)]
  = [true; false; false; false; false; true; false].
Proof. vm_compute. reflexivity. Qed.

(** a group accessor with the AUXILIARY feature: member endpoint 2 is
    granted Operate through the auxiliary entry, endpoint 1 is not reachable *)
Example C05_ex_group :
  let a := for_session (SGroup 1 5) None true in
  im_access ex_fabs a 2 6 [] ACC_WRITE 46 = true /\
  im_access ex_fabs a 1 6 [] ACC_WRITE 46 = false /\
  granted (map abs_fabric ex_fabs) (abs_accessor a) Invoke 2 6 [] 46 = true.
Proof. vm_compute. repeat split; reflexivity. Qed.

Example C05_ex_decl :
  decl_supported (mkDecl (Some View) (Some Manage)) = true /\
  encode_decl (mkDecl (Some View) (Some Manage)) = 16 + 32 + 1 + 4 + 8.
Proof. vm_compute. split; reflexivity. Qed.
