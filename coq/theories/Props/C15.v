(** Property C15 — a nonce is never used for two different messages.
    Property theorems only. *)
From RsM Require Import Model.Packet Lib.MachInt Model.Mrp Model.Nonce
  Proofs.NonceTheorems Proofs.NonceAlloc Proofs.NonceAead.
From Coq Require Import Sorted.
Open Scope N_scope.

(** Every trace of sends and receptions on a session ([list sop], any number
    of exchanges): two transmissions that carry the same message counter are
    the same wire message (same piggy-backed acknowledgement, same application
    message) -- provided the trace is [honest]: the application re-sends the
    same message while a retransmission is pending (what [Exchange::send]
    enforces), and the peer does not push a new unacknowledging reliable
    message onto an exchange whose message it has not acknowledged. *)
Theorem C15_nonce_unique : forall (c0 : N) (nex : nat) (ops : list sop),
  honest (sess_new c0 nex) ops = true ->
  forall w1 w2, In w1 (snd (fst (sess_run (sess_new c0 nex) ops))) ->
                In w2 (snd (fst (sess_run (sess_new c0 nex) ops))) ->
                w_ctr w1 = w_ctr w2 -> w1 = w2.
Proof. exact nonce_unique. Qed.
Print Assumptions C15_nonce_unique.

(** The same from a session of either kind whose counter stands ANYWHERE (a
    long-lived session near the end of the 32-bit range included). *)
Theorem C15_nonce_unique_anywhere : forall (ctr : N) (nex : nat) (case : bool) (ops : list sop),
  honest (sess_at ctr nex case) ops = true ->
  forall w1 w2, In w1 (snd (fst (sess_run (sess_at ctr nex case) ops))) ->
                In w2 (snd (fst (sess_run (sess_at ctr nex case) ops))) ->
                w_ctr w1 = w_ctr w2 -> w1 = w2.
Proof. intros ctr nex case ops. exact (nonce_unique_from _ ops (winv_fresh ctr nex false case)). Qed.
Print Assumptions C15_nonce_unique_anywhere.

(** Every counter that goes on the wire fits the 32-bit header field, so equal
    header fields mean equal counters: the counter never comes round. *)
Theorem C15_wire_counters_fit : forall (ctr : N) (nex : nat) (case : bool) (ops : list sop),
  ctr < two32 -> honest (sess_at ctr nex case) ops = true ->
  forall w, In w (snd (fst (sess_run (sess_at ctr nex case) ops))) -> w_ctr w < two32.
Proof.
  intros ctr nex case ops Hb Hh.
  exact (wire_ctrs_fit _ ops (winv_fresh ctr nex false case) Hh Hb).
Qed.
Print Assumptions C15_wire_counters_fit.

(** "Consequently no two different plaintexts are ever encrypted under the same
    key, counter and source identity": with C03's nonce ([get_iv]: security
    flags, 32-bit counter, source node id), equal AEAD nonces within a session
    mean the same wire message, and whatever deterministic framing turns a wire
    message into associated data and plaintext, equal (key, nonce) mean the
    identical sealed term. *)
Theorem C15_aead_nonce_unique :
  forall (sf node ctr : N) (nex : nat) (case : bool) (ops : list sop),
  sf < 256 -> node < two64 -> ctr < two32 ->
  honest (sess_at ctr nex case) ops = true ->
  forall w1 w2, In w1 (snd (fst (sess_run (sess_at ctr nex case) ops))) ->
                In w2 (snd (fst (sess_run (sess_at ctr nex case) ops))) ->
                nonce sf (w_ctr w1) node = nonce sf (w_ctr w2) node -> w1 = w2.
Proof.
  intros sf node ctr nex case ops Hsf Hnode Hb Hh.
  exact (aead_nonce_unique sf node _ ops Hsf Hnode (winv_fresh ctr nex false case) Hh Hb).
Qed.
Print Assumptions C15_aead_nonce_unique.

Theorem C15_one_nonce_one_plaintext :
  forall (key sf node ctr : N) (frame : wire -> list N * list N)
         (nex : nat) (case : bool) (ops : list sop),
  sf < 256 -> node < two64 -> ctr < two32 ->
  honest (sess_at ctr nex case) ops = true ->
  forall w1 w2, In w1 (snd (fst (sess_run (sess_at ctr nex case) ops))) ->
                In w2 (snd (fst (sess_run (sess_at ctr nex case) ops))) ->
                same_key_nonce (sealed_for key sf node frame w1) (sealed_for key sf node frame w2) ->
                sealed_for key sf node frame w1 = sealed_for key sf node frame w2.
Proof.
  intros key sf node ctr frame nex case ops Hsf Hnode Hb Hh.
  exact (one_nonce_one_plaintext key sf node frame _ ops Hsf Hnode (winv_fresh ctr nex false case) Hh Hb).
Qed.
Print Assumptions C15_one_nonce_one_plaintext.

(** Messages that are not retransmissions carry strictly increasing counters
    (any trace, honest or not). *)
Theorem C15_fresh_counters_increase : forall (ops : list sop) (s : sess),
  StronglySorted N.lt (fresh_ctrs s ops) /\
  (forall c, In c (fresh_ctrs s ops) -> s_ctr s <= c).
Proof. exact fresh_counters_increase. Qed.
Print Assumptions C15_fresh_counters_increase.

(** At the end of the 32-bit range a fresh send is refused: the session is
    marked expired (it gets replaced, with new keys) and neither the counter nor
    any exchange changes - in every build profile (before the repair the counter
    wrapped to 0 in the release profile and the node aborted in the debug one). *)
Theorem C15_counter_exhaustion_refused : forall s e x m rel,
  nth_error (s_ex s) e = Some x -> pending_ctr x = None -> two32 <= s_ctr s + 1 ->
  sess_send s e m rel = (mkSess (s_ctr s) (s_ex s) true (s_case s), Err ERR_CTR_EXHAUSTED).
Proof. exact counter_exhaustion_refused. Qed.
Print Assumptions C15_counter_exhaustion_refused.

(** Locally chosen session identifiers: non-zero, not in use; the search
    succeeds whenever fewer than 65535 identifiers are in use. *)
Theorem C15_session_id_fresh : forall fuel cursor used id cursor',
  1 <= cursor < two16 ->
  next_sess_id fuel cursor used = Some (id, cursor') ->
  ~ In id used /\ 1 <= id < two16.
Proof. exact next_sess_id_fresh. Qed.
Print Assumptions C15_session_id_fresh.

Theorem C15_session_id_total : forall fuel cursor used,
  1 <= cursor < two16 -> (length used < fuel)%nat -> N.of_nat fuel <= 65535 ->
  exists id cursor', next_sess_id fuel cursor used = Some (id, cursor').
Proof. exact next_sess_id_total. Qed.
Print Assumptions C15_session_id_total.

(** Exchange identifiers of exchanges this node initiates: not held by any
    live initiator-role exchange. *)
Theorem C15_exchange_id_fresh : forall fuel cursor live id cursor',
  1 <= cursor < two16 ->
  next_exch_id fuel cursor live = Some (id, cursor') ->
  ~ In id (initiator_ids live) /\ 1 <= id < two16.
Proof. exact next_exch_id_fresh. Qed.
Print Assumptions C15_exchange_id_fresh.

Theorem C15_exchange_id_total : forall fuel cursor live,
  1 <= cursor < two16 -> (length (initiator_ids live) < fuel)%nat -> N.of_nat fuel <= 65535 ->
  exists id cursor', next_exch_id fuel cursor live = Some (id, cursor').
Proof. exact next_exch_id_total. Qed.
Print Assumptions C15_exchange_id_total.

(** Non-vacuity. *)
Example C15_ex_honest_trace :
  let ops := [Send 0 7 true; Send 0 7 true; Recv 1 900 None true; Send 1 8 true;
              Recv 0 901 (Some 100) false; Send 0 9 true; Send 1 8 true] in
  honest (sess_new 100 2) ops = true /\
  map w_ctr (snd (fst (sess_run (sess_new 100 2) ops))) = [100; 100; 101; 102; 101].
Proof. vm_compute. split; reflexivity. Qed.

(** the honesty hypothesis is needed: a peer that sends a new reliable message
    without acknowledging ours changes the piggy-backed acknowledgement between
    two transmissions of the same counter *)
Example C15_needs_honest_peer :
  let ops := [Send 0 7 true; Recv 0 900 None true; Send 0 7 true] in
  honest (sess_new 100 1) ops = false /\
  snd (fst (sess_run (sess_new 100 1) ops)) =
    [mkWire 100 None 7; mkWire 100 (Some 900) 7].
Proof. vm_compute. split; reflexivity. Qed.

Example C15_ex_alloc_wrap :
  next_sess_id 4 65535 [65535; 1; 2] = Some (3, 4) /\
  next_exch_id 3 65535 [(65535, true); (1, false); (2, true)] = Some (1, 2).
Proof. vm_compute. split; reflexivity. Qed.

(** the end of the range: the last counter used is 2^32-2, then the session refuses *)
Example C15_ex_exhaustion :
  let s0 := sess_at 4294967294 1 true in
  let ops := [Send 0 1 false; Send 0 2 false; Send 0 3 true] in
  honest s0 ops = true /\
  map w_ctr (snd (fst (sess_run s0 ops))) = [4294967294] /\
  s_ctr (fst (fst (sess_run s0 ops))) = 4294967295 /\
  s_expired (fst (fst (sess_run s0 ops))) = true.
Proof. vm_compute. repeat split; reflexivity. Qed.
