(** Property C03 — secured messages are accepted only if authentic for that
    session and direction.  Property theorems only.

    The model ([Model/Packet.v]) is the receive pipeline [decode_packet] and the
    send side [pre_send] / [session_encode] over byte-level headers (C17) and an
    IDEAL AEAD: a [world] lists the terms [Aead key nonce aad plaintext] honest
    parties have sealed together with their wire bytes; opening succeeds exactly
    on bytes recorded for the same key, nonce and associated data.  [authentic]
    is membership in that world.  The idealisation (no forgery without the key;
    [ct_unique]: different terms have different ciphertext-and-tag strings;
    [world_functional]: decryption is a function) is the stated partial part. *)
From RsM Require Import Lib.MachInt Model.Headers Model.Dedup Model.Mrp Model.Exchange
  Model.Packet Model.PacketSpec Proofs.HeadersFacts Proofs.PacketFacts Proofs.PacketTheorems.
Open Scope N_scope.

(** * A message reaches [Session::post_recv] only if it is authentic *)

Theorem C03_accept_sound :
  forall (W : world) (o : oracle) (st : pstate) (from : addr) (wire : list N)
         (st' : pstate) (out : outcome) (i : nat) (r : res bool),
  bytes wire ->
  decode_packet W o st from wire = (st', out) ->
  o_verdict out = Routed i r ->
  exists rest,
    wire = plain_encode (o_plain out) ++ rest /\ plain_wf (o_plain out) = true /\
    ( (exists s pt x0,
         find_sess (st_sessions st) from (o_plain out) = Some (i, s) /\
         proto_decode pt = Ok (x0, o_payload out) /\
         o_proto out = adjust_rel (addr_reliable (ps_addr s)) x0 /\
         (if mode_enc (ps_mode s) then authentic W s (o_plain out) pt rest else pt = rest))
      \/
      (find_sess (st_sessions st) from (o_plain out) = None /\
       plain_encrypted (o_plain out) = false /\
       exists s', nth_error (st_sessions st') i = Some s' /\ ps_mode s' = MPlain)
      \/
      (find_sess (st_sessions st) from (o_plain out) = None /\
       exists c src pt x0 s',
         In c (st_groups st) /\ gc_sid c = p_sess (o_plain out) /\
         plain_get_src (o_plain out) = Some src /\
         authentic_group W c src (o_plain out) pt rest /\
         proto_decode pt = Ok (x0, o_payload out) /\
         o_proto out = adjust_rel (addr_reliable from) x0 /\
         nth_error (st_sessions st') i = Some s' /\ ps_dec_key s' = gc_key c /\
         ps_mode s' = MGroup (gc_fab c) (gc_gid c) /\ ps_peer_node s' = Some src) ).
Proof. exact accept_sound. Qed.
Print Assumptions C03_accept_sound.

(** * Rejection changes nothing *)

Theorem C03_unauthentic_frame :
  forall (W : world) (o : oracle) (st : pstate) (from : addr) (wire : list N)
         (st' : pstate) (out : outcome),
  auth_check W st from wire = AuthNone ->
  decode_packet W o st from wire = (st', out) ->
  st' = st /\ not_routed (o_verdict out).
Proof. exact unauthentic_frame. Qed.
Print Assumptions C03_unauthentic_frame.

Theorem C03_reject_frame :
  forall (W : world) (o : oracle) (st : pstate) (from : addr) (wire : list N)
         (st' : pstate) (out : outcome),
  (length (st_sessions st) <= MAX_SESSIONS)%nat ->
  decode_packet W o st from wire = (st', out) ->
  not_routed (o_verdict out) ->
  st_sessions st' = st_sessions st.
Proof. exact reject_frame. Qed.
Print Assumptions C03_reject_frame.

Theorem C03_routed_frame :
  forall (W : world) (o : oracle) (st : pstate) (from : addr) (wire : list N)
         (st' : pstate) (out : outcome) (i : nat) (r : res bool) (s : psess),
  decode_packet W o st from wire = (st', out) ->
  o_verdict out = Routed i r ->
  find_sess (st_sessions st) from (o_plain out) = Some (i, s) ->
  (forall j, j <> i -> nth_error (st_sessions st') j = nth_error (st_sessions st) j) /\
  (exists s', nth_error (st_sessions st') i = Some s' /\ same_ident s s') /\
  length (st_sessions st') = length (st_sessions st) /\
  st_groups st' = st_groups st /\
  (group_sender s (o_plain out) = None -> st_gstore st' = st_gstore st).
Proof. exact routed_frame. Qed.
Print Assumptions C03_routed_frame.

Theorem C03_replay_frame :
  forall (W : world) (o : oracle) (st : pstate) (from : addr) (wire : list N)
         (st' : pstate) (out : outcome) (i : nat) (r : res bool) (s : psess),
  decode_packet W o st from wire = (st', out) ->
  o_verdict out = Routed i r ->
  find_sess (st_sessions st) from (o_plain out) = Some (i, s) ->
  group_sender s (o_plain out) = None ->
  snd (post_recv (ps_win s) (p_ctr (o_plain out)) (mode_enc (ps_mode s)) false) = false ->
  st' = st /\ r = Err ERR_DUPLICATE.
Proof. exact replay_frame. Qed.
Print Assumptions C03_replay_frame.

(** * Altered, foreign or redirected datagrams are rejected *)

Theorem C03_forged_rejected :
  forall (W : world) (o : oracle) (st : pstate) (from : addr) (wire : list N)
         (st' : pstate) (out : outcome),
  bytes wire ->
  ~ In wire (honest_packets W) ->
  (forall p rest, plain_decode wire = Ok (p, rest) -> plain_encrypted p = true) ->
  decode_packet W o st from wire = (st', out) ->
  st' = st /\ not_routed (o_verdict out).
Proof. exact forged_rejected. Qed.
Print Assumptions C03_forged_rejected.

Theorem C03_mismatch_rejected :
  forall (W : world) (o : oracle) (st : pstate) (from : addr) (wire : list N)
         (st' : pstate) (out : outcome) (p : plain_hdr) (rest : list N) (i : nat) (s : psess)
         (k : N) (n a pt : list N),
  ct_unique W -> bytes wire ->
  plain_decode wire = Ok (p, rest) ->
  In (Aead k n a pt, rest) W ->
  find_sess (st_sessions st) from p = Some (i, s) -> mode_enc (ps_mode s) = true ->
  k <> ps_dec_key s \/ n <> nonce (p_sec p) (p_ctr p) (node_or0 (ps_peer_node s)) \/
    a <> plain_encode p ->
  decode_packet W o st from wire = (st', out) ->
  st' = st /\ not_routed (o_verdict out).
Proof. exact mismatch_rejected. Qed.
Print Assumptions C03_mismatch_rejected.

Theorem C03_cross_session_rejected :
  forall (W : world) (o : oracle) (st : pstate) (from : addr) (wire : list N)
         (st' : pstate) (out : outcome) (p : plain_hdr) (rest : list N) (i : nat) (s : psess)
         (k : N) (n a pt : list N),
  ct_unique W -> bytes wire -> plain_decode wire = Ok (p, rest) ->
  In (Aead k n a pt, rest) W ->
  find_sess (st_sessions st) from p = Some (i, s) -> mode_enc (ps_mode s) = true ->
  k <> ps_dec_key s ->
  decode_packet W o st from wire = (st', out) ->
  st' = st /\ not_routed (o_verdict out).
Proof. exact cross_session_rejected. Qed.
Print Assumptions C03_cross_session_rejected.

Theorem C03_other_source_node_rejected :
  forall (W : world) (o : oracle) (st : pstate) (from : addr) (wire : list N)
         (st' : pstate) (out : outcome) (p : plain_hdr) (rest : list N) (i : nat) (s : psess)
         (k node : N) (a pt : list N),
  ct_unique W -> bytes wire -> plain_decode wire = Ok (p, rest) ->
  In (Aead k (nonce (p_sec p) (p_ctr p) node) a pt, rest) W ->
  find_sess (st_sessions st) from p = Some (i, s) -> mode_enc (ps_mode s) = true ->
  node < two64 -> node_or0 (ps_peer_node s) < two64 -> node <> node_or0 (ps_peer_node s) ->
  decode_packet W o st from wire = (st', out) ->
  st' = st /\ not_routed (o_verdict out).
Proof. exact other_source_node_rejected. Qed.
Print Assumptions C03_other_source_node_rejected.

Theorem C03_header_tamper_rejected :
  forall (W : world) (o : oracle) (st : pstate) (from : addr) (wire : list N)
         (st' : pstate) (out : outcome) (p : plain_hdr) (rest : list N) (i : nat) (s : psess)
         (k : N) (n : list N) (p0 : plain_hdr) (pt : list N),
  ct_unique W -> bytes wire -> plain_decode wire = Ok (p, rest) ->
  In (Aead k n (plain_encode p0) pt, rest) W -> plain_wf p0 = true -> p0 <> p ->
  find_sess (st_sessions st) from p = Some (i, s) -> mode_enc (ps_mode s) = true ->
  decode_packet W o st from wire = (st', out) ->
  st' = st /\ not_routed (o_verdict out).
Proof. exact header_tamper_rejected. Qed.
Print Assumptions C03_header_tamper_rejected.

(** * Associated data and nonce *)

Theorem C03_aad_covers_header :
  forall (p1 p2 : plain_hdr) (r1 r2 : list N),
  plain_wf p1 = true -> plain_wf p2 = true -> p1 <> p2 ->
  plain_encode p1 ++ r1 <> plain_encode p2 ++ r2.
Proof. exact aad_covers_header. Qed.
Print Assumptions C03_aad_covers_header.

Theorem C03_aad_is_header :
  forall (wire : list N) (p : plain_hdr) (rest : list N),
  bytes wire -> plain_decode wire = Ok (p, rest) ->
  consumed wire rest = plain_encode p /\ wire = plain_encode p ++ rest.
Proof. exact aad_is_header. Qed.
Print Assumptions C03_aad_is_header.

Theorem C03_nonce_injective :
  forall sf ctr node sf' ctr' node' : N,
  sf < 256 -> sf' < 256 -> ctr < two32 -> ctr' < two32 -> node < two64 -> node' < two64 ->
  nonce sf ctr node = nonce sf' ctr' node' -> sf = sf' /\ ctr = ctr' /\ node = node'.
Proof. exact nonce_inj. Qed.
Print Assumptions C03_nonce_injective.

(** * What one end encodes the other end decodes *)

Theorem C03_encode_decode_roundtrip :
  forall (W : world) (o : oracle) (s : psess) (stB : pstate) (from : addr) (i : nat)
         (r : psess) (p : plain_hdr) (x : proto_hdr) (payload wire : list N),
  world_functional W ->
  plain_wf p = true -> proto_wf x = true ->
  mode_enc (ps_mode s) = true -> mode_enc (ps_mode r) = true ->
  ps_dec_key r = ps_enc_key s -> node_or0 (ps_peer_node r) = ps_local_node s ->
  session_encode W s p x payload = Ok wire ->
  find_sess (st_sessions stB) from p = Some (i, r) ->
  decode_packet W o stB from wire =
    route_existing stB i r p (adjust_rel (addr_reliable (ps_addr r)) x) payload.
Proof. exact encode_decode_roundtrip. Qed.
Print Assumptions C03_encode_decode_roundtrip.

Theorem C03_roundtrip :
  forall (W : world) (o : oracle) (s : psess) (gctr sai : option N) (x : proto_hdr)
         (payload : list N) (s' : psess) (p : plain_hdr) (x' : proto_hdr) (wire : list N)
         (stB : pstate) (from : addr) (i : nat) (r : psess),
  world_functional W ->
  psess_wf s -> proto_wf (adjust_rel (addr_reliable (ps_addr s)) x) = true ->
  mirrored s r from ->
  nth_error (st_sessions stB) i = Some r ->
  (forall j t, (j < i)%nat -> nth_error (st_sessions stB) j = Some t ->
               is_for_rx t from (mkPlain 0 (ps_peer_sid s) 0 (ps_msg_ctr s) 0 0) = false) ->
  pre_send s None gctr sai x = (s', Ok (p, x')) ->
  session_encode W s' p x' payload = Ok wire ->
  decode_packet W o stB from wire =
    route_existing stB i r p (adjust_rel (addr_reliable (ps_addr r)) x') payload.
Proof. exact roundtrip. Qed.
Print Assumptions C03_roundtrip.

Theorem C03_group_encode_auth :
  forall (W : world) (s : psess) (stB : pstate) (from : addr) (c : gcand) (others : list gcand)
         (p : plain_hdr) (x : proto_hdr) (payload wire : list N),
  world_functional W ->
  plain_wf p = true -> proto_wf x = true ->
  mode_enc (ps_mode s) = true ->
  session_encode W s p x payload = Ok wire ->
  find_sess (st_sessions stB) from p = None ->
  plain_group p = true -> plain_get_src p = Some (ps_local_node s) ->
  is_none (plain_get_dst_groupcast p) && is_none (plain_get_dst_unicast p) = false ->
  (length wire - length (plain_encode p) <= 1280)%nat ->
  group_cands stB p = c :: others -> gc_key c = ps_enc_key s ->
  auth_check W stB from wire = AuthGroup c p (adjust_rel (addr_reliable from) x) payload.
Proof. exact group_encode_auth. Qed.
Print Assumptions C03_group_encode_auth.

(** * A group data message on its sender's living session still passes the group counter store *)

Theorem C03_group_replay_rejected :
  forall (W : world) (o : oracle) (st : pstate) (from : addr) (wire : list N) (i : nat)
         (p : plain_hdr) (x : proto_hdr) (payload : list N) (s : psess) (fab src : N),
  auth_check W st from wire = AuthSession i p x payload ->
  find_sess (st_sessions st) from p = Some (i, s) ->
  group_sender s p = Some (fab, src) ->
  snd (g_post_recv (st_gstore st) fab src (p_ctr p)) = false ->
  o_verdict (snd (decode_packet W o st from wire)) = RejGroupDup /\
  st_sessions (fst (decode_packet W o st from wire)) = st_sessions st.
Proof. exact group_replay_rejected. Qed.
Print Assumptions C03_group_replay_rejected.

(** * The monitor run on the implementation *)

Theorem C03_monitor_delivered :
  forall (W : world) (st : pstate) (from : addr) (wire : list N) (ob : observation) (b : bool),
  mon_decode W st from wire ob = true -> ob_ok ob = Some b ->
  auth_check W st from wire <> AuthNone.
Proof. exact mon_decode_delivered. Qed.
Print Assumptions C03_monitor_delivered.

Theorem C03_monitor_frame :
  forall (W : world) (st : pstate) (from : addr) (wire : list N) (ob : observation),
  mon_decode W st from wire ob = true -> auth_check W st from wire = AuthNone ->
  ob_ok ob = None /\ ob_changed ob = [] /\ ob_ident_changed ob = false /\ ob_added ob = O /\
  ob_gstore_changed ob = false.
Proof. exact mon_decode_frame. Qed.
Print Assumptions C03_monitor_frame.

Theorem C03_monitor_sound :
  forall (W : world) (st : pstate) (from : addr) (wire : list N) (ob : observation) (b : bool)
         (i : nat) (p : plain_hdr) (x : proto_hdr) (payload : list N),
  bytes wire ->
  mon_decode W st from wire ob = true -> ob_ok ob = Some b ->
  auth_check W st from wire = AuthSession i p x payload ->
  ob_plain ob = p /\ ob_proto ob = x /\ ob_payload ob = payload /\
  exists s rest pt x0,
    find_sess (st_sessions st) from p = Some (i, s) /\ wire = plain_encode p ++ rest /\
    proto_decode pt = Ok (x0, payload) /\ x = adjust_rel (addr_reliable (ps_addr s)) x0 /\
    (if mode_enc (ps_mode s) then authentic W s p pt rest else pt = rest).
Proof. exact mon_decode_sound. Qed.
Print Assumptions C03_monitor_sound.

(** * Non-vacuity: a CASE session pair, one sealed message *)

Definition ex_addrA : addr := mkAddr 0 false 167772161 5541.
Definition ex_addrB : addr := mkAddr 0 false 167772162 5542.
(** sender end at node 100, receiver end at node 200 *)
Definition ex_s : psess :=
  mkPS 0 ex_addrB 100 (Some 200) 12 11 9 7 1000 rx_unsynced (MCase 1) [] false false.
Definition ex_r : psess :=
  mkPS 0 ex_addrA 200 (Some 100) 11 12 7 9 5000 rx_unsynced (MCase 1) [] false false.
Definition ex_x : proto_hdr := mkProto 5 5 1 2 0 0.
Definition ex_payload : list N := [1; 2; 3].
Definition ex_ct : list N :=
  [170; 187; 204; 1; 2; 3; 4; 5; 6; 7; 8; 9; 10; 11; 12; 13; 14; 15; 16; 17; 18; 19; 20; 21; 22].
Definition ex_p : plain_hdr := mkPlain 0 7 0 1000 0 0.
Definition ex_s' : psess := set_msg_ctr ex_s 1001.
Definition ex_W : world := [(sealed_term ex_s' ex_p ex_x ex_payload, ex_ct)].
Definition ex_st : pstate := mkSt [ex_r] [] gstore_new 1.
Definition ex_wire : list N := plain_encode ex_p ++ ex_ct.

Example C03_ex_pre_send : pre_send ex_s None None None ex_x = (ex_s', Ok (ex_p, ex_x)).
Proof. vm_compute. reflexivity. Qed.

Example C03_ex_encode : session_encode ex_W ex_s' ex_p ex_x ex_payload = Ok ex_wire.
Proof. vm_compute. reflexivity. Qed.

Example C03_ex_mirrored : mirrored ex_s ex_r ex_addrA.
Proof. unfold mirrored. repeat split; try reflexivity. discriminate. Qed.

(** delivered to the receiver's session with the fields that were sent *)
Example C03_ex_accept :
  let '(st', out) := decode_packet ex_W (mkOr 0 None) ex_st ex_addrA ex_wire in
  o_verdict out = Routed 0 (Ok true) /\ o_plain out = ex_p /\ o_proto out = ex_x /\
  o_payload out = ex_payload /\ st' <> ex_st.
Proof. vm_compute. repeat split; try reflexivity. discriminate. Qed.

(** one header bit flipped (counter 1000 -> 1001): rejected, state untouched *)
Example C03_ex_header_flip :
  decode_packet ex_W (mkOr 0 None) ex_st ex_addrA (plain_encode (mkPlain 0 7 0 1001 0 0) ++ ex_ct)
  = (ex_st, rej RejAuth (mkPlain 0 7 0 1001 0 0)).
Proof. vm_compute. reflexivity. Qed.

(** offered to the sender's own session (opposite direction): rejected *)
Example C03_ex_opposite_direction :
  let stA := mkSt [ex_s'] [] gstore_new 1 in
  decode_packet ex_W (mkOr 0 None) stA ex_addrB (plain_encode (mkPlain 0 9 0 1000 0 0) ++ ex_ct)
  = (stA, rej RejAuth (mkPlain 0 9 0 1000 0 0)).
Proof. vm_compute. reflexivity. Qed.

(** from another address: no session *)
Example C03_ex_other_address :
  decode_packet ex_W (mkOr 0 None) ex_st ex_addrB ex_wire = (ex_st, rej RejNoSession ex_p).
Proof. vm_compute. reflexivity. Qed.

(** the hypotheses of the rejection corollaries are satisfiable *)
Example C03_ex_world_ok : ct_unique ex_W /\ world_functional ex_W.
Proof.
  split.
  - intros t1 t2 c [H1|[]] [H2|[]]. congruence.
  - intros k n a p1 p2 c [H1|[]] [H2|[]]. congruence.
Qed.

Example C03_ex_auth : auth_check ex_W ex_st ex_addrA ex_wire = AuthSession 0 ex_p ex_x ex_payload.
Proof. vm_compute. reflexivity. Qed.

(** * The group replay through a sender's ephemeral session (was a C04 defect,
    repaired by 6198879).  Before the repair, while the ephemeral receive-side
    group session of a sender existed, that sender's later group datagrams were
    judged by the SESSION's window only: a datagram whose counter the group
    counter store had already recorded (690, delivered earlier through a session
    that is gone) was delivered again when it fell into the 16 counters behind
    the newer one (700) that created the present session.  Now the store is
    consulted on that path too: [Duplicate], with or without the session. *)
Definition obs_src : N := 100.
Definition obs_c : gcand := mkGC 1 0 257 1001 24673.
Definition obs_p : plain_hdr := mkPlain 6 24673 1 690 obs_src 257.
Definition obs_x : proto_hdr := mkProto 83 1 1 8 0 0.
Definition obs_ct : list N := [1;1;2;3;5;8;13;21;34;55;89;144;233;1;2;3;4;5;6;7;8;9;10].
Definition obs_W : world :=
  [(Aead 1001 (nonce 1 690 obs_src) (plain_encode obs_p) (proto_encode obs_x ++ [7]), obs_ct)].
Definition obs_store : gstore := mkGS [mkGE 1 obs_src (mkRx true 700 512) 2] 2.
Definition obs_sess : psess :=
  mkPS 5 ex_addrA 0 (Some obs_src) 1001 1001 24673 24673 0 (mkRx true 700 0) (MGroup 1 257) []
       false false.

(** what the code did before the repair: [post_recv] straight after
    authentication - the session's window takes 690 although the store knows it *)
Example C03_obs_group_replay_before_fix :
  o_verdict (snd (route (mkSt [obs_sess] [obs_c] obs_store 6) 0 obs_sess obs_p obs_x [7]))
    = Routed 0 (Ok true) /\
  snd (g_post_recv obs_store 1 obs_src 690) = false.
Proof. vm_compute. split; reflexivity. Qed.

(** the repaired code *)
Example C03_obs_group_replay_through_session :
  o_verdict (snd (decode_packet obs_W (mkOr 0 None) (mkSt [obs_sess] [obs_c] obs_store 6) ex_addrA
                                (plain_encode obs_p ++ obs_ct))) = RejGroupDup /\
  st_sessions (fst (decode_packet obs_W (mkOr 0 None) (mkSt [obs_sess] [obs_c] obs_store 6) ex_addrA
                                  (plain_encode obs_p ++ obs_ct))) = [obs_sess].
Proof. vm_compute. split; reflexivity. Qed.

Example C03_obs_group_replay_without_session :
  o_verdict (snd (decode_packet obs_W (mkOr 0 None) (mkSt [] [obs_c] obs_store 6) ex_addrA
                                (plain_encode obs_p ++ obs_ct))) = RejGroupDup.
Proof. vm_compute. reflexivity. Qed.

(** a groupcast message naming another group is not looked up to a living group
    session of that sender, even if it shares the session's key and session id
    (repair a2da8bb; before it the session labelled 257 took it) *)
Example C03_obs_other_group_not_matched :
  is_for_rx obs_sess ex_addrA (mkPlain 6 24673 1 702 obs_src 258) = false /\
  is_for_rx obs_sess ex_addrA (mkPlain 6 24673 1 702 obs_src 257) = true /\
  (* a unicast-addressed group control message names no group and still matches *)
  is_for_rx obs_sess ex_addrA (mkPlain 5 24673 65 702 obs_src 0) = true.
Proof. vm_compute. repeat split. Qed.
