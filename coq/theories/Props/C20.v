(** Property C20 -- unfinished or hostile handshakes cannot leak or exhaust
    node resources for good.  Property theorems only.

    Models: Model/Slots.v.  Layer 1 = the session table (capacity [cap], any
    value), exchange slots ([mx] per session) and the ghost multiset of live
    [ReservedSession] handles, driven by arbitrary sequences [list op] of the
    operations the code offers; layer 2 = a node answering PASE / CASE
    handshakes, driven by arbitrary sequences [list nop] (first messages,
    handlers advancing, failing or being cancelled at any await, accept
    time-outs, sweeper, purges, evictions, application exchanges); the mDNS
    rendezvous, driven by arbitrary [list rop].  The bound on the length of a
    run keeps the 28-bit unique-id cursor from wrapping (the code never checks
    an id for reuse). *)
From RsM Require Import Lib.MachInt Model.Slots Model.SlotsSpec Proofs.SlotsFacts Proofs.SlotsInv
  Proofs.SlotsStep Proofs.SlotsEvict Proofs.SlotsRdv Proofs.SlotsNode Proofs.SlotsOwn Proofs.SlotsExch
  Proofs.SlotsExchNode Proofs.SlotsSweep Proofs.SlotsProbe Proofs.SlotsTheorems.
From Coq Require Import Permutation.
Open Scope N_scope.

(** In every reachable state: unique ids, capacity respected, a slot is
    reserved exactly when a live handle owns it, and the number of reserved
    slots equals the number of live handles whose slot still exists. *)
Theorem C20_reserved_matches_handles : forall (cap mx : nat) (ops : list op),
  2 * N.of_nat (length ops) <= UID_MAX ->
  let s := run cap mx st_init ops in
  NoDup (ids (tb s)) /\ NoDup (hids s) /\ (length (t_sess (tb s)) <= cap)%nat /\
  (forall x, In x (t_sess (tb s)) -> (s_reserved x = true <-> In (s_id x) (hids s))) /\
  n_reserved (tb s) = n_present_handles s.
Proof. exact reserved_matches_handles. Qed.
Print Assumptions C20_reserved_matches_handles.

(** Node level: every reserved slot is held by a handshake handler that is
    still running (an attempt past its accept). *)
Theorem C20_reserved_owned_by_live_handler : forall (cap mx : nat) (ops : list nop),
  8 * N.of_nat (length ops) <= UID_MAX ->
  let n := nrun cap mx node_init ops in
  (forall x, In x (t_sess (tb (core n))) -> s_reserved x = true ->
     exists a, In a (atts n) /\ a_h a = Some (s_id x) /\ a_stage a <> 0) /\
  n_reserved (tb (core n)) = n_present_handles (core n).
Proof. exact node_handles_owned. Qed.
Print Assumptions C20_reserved_owned_by_live_handler.

(** Quiescence: once every handshake handler has finished, failed or been
    cancelled (at whatever await point), no handle and no reserved slot is left. *)
Theorem C20_quiescent_clean : forall (cap mx : nat) (ops : list nop),
  8 * N.of_nat (length ops) <= UID_MAX ->
  let n := nrun cap mx node_init ops in
  atts n = [] ->
  hs (core n) = [] /\ (forall x, In x (t_sess (tb (core n))) -> s_reserved x = false) /\
  n_reserved (tb (core n)) = 0.
Proof. exact quiescent_no_reserved. Qed.
Print Assumptions C20_quiescent_clean.

(** Every in-use exchange slot (owned or waiting to be accepted) of an unsecured session
    belongs to a handshake attempt whose handler has not ended; "waiting to be accepted"
    exactly for attempts no handler has taken yet. *)
Theorem C20_exchange_slots_owned : forall (cap mx : nat) (ops : list nop),
  8 * N.of_nat (length ops) <= UID_MAX ->
  let n := nrun cap mx node_init ops in
  forall sid xi v, slot_live (Some v) = true -> lslot (nl n) sid xi v ->
    exists a, In a (atts n) /\ a_sess a = sid /\ a_xi a = xi /\ (a_stage a = 0 <-> v = XPending).
Proof. exact exchange_slots_owned. Qed.
Print Assumptions C20_exchange_slots_owned.

(** Termination measure of the sweeper: with a dropped exchange slot left, one sweep
    strictly decreases their number. *)
Theorem C20_sweep_decreases : forall (cap mx : nat) (s : st) (now : N),
  NoDup (ids (tb s)) -> (0 < dcount (t_sess (tb s)))%nat ->
  (dcount (after_sweep cap mx s now) < dcount (t_sess (tb s)))%nat.
Proof. exact sweep_decreases. Qed.
Print Assumptions C20_sweep_decreases.

(** Complete quiescence: after ANY run, once every handshake handler has finished, failed or
    been cancelled and the application holds no exchange on its established sessions, [k]
    sweeps ([k] at least the number of dropped slots) leave no reserved slot and no exchange
    slot in use: every session left is an idle one. *)
Theorem C20_quiescent_all_slots_free : forall (cap mx : nat) (ops : list nop) (k : nat) (now : N),
  8 * N.of_nat (length ops + k) <= UID_MAX ->
  let n := nrun cap mx node_init ops in
  atts n = [] -> app_closed (nl n) -> (dcount (nl n) <= k)%nat ->
  let n' := sweeps cap mx k now n in
  forall s, In s (nl n') -> s_reserved s = false /\ forall e, In e (s_exch s) -> e = None.
Proof. exact quiescent_clean_full. Qed.
Print Assumptions C20_quiescent_all_slots_free.

(** ... and whenever a dropped exchange is left anywhere, the sweeper step is
    enabled and does something (fairness of the transport task is assumed). *)
Theorem C20_sweeper_enabled : forall (cap mx : nat) (s : st) (now : N) (x : session) (e : option xst),
  In x (t_sess (tb s)) -> In e (s_exch x) -> slot_dropped e = true ->
  snd (step cap mx s (OSweep now)) <> RNone.
Proof. exact sweep_enabled. Qed.
Print Assumptions C20_sweeper_enabled.

(** The eviction choice only ever names an idle session: not reserved, no
    exchange slot in use, and expired or used strictly before [now]. *)
Theorem C20_evict_only_idle : forall (now : N) (t : tbl) (i : nat),
  evict_choice now t = Some i ->
  exists x, nth_error (t_sess t) i = Some x /\ idle now x = true.
Proof. exact evict_only_idle. Qed.
Print Assumptions C20_evict_only_idle.

(** A session that is reserved or carries an exchange survives every eviction,
    the explicit one and the one inside [ReservedSession::reserve]. *)
Theorem C20_busy_sessions_survive : forall (cap mx : nat) (s : st) (now : N) (y : session),
  In y (t_sess (tb s)) -> s_reserved y = true \/ no_exch y = false ->
  In y (t_sess (tb (fst (step cap mx s (OEvict now))))) /\
  In y (t_sess (tb (fst (step cap mx s (OReserve now))))).
Proof. exact step_evict_keeps_busy. Qed.
Print Assumptions C20_busy_sessions_survive.

(** An idle session is always found when there is one; an expired idle one goes first. *)
Theorem C20_evict_complete : forall (now : N) (t : tbl) (x : session),
  In x (t_sess t) -> idle now x = true -> evict_choice now t <> None.
Proof. exact evict_complete. Qed.
Print Assumptions C20_evict_complete.

Theorem C20_evict_expired_first : forall (now : N) (t : tbl) (y : session),
  In y (t_sess t) -> cand0 y = true -> s_expired y = true ->
  exists i x, evict_choice now t = Some i /\ nth_error (t_sess t) i = Some x /\ s_expired x = true.
Proof. exact evict_expired_first. Qed.
Print Assumptions C20_evict_expired_first.

(** Recovery: in every reachable state with a free slot or an idle session,
    [ReservedSession::reserve] succeeds and yields a fresh reserved slot. *)
Theorem C20_recovers : forall (cap mx : nat) (ops : list op) (now : N),
  2 * N.of_nat (length ops) + 2 <= UID_MAX -> (0 < cap)%nat ->
  let s := run cap mx st_init ops in
  (exists x, In x (t_sess (tb s)) /\ idle now x = true) \/ (length (t_sess (tb s)) < cap)%nat ->
  exists id, snd (step cap mx s (OReserve now)) = RId id /\
    In (mkS id MPlain true false now []) (t_sess (tb (fst (step cap mx s (OReserve now))))) /\
    In id (hids (fst (step cap mx s (OReserve now)))).
Proof. exact recovers. Qed.
Print Assumptions C20_recovers.

(** Outside the known class "fewer than two reclaimable slots" ([room2]: two free slots, or one
    free slot and an idle session, or two idle sessions): in every reachable state a new
    handshake (first message, repeated once after Busy) gets its unsecured session, and its
    handler's reserve succeeds (for PASE: unless another PASE is in progress). *)
Theorem C20_handshake_gets_both_slots : forall (cap mx : nat) (ops : list nop) (k : hkind) (now : N),
  8 * N.of_nat (length ops) + 24 <= UID_MAX ->
  let n := nrun cap mx node_init ops in
  room2 cap now (nl n) ->
  (k = HPase -> marker_live now (marker n) = None) ->
  exists n1 a, first_msg cap mx k now n = (n1, Some a) /\
               snd (nstep cap mx n1 (NAccept a VGood now)) = ROk.
Proof. exact handshake_two_slots. Qed.
Print Assumptions C20_handshake_gets_both_slots.

(** The PASE in-progress marker stops refusing other initiators once its 60 s are over. *)
Theorem C20_marker_expires : forall (a o e now : N),
  e < now -> marker_check a true now (Some (o, e)) = (Some (a, now + PASE_TIMEOUT_MS), None).
Proof. exact marker_expires. Qed.
Print Assumptions C20_marker_expires.

(** Rendezvous: an occupied slot has a live requester holding an armed guard;
    its time-out or cancellation frees the slot; with no requester left the
    slot is free; at most one requester holds it. *)
Theorem C20_rendezvous_released : forall (ops : list rop) (o : N),
  let s := rrun rsys_init ops in
  owner (r_slot s) = Some o ->
  (exists r, In r (r_reqs s) /\ rq_id r = o /\ rq_phase r = PPlaced) /\
  r_slot (fst (rstep s (RTimeout o))) = RvIdle /\
  r_slot (fst (rstep s (RCancel o))) = RvIdle.
Proof. exact rdv_released. Qed.
Print Assumptions C20_rendezvous_released.

Theorem C20_rendezvous_quiescent_idle : forall (ops : list rop),
  let s := rrun rsys_init ops in r_reqs s = [] -> r_slot s = RvIdle.
Proof. exact rdv_quiescent_idle. Qed.
Print Assumptions C20_rendezvous_quiescent_idle.

Theorem C20_rendezvous_mutex : forall (ops : list rop) (r1 r2 : rreq),
  let s := rrun rsys_init ops in
  In r1 (r_reqs s) -> In r2 (r_reqs s) -> rq_phase r1 = PPlaced -> rq_phase r2 = PPlaced ->
  rq_id r1 = rq_id r2.
Proof. exact rdv_mutex. Qed.
Print Assumptions C20_rendezvous_mutex.

(** A deposit on a free slot, on a request not yet picked up, for another
    service or without an address changes nothing. *)
Theorem C20_late_deposit_noop : forall (s : rsys) (svc : N) (hasaddr : bool),
  (r_slot s = RvIdle \/ (exists o v, r_slot s = RvRequested o v) \/
   (exists o v, r_slot s = RvInFlight o v /\ (v <> svc \/ hasaddr = false))) ->
  rstep s (RDeposit svc hasaddr) = (s, RNone).
Proof. exact rdv_late_deposit_noop. Qed.
Print Assumptions C20_late_deposit_noop.

(** * Non-vacuity *)

(* table of 3 full with one idle session: reserve evicts it and succeeds *)
Example ex_recover :
  snd (step 3 5 (run 3 5 st_init [OAdd 1; OAdd 2; OAdd 3; OExAdd 0 false 4; OExAdd 1 false 5]) (OReserve 9)) = RId 4.
Proof. vm_compute. reflexivity. Qed.

(* ... and refuses when every session carries an exchange *)
Example ex_no_idle :
  snd (step 3 5 (run 3 5 st_init [OAdd 1; OAdd 2; OAdd 3; OExAdd 0 false 4; OExAdd 1 false 5; OExAdd 2 true 6]) (OReserve 9)) = RErr E_NOSPACE.
Proof. vm_compute. reflexivity. Qed.

(* a PASE handshake abandoned after Pake1, then a complete one: one established session, nothing reserved *)
Example ex_abandon_then_complete :
  let n := nrun 3 5 node_init
    [NRx HPase 1; NAccept 0 VGood 2; NMsg 0 VGood 3; NFail 0 false 4;
     NRx HPase 5; NAccept 1 VGood 6; NMsg 1 VGood 7; NMsg 1 VGood 8; NAck 1 9] in
  atts n = [] /\ n_reserved (tb (core n)) = 0 /\ marker n = None /\
  map s_mode (t_sess (tb (core n))) = [MPlain; MPlain; MPase].
Proof. vm_compute. repeat split; reflexivity. Qed.

(* the repaired panic: a completed handle whose slot was purged is dropped without effect *)
Example ex_purged_then_dropped :
  run 3 5 st_init [OReserveNow 1; OUpdate 0 MPase 2; OComplete 0; ORemovePase None; ODropH 0 3]
  = mkSt (mkT [] 1) [].
Proof. vm_compute. reflexivity. Qed.

(* a second initiator is answered Busy while the marker is live, and accepted after 60 s *)
Example ex_marker :
  snd (nstep 8 5 (nrun 8 5 node_init [NRx HPase 1; NAccept 0 VGood 2; NRx HPase 3]) (NAccept 1 VGood 4)) = RErr E_BUSY /\
  snd (nstep 8 5 (nrun 8 5 node_init [NRx HPase 1; NAccept 0 VGood 2; NCancel 0 false 3; NRx HPase 4]) (NAccept 1 VGood 60003)) = ROk.
Proof. vm_compute. split; reflexivity. Qed.

(* rendezvous: request, pick-up, time-out, late deposit *)
Example ex_rdv :
  r_slot (rrun rsys_init [RStart 7; RPoll 0; RPick; RTimeout 0; RDeposit 7 true]) = RvIdle.
Proof. vm_compute. reflexivity. Qed.

(* a whole responder-side handshake needs TWO slots: with a table of 3, two established sessions that
   carry an exchange and one reclaimable session, the first message is answered Busy (and the idle
   session evicted), the retry is taken, and the handler's reserve fails; nothing is leaked *)
Example ex_one_reclaimable_slot_is_not_enough :
  let pre := [NRx HCase 1; NAccept 0 VGood 2; NMsg 0 VGood 3; NAck 0 4;
              NRx HCase 5; NAccept 1 VGood 6; NMsg 1 VGood 7; NAck 1 8;
              NAppOpen 1 9; NAppOpen 4 10] in
  map s_mode (t_sess (tb (core (nrun 3 5 node_init pre)))) = [MPlain; MCase; MCase] /\
  snd (nstep 3 5 (nrun 3 5 node_init pre) (NRx HCase 11)) = RErr E_BUSY /\
  snd (nstep 3 5 (nrun 3 5 node_init (pre ++ [NRx HCase 11])) (NRx HCase 12)) = RId 2 /\
  snd (nstep 3 5 (nrun 3 5 node_init (pre ++ [NRx HCase 11; NRx HCase 12])) (NAccept 2 VGood 13)) = RErr E_NOSPACE /\
  let n := nrun 3 5 node_init (pre ++ [NRx HCase 11; NRx HCase 12; NAccept 2 VGood 13]) in
  atts n = [] /\ n_reserved (tb (core n)) = 0.
Proof. vm_compute. repeat split; reflexivity. Qed.

(* the receive path: the sixth exchange on a session closes it *)
Example ex_rx_closes_session :
  snd (step 3 5 (run 3 5 st_init [OAdd 1; ORxExch 0 2; ORxExch 0 3; ORxExch 0 4; ORxExch 0 5; ORxExch 0 6]) (ORxExch 0 7)) = RId 0.
Proof. vm_compute. reflexivity. Qed.

(* remove_for_fabric purges a reserved slot too; its completed handle is then dropped without effect *)
Example ex_fabric_purge :
  run 3 5 st_init [OReserveNow 1; OUpdate 0 MCase 2; OComplete 0; ORemoveSet [0] None; ODropH 0 3] = mkSt (mkT [] 1) [].
Proof. vm_compute. reflexivity. Qed.

(* a handler gone with its last message unacknowledged, the acknowledgement arrives before the
   sweeper: the slot is Dropped with nothing pending, and one sweep still frees it *)
Example ex_acked_after_drop_is_swept :
  let s := run 3 5 st_init [OAdd 1; OExAdd 0 false 2; OExDrop 0 0 true false 3; OExAcked 0 0 4] in
  map s_exch (t_sess (tb s)) = [[Some XDropAck]] /\
  map s_exch (t_sess (tb (fst (step 3 5 s (OSweep 5))))) = [[None]].
Proof. vm_compute. split; reflexivity. Qed.
