(** Property C13 — a subscriber eventually learns every change it subscribed
    to.  Property theorems only; the model is Model/Subs.v (the repaired
    [purge_reported_changes] and [is_expired]), [run init ops] ranges over every
    interleaving of attribute changes, events, subscribe/priming steps, report
    steps, purges, removals, expiry sweeps, persisting and restarts. *)
From RsM Require Import Lib.MachInt Model.Subs Model.SubsSpec
  Proofs.SubsFacts Proofs.SubsInv Proofs.SubsTiming Proofs.SubsTheorems Proofs.SubsSlot
  Model.C13Events Proofs.C13EventsFacts.
Open Scope N_scope.

(** No lost change: for every subscription kept in the table and every
    attribute path it subscribed to, if the attribute changed after the value
    last delivered to that subscriber was read (or nothing was delivered yet),
    then either the subscription is un-primed (its next report sends
    everything) or the change table holds an entry covering the path with an id
    above the subscription's watermark. *)
Theorem C13_no_lost_change : forall ops,
  N.of_nat (length ops) + 2 < two64 ->
  forall s p, In s (subs (run init ops)) -> In p (s_paths s) ->
    stale (log (run init ops)) (s_del s) p = true ->
    unprimed s = true \/ contains_since (tab (run init ops)) p (s_seen s) = true.
Proof. exact no_lost_change. Qed.
Print Assumptions C13_no_lost_change.

(** ... hence it is selected by [report] as soon as the minimum interval / back-off allow. *)
Theorem C13_stale_is_reportable : forall ops,
  N.of_nat (length ops) + 2 < two64 ->
  forall s p, In s (subs (run init ops)) -> In p (s_paths s) ->
    stale (log (run init ops)) (s_del s) p = true ->
    forall now evw, report_allowed_at s <= now ->
      is_reportable s now (tab (run init ops)) evw = true.
Proof. exact stale_is_reportable. Qed.
Print Assumptions C13_stale_is_reportable.

(** While a report (or the priming) for a subscription is running, a path that
    is stale at the subscriber is emitted when the report reaches it. *)
Theorem C13_no_lost_change_in_flight : forall ops,
  N.of_nat (length ops) + 2 < two64 ->
  forall x p, In x (ctxs (run init ops)) -> In p (s_paths (x_sub x)) ->
    stale (log (run init ops)) (s_del (x_sub x)) p = true ->
    should_report (tab (run init ops)) x p = true.
Proof. exact no_lost_change_in_flight. Qed.
Print Assumptions C13_no_lost_change_in_flight.

(** The whole invariant in its executable form: this is the function the
    monitor evaluates on the implementation's snapshots. *)
Theorem C13_invariant : forall ops,
  N.of_nat (length ops) + 2 < two64 -> inv_b (run init ops) = true.
Proof. exact invariant_holds. Qed.
Print Assumptions C13_invariant.

(** Events: an event numbered above what was delivered makes the subscription reportable. *)
Theorem C13_undelivered_event_is_reportable : forall ops,
  N.of_nat (length ops) + 2 < two64 ->
  forall s n, In s (subs (run init ops)) -> s_dev s < n ->
    forall now evw, n <= evw -> report_allowed_at s <= now ->
      is_reportable s now (tab (run init ops)) evw = true.
Proof. exact undelivered_event_is_reportable. Qed.
Print Assumptions C13_undelivered_event_is_reportable.

(** The code before the repair (purge takes the minimum over the table only):
    a change recorded while a subscription is priming is purged, the
    invariant is false, the subscription is neither reportable nor would its
    report carry the attribute. *)
Theorem C13_unfixed_purge_refuted :
  exists ops, inv_b (run_gen false true true init ops) = false /\ inv_b (run init ops) = true /\
    let st := run_gen false true true init ops in
    existsb (fun s => stale (log st) (s_del s) f7_path && negb (unprimed s) &&
                      negb (is_reportable s 20000 (tab st) (evn st)) &&
                      negb (contains_since (tab st) f7_path (s_seen s))) (subs st) = true.
Proof. exact unfixed_purge_loses_a_change. Qed.
Print Assumptions C13_unfixed_purge_refuted.

(** A failed report advances nothing: the subscription goes back with the
    same watermarks, last-success time and delivered state, the table is
    untouched, and the retry decides every path as the failed report did. *)
Theorem C13_retry_same_content : forall st sid x,
  find_ctx sid (ctxs st) = Some x -> cancelled st = false ->
  let st' := fst (step st (OCtxEnd sid EFail)) in
  let s' := sub_after_fail x in
  tab st' = tab st /\ subs st' = subs st ++ [s'] /\
  s_id s' = s_id (x_sub x) /\ s_seen s' = s_seen (x_sub x) /\ s_seen_ev s' = s_seen_ev (x_sub x) /\
  s_rep_at s' = s_rep_at (x_sub x) /\ s_del s' = s_del (x_sub x) /\
  (forall p, should_report (tab st) x p =
             should_report (tab st') (mkCtx s' false (x_nseen x) (x_nseen_ev x) (x_now x) [] []) p).
Proof. exact failed_report_same_content. Qed.
Print Assumptions C13_retry_same_content.

(** Minimum interval: whatever [report now] selects was last reported on
    successfully at least [min_int] before [now] (or never), and is past its back-off. *)
Theorem C13_min_interval : forall st now lag sid,
  snd (step st (OReportBegin now lag)) = USid (Some sid) ->
  exists s, In s (subs st) /\ s_id s = sid /\ begin_ok s now = true /\
            In (mkCtx s false (watermark (next_chg st)) (evn st - lag) now [] [])
               (ctxs (fst (step st (OReportBegin now lag)))).
Proof. exact min_interval. Qed.
Print Assumptions C13_min_interval.

(** Liveness: the reporter's own deadline for a primed subscription lies
    within the maximum interval, and at that deadline it is reportable. *)
Theorem C13_liveness_due : forall s tb evw,
  unprimed s = false -> s_min s <= s_max s ->
  s_retry_at s <= s_rep_at s + s_max s * 1000 -> s_rep_at s + s_max s * 1000 <= IMAX ->
  report_due_at s <= s_rep_at s + s_max s * 1000 /\
  next_report_at s tb evw <= s_rep_at s + s_max s * 1000 /\
  is_reportable s (next_report_at s tb evw) tb evw = true.
Proof. exact liveness_due. Qed.
Print Assumptions C13_liveness_due.

(** Back-off: capped at the maximum interval (at least 2 s), and a failure does not
    move the instant expiry is measured from. *)
Theorem C13_backoff_capped : forall x,
  x_now x + N.max (s_max (x_sub x)) 2 * 1000 <= IMAX ->
  x_now x <= s_retry_at (sub_after_fail x) <= x_now x + N.max (s_max (x_sub x)) 2 * 1000 /\
  expiry_anchor (sub_after_fail x) = expiry_anchor (x_sub x).
Proof. exact backoff_capped. Qed.
Print Assumptions C13_backoff_capped.

(** Expiry: after the reporter's sweep at [now], no subscription is left whose
    last successful report (or, if none since, its acceptance / resumption after
    a restart) lies one maximum interval or more before [now]. *)
Theorem C13_expiry : forall ops now s,
  Forall op_time_ok ops ->
  In s (subs (fst (step (run init ops) (OWake now)))) -> expiry_ok s now = true.
Proof. exact expiry. Qed.
Print Assumptions C13_expiry.

(** The in-flight slot belongs to the report context (repaired [report_complete]).  A subscribe
    request whose priming completed and was acknowledged is in the table afterwards, whatever
    report is in flight and whether or not that report has been cancelled; the slot is untouched. *)
Theorem C13_established_is_kept : forall ops sid x,
  let st := run init ops in
  find_ctx sid (ctxs st) = Some x -> x_prim x = true ->
  let st' := fst (step st (OCtxEnd sid EOk)) in
  (exists s, In s (subs st') /\ s_id s = sid) /\
  reporting st' = reporting st /\ cancelled st' = cancelled st.
Proof. exact established_is_kept. Qed.
Print Assumptions C13_established_is_kept.

(** A report that [remove] cancelled while in flight (new subscribe request of the same peer, removed
    fabric, expiry) is dropped when it completes, whatever its outcome: its id is nowhere afterwards. *)
Theorem C13_cancelled_report_is_dropped : forall ops r res,
  let st := run init ops in
  reporting st = Some r -> cancelled st = true ->
  let st' := fst (step st (OCtxEnd (s_id r) res)) in
  subs st' = subs st /\ reporting st' = None /\ cancelled st' = false /\ ~ In (s_id r) (all_ids st').
Proof. exact cancelled_report_is_dropped. Qed.
Print Assumptions C13_cancelled_report_is_dropped.

(** Before that repair ([report_complete] let any context clear the slot and take the cancellation):
    on the eight-operation witness (corpus c5) the removed subscription 1 stays and the new,
    acknowledged subscription 2 is gone; after the repair it is the other way round. *)
Theorem C13_slot_before_fix :
  ids_in_table (run_gen true false true init slot_witness) = [1] /\ ids_in_table (run init slot_witness) = [2].
Proof. exact (conj slot_before_fix slot_after_fix). Qed.
Print Assumptions C13_slot_before_fix.

(** Events (Model/C13Events.v: the three event buffers and the range filter of the reader).  For every
    sequence of pushes into buffers of any capacity: a report with event range (seen, upto] delivers
    exactly the events of that range the buffers still hold - the readers' iteration order is ascending
    in the event number, so the running watermark of the reader skips nothing. *)
Theorem C13_event_delivered_iff_retained : forall cap l seen upto n,
  N.of_nat (length l) + 3 < two64 ->
  let q := push_all cap evq_init l in
  In n (report_events q seen upto) <-> (retained q n = true /\ seen < n /\ n <= upto).
Proof. exact report_delivers_retained. Qed.
Print Assumptions C13_event_delivered_iff_retained.

(** ... hence every event above the subscriber's watermark is delivered by the next report that reaches
    it - outside the known class: the event was pushed out of the buffers before that report. *)
Theorem C13_event_delivered_unless_evicted : forall cap l seen n,
  N.of_nat (length l) + 3 < two64 ->
  let q := push_all cap evq_init l in
  seen < n -> n < q_next q -> evicted_undelivered q seen n = false ->
  In n (report_events q seen (q_next q - 1)).
Proof. exact delivered_unless_evicted. Qed.
Print Assumptions C13_event_delivered_unless_evicted.

(** The class is inhabited (buffers of 64 bytes, seven info events of 30 bytes: the first three are gone
    before any report; the subscriber is sent 4..7 and nothing tells it about 1..3). *)
Theorem C13_event_eviction_witness :
  let q := push_all 64 evq_init evict_witness in
  evicted_undelivered q 0 1 = true /\ report_events q 0 7 = [4; 5; 6; 7].
Proof. exact evicted_inhabited. Qed.
Print Assumptions C13_event_eviction_witness.

(** The liveness reference: with the repaired code an empty report that is skipped (not sent) does not
    move [reported_at]; it always is the [now] of the last report that was sent ([s_since], ghost) ... *)
Theorem C13_reported_at_is_last_sent : forall ops s,
  Forall op_time_ok ops -> In s (subs (run init ops)) -> unprimed s = false -> s_rep_at s = s_since s.
Proof. exact reported_at_is_last_sent. Qed.
Print Assumptions C13_reported_at_is_last_sent.

(** ... so the reporter's deadline lies within one maximum interval of the last report SENT, and the
    subscription is reportable (the liveness report goes out even if empty) at it. *)
Theorem C13_liveness_from_last_sent : forall ops s tb evw,
  Forall op_time_ok ops -> In s (subs (run init ops)) ->
  unprimed s = false -> s_min s <= s_max s ->
  s_retry_at s <= s_since s + s_max s * 1000 -> s_since s + s_max s * 1000 <= IMAX ->
  next_report_at s tb evw <= s_since s + s_max s * 1000 /\
  is_reportable s (next_report_at s tb evw) tb evw = true.
Proof. exact liveness_from_last_sent. Qed.
Print Assumptions C13_liveness_from_last_sent.

(** Before that repair: changes of an attribute the subscriber did not subscribe to, every 20 s (maximum
    interval 60 s): four empty reports are skipped, each moves [reported_at]; after 80 s nothing was sent
    and the liveness point lies beyond last-sent + max.  After the repair the same run sends its liveness report. *)
Theorem C13_unsent_before_fix :
  existsb (fun s => (s_since s =? 0) && (s_rep_at s =? 80000) && (s_since s + s_max s * 1000 <? report_due_at s))
          (subs (run_gen true true false init unsent_witness)) = true /\
  forallb (fun s => (s_rep_at s =? s_since s) && (report_due_at s <=? s_since s + s_max s * 1000))
          (subs (run init unsent_witness)) = true.
Proof. exact (conj unsent_before_fix (proj1 unsent_after_fix)). Qed.
Print Assumptions C13_unsent_before_fix.

(** * Non-vacuity *)

Definition ex_p : path := mkPath 0 10 1.
(** subscribe, prime, change the attribute: stale and covered, reportable after min_int *)
Definition ex_ops : list op :=
  [OSubBegin 1 100 1 60 [ex_p] 5000 0; OCtxRead 1 ex_p; OCtxEnd 1 EOk; OChange 0 10 1].

Example ex_stale_covered :
  let st := run init ex_ops in
  existsb (fun s => mem_path ex_p (s_paths s) && stale (log st) (s_del s) ex_p &&
                    negb (unprimed s) && contains_since (tab st) ex_p (s_seen s) &&
                    negb (is_reportable s 5999 (tab st) 0) && is_reportable s 6000 (tab st) 0) (subs st) = true.
Proof. vm_compute. reflexivity. Qed.

(** 17 distinct pending changes coalesce (table of 16) and still cover the first one *)
Definition ex_many : list op :=
  [OSubBegin 1 100 0 60 [ex_p] 0 0; OCtxEnd 1 EOk; OChange 0 10 1] ++
  map (fun k => OChange (1 + k / 8) (10 + (k / 4) mod 2) (k mod 4))
      [0;1;2;3;4;5;6;7;8;9;10;11;12;13;14;15] ++ [OChange 0 11 0].

Example ex_coalesced :
  let st := run init ex_many in
  (length (tab st) <=? 16)%nat = true /\ existsb (fun e => e_at e =? WILD_AT) (tab st) = true /\
  forallb (fun s => contains_since (tab st) ex_p (s_seen s)) (subs st) = true /\ inv_b st = true.
Proof. vm_compute. repeat split; reflexivity. Qed.

(** a resumed subscription whose reports keep failing is swept one maximum interval after the restart *)
Definition ex_resume : list op :=
  [OSubBegin 1 100 1 60 [ex_p] 0 0; OCtxEnd 1 EOk; OPersist; ORestart 100000 0;
   OReportBegin 100000 0; OCtxEnd 1 EFail; OReportBegin 102000 0; OCtxEnd 1 EFail].

Example ex_resumed_expires :
  (length (subs (fst (step (run init ex_resume) (OWake 159999)))) =? 1)%nat &&
  (length (subs (fst (step (run init ex_resume) (OWake 160000)))) =? 0)%nat = true.
Proof. vm_compute. reflexivity. Qed.
Example ex_resume_times_ok : Forall op_time_ok ex_resume.
Proof. unfold ex_resume. repeat constructor. Qed.

(** the hypotheses of the liveness theorem are satisfiable *)
Example ex_liveness :
  let st := run init ex_ops in
  forallb (fun s => negb (unprimed s) && (s_min s <=? s_max s) &&
                    (s_retry_at s <=? s_rep_at s + s_max s * 1000) &&
                    (s_rep_at s + s_max s * 1000 <=? IMAX) &&
                    (next_report_at s [] 0 =? 35000)) (subs st) = true.
Proof. vm_compute. reflexivity. Qed.
