(** Property C18 — BTP delivers each message intact, once and in order, or
    fails cleanly.  Property theorems only.

    Model: Model/Btp.v (btp.rs BtpInner, btp/session.rs, btp/session/packet.rs as
    repaired on branch verif-c18, all u8/u16 arithmetic checked).  Executable
    property: Model/BtpSpec.v ([mon_endpoint] for one end against arbitrary
    input, [mon_pair] for two well-behaved ends). *)
From RsM Require Import Lib.MachInt Model.Btp Model.BtpSpec
  Proofs.BtpCodec Proofs.BtpFacts Proofs.BtpHostile Proofs.BtpPair Proofs.BtpTheorems
  Proofs.BtpHandshake Proofs.BtpFresh Proofs.BtpLive Model.BtpTimed Proofs.BtpTimedFacts
  Model.BtpRing Proofs.BtpRingFacts.
Open Scope N_scope.

(** * A hostile peer: arbitrary bytes, at any time, interleaved with any local
      operation (poll, send, fetch, reset, role change), from a fresh [Btp]. *)

(** No operation panics; a fetch never fails; the k-th fetched message is the
    k-th message reassembled from the accepted segments, each being the
    concatenation of accepted payloads of exactly the declared length. *)
Theorem C18_hostile_safe : forall ops : list op,
  Forall op_ok ops -> mon_endpoint ops (snd (run inner_new ops)) = true.
Proof. exact hostile_safe. Qed.
Print Assumptions C18_hostile_safe.

Theorem C18_hostile_never_panics : forall ops : list op,
  Forall op_ok ops -> Forall (fun r => is_bad r = false) (snd (run inner_new ops)).
Proof. exact hostile_never_panics. Qed.
Print Assumptions C18_hostile_never_panics.

(** A refused segment (or handshake packet) leaves the end exactly as it was. *)
Theorem C18_refused_changes_nothing : forall (i : inner) (g : option N) (a : N) (d : bytes) (c : N),
  snd (step i (OIn g a d)) = RErr c -> fst (step i (OIn g a d)) = i.
Proof. exact refused_changes_nothing. Qed.
Print Assumptions C18_refused_changes_nothing.

(** The header codec: what is encoded is what is decoded, whatever follows. *)
Theorem C18_header_roundtrip : forall (h : hdr) (p : bytes),
  hdr_wf h -> hdr_decode (hdr_encode h ++ p) = Ok (h, p).
Proof. exact hdr_decode_encode. Qed.
Print Assumptions C18_header_roundtrip.

(** * Two well-behaved ends, every segment size [m] and window [w] a handshake
      can agree on, every schedule of submit / poll / deliver / fetch steps and
      ACK-timer firings, any number of segments (sequence numbers wrap). *)

(** The whole executable property: nothing panics, nothing well-formed is
    refused, what one application fetches is in order exactly what the other
    handed in, and after every step the window accounting holds. *)
Theorem C18_pair_safe : forall m w : N,
  20 <= m <= 244 -> 1 <= w <= 255 -> w * m + 1234 <= RX_CAP ->
  forall (c : cfg) (ver : N) (rel : bool) (ops : list sop),
  mon_pair_est ops (snd (sys_run c (sys_established c ver m w rel) ops)) = true.
Proof. exact pair_safe. Qed.
Print Assumptions C18_pair_safe.

(** Exactly once, in order, byte-identical: the messages fetched by one
    application are a prefix of the messages BTP took from the other one. *)
Theorem C18_exactly_once_in_order : forall m w : N,
  20 <= m <= 244 -> 1 <= w <= 255 -> w * m + 1234 <= RX_CAP ->
  forall (c : cfg) (ver : N) (rel : bool) (ops : list sop),
  let rs := snd (sys_run c (sys_established c ver m w rel) ops) in
  (exists rest, submitted SA ops rs = fetched SB ops rs ++ rest) /\
  (exists rest, submitted SB ops rs = fetched SA ops rs ++ rest).
Proof.
  intros m w Hm Hw Hc c ver rel ops. apply mon_pair_in_order. right. apply pair_safe; assumption.
Qed.
Print Assumptions C18_exactly_once_in_order.

(** No step of either end panics or is refused; only an application handing in
    an empty or over-long message gets an error. *)
Theorem C18_honest_never_refused : forall m w : N,
  20 <= m <= 244 -> 1 <= w <= 255 -> w * m + 1234 <= RX_CAP ->
  forall (c : cfg) (ver : N) (rel : bool) (ops : list sop),
  Forall2 (fun o r => answer_ok o (fst (fst r))) ops
          (snd (sys_run c (sys_established c ver m w rel) ops)).
Proof.
  intros m w Hm Hw Hc c ver rel ops.
  apply (pmon_run_answers ops ps_established [] []). apply pair_safe; assumption.
Qed.
Print Assumptions C18_honest_never_refused.

(** In every reachable state, per direction: segments in flight + segments
    received and not yet acknowledged + the sender's free window never exceed
    the window, and the segments in flight fit the receiver's free window. *)
Theorem C18_window_respected : forall m w : N,
  20 <= m <= 244 -> 1 <= w <= 255 -> w * m + 1234 <= RX_CAP ->
  forall (c : cfg) (ver : N) (rel : bool) (ops : list sop),
  let s := fst (sys_run c (sys_established c ver m w rel) ops) in
  nlen (chAB s) + rack_level (recv (sess (epB s))) + slevel (send (sess (epA s))) <= w /\
  nlen (chAB s) <= rlevel (recv (sess (epB s))) /\
  nlen (chBA s) + rack_level (recv (sess (epA s))) + slevel (send (sess (epB s))) <= w /\
  nlen (chBA s) <= rlevel (recv (sess (epA s))).
Proof. exact window_respected. Qed.
Print Assumptions C18_window_respected.

(** Enabledness of the acknowledgement: in every reachable state in which an
    ACK is due (window almost full, or the ACK timer has fired) and the own send
    window is not exhausted, the next poll emits a segment carrying that ACK and
    nothing remains to be acknowledged. *)
Theorem C18_ack_enabled : forall m w : N,
  20 <= m <= 244 -> 1 <= w <= 255 -> w * m + 1234 <= RX_CAP ->
  forall (c : cfg) (ver : N) (rel : bool) (ops : list sop) (x : side) (t : bool),
  let s := fst (sys_run c (sys_established c ver m w rel) ops) in
  is_ack_due (sess (ep s x)) t = true -> 1 <= slevel (send (sess (ep s x))) ->
  exists b h p,
    snd (step (ep s x) (OOut (gatt_of c x) t POLL_CAP)) = RBytes b /\
    hdr_decode b = Ok (h, p) /\
    get_ack h = Some (rack_seq (recv (sess (ep s x)))) /\
    rack_level (recv (sess (fst (step (ep s x) (OOut (gatt_of c x) t POLL_CAP))))) = 0.
Proof. exact ack_enabled. Qed.
Print Assumptions C18_ack_enabled.

(** * The ring buffer (utils/storage/ringbuf.rs) as the real ring - buffer,
      start / end indices with wrap-around, non_empty flag - refines the byte
      queue of the BTP model: a push that fits appends, a pop takes from the
      front, len / free are those of the queue. *)
Theorem C18_ring_push_refines : forall (cap : nat) (r : ring) (data : bytes),
  (1 <= cap)%nat -> ring_wf cap r -> (length (ring_contents r) + length data <= cap)%nat ->
  ring_wf cap (ring_push cap r data) /\ ring_contents (ring_push cap r data) = ring_contents r ++ data.
Proof. intros cap r data Hc. apply ring_push_fits. exact Hc. Qed.
Print Assumptions C18_ring_push_refines.

Theorem C18_ring_pop_refines : forall (cap : nat) (r : ring) (want : nat),
  (1 <= cap)%nat -> ring_wf cap r ->
  ring_wf cap (fst (ring_pop r want)) /\
  snd (ring_pop r want) = firstn want (ring_contents r) /\
  ring_contents (fst (ring_pop r want)) = skipn want (ring_contents r).
Proof. intros cap r want Hc. apply ring_pop_spec. exact Hc. Qed.
Print Assumptions C18_ring_pop_refines.

Theorem C18_ring_len_refines : forall (cap : nat) (r : ring),
  (1 <= cap)%nat -> ring_wf cap r ->
  ring_len r = length (ring_contents r) /\ ring_free cap r = (cap - length (ring_contents r))%nat.
Proof. intros cap r Hc H. split; [eapply ring_len_contents; eassumption|apply ring_free_spec; assumption]. Qed.
Print Assumptions C18_ring_len_refines.

(** * The handshake: for every GATT MTU (or none) on both sides and both MTU
      negotiation modes, four steps from two fresh ends reach the state above,
      with a segment size and window inside the range of the theorems; and
      whatever is asked, an accepted request / response leaves usable values. *)
Theorem C18_handshake_establishes : forall (c : cfg) (rel t1 t2 : bool),
  let m := nego_mtu (gattA c) (gattB c) rel in
  let w := nego_win (gattA c) (gattB c) rel in
  fst (sys_run c (sys_fresh rel) [SPoll SA t1; SDeliver SB; SPoll SB t2; SDeliver SA])
    = sys_established c 4 m w rel /\
  20 <= m <= 244 /\ 1 <= w <= 255 /\ w * m + 1234 <= RX_CAP.
Proof. exact handshake_establishes. Qed.
Print Assumptions C18_handshake_establishes.

(** From two fresh ends, EVERY schedule - also inside the handshake: messages
    handed in before it completes, polls and fetches at any time, the responder
    sending data while its response is still in flight.  (A repeated handshake
    request cannot come from a well-behaved initiator; what it does to a
    responder is part of [C18_hostile_safe]: the windows start clean.) *)
Theorem C18_fresh_pair_safe : forall (c : cfg) (rel : bool) (ops : list sop),
  mon_pair ops (snd (sys_run c (sys_fresh rel) ops)) = true.
Proof. exact fresh_pair_safe. Qed.
Print Assumptions C18_fresh_pair_safe.

Theorem C18_fresh_exactly_once_in_order : forall (c : cfg) (rel : bool) (ops : list sop),
  let rs := snd (sys_run c (sys_fresh rel) ops) in
  (exists rest, submitted SA ops rs = fetched SB ops rs ++ rest) /\
  (exists rest, submitted SB ops rs = fetched SA ops rs ++ rest).
Proof. intros c rel ops. apply mon_pair_in_order. left. apply fresh_pair_safe. Qed.
Print Assumptions C18_fresh_exactly_once_in_order.

(** * No acknowledgement is ever lost; nothing ever gets stuck. *)

(** In every reachable state, per direction: what the sender has outstanding,
    less what the ACKs already on their way back will clear, is exactly the
    segments in flight plus the segments the receiver still remembers owing
    ([ack_level]).  (The monitor checks the receiver's half on every step:
    [ack_level] = segments taken in since the last ACK put on the wire.) *)
Theorem C18_no_lost_ack : forall m w : N,
  20 <= m <= 244 -> 1 <= w <= 255 -> w * m + 1234 <= RX_CAP ->
  forall (c : cfg) (ver : N) (rel : bool) (ops : list sop),
  let s := fst (sys_run c (sys_established c ver m w rel) ops) in
  chain_end (slast (send (sess (epA s)))) (w - slevel (send (sess (epA s)))) (acks_of (chBA s))
    = nlen (chAB s) + rack_level (recv (sess (epB s))) /\
  chain_end (slast (send (sess (epB s)))) (w - slevel (send (sess (epB s)))) (acks_of (chAB s))
    = nlen (chBA s) + rack_level (recv (sess (epA s))).
Proof. exact no_lost_ack. Qed.
Print Assumptions C18_no_lost_ack.

(** Deadlock freedom, for every window >= 1: in every reachable state some end
    can move - a packet is waiting to be delivered, a message is waiting to be
    fetched, or a poll with the ACK timer expired puts a segment on the wire. *)
Theorem C18_no_deadlock : forall m w : N,
  20 <= m <= 244 -> 1 <= w <= 255 -> w * m + 1234 <= RX_CAP ->
  forall (c : cfg) (ver : N) (rel : bool) (ops : list sop),
  let s := fst (sys_run c (sys_established c ver m w rel) ops) in
  can_move c s SA \/ can_move c s SB.
Proof. exact no_deadlock. Qed.
Print Assumptions C18_no_deadlock.

(** Where the old window-1 deadlock stands: before fix 8fd327b (the initiator did
    not owe an ACK for the handshake response) the state after a handshake on
    window 1 was stuck for every schedule - nothing handed in was ever put on the
    wire or delivered.  A liveness defect, not in the safety part of C18; the
    repaired code is covered by [C18_no_deadlock]. *)
Theorem C18_window1_deadlock_before_fix : forall (c : cfg) (ver : N) (relB : bool) (ops : list sop),
  let s0 := sys_established_noack c ver 20 1 relB in
  fetched SA ops (snd (sys_run c s0 ops)) = [] /\ fetched SB ops (snd (sys_run c s0 ops)) = [] /\
  chAB (fst (sys_run c s0 ops)) = [] /\ chBA (fst (sys_run c s0 ops)) = [].
Proof. exact window1_deadlock_before_fix. Qed.
Print Assumptions C18_window1_deadlock_before_fix.

(** * Time: the scheduler may let any amount of time pass between steps; the
      ACK timer of a poll is read off the clock (15 s), the idle time-out is 30 s. *)

(** A timed run is an untimed run of its schedule, so every theorem above holds
    for every timing. *)
Theorem C18_timed_refines : forall (c : cfg) (ops : list top) (t : tsys),
  t_sys (fst (trun c t ops)) = fst (sys_run c (t_sys t) (schedule_of c t ops)).
Proof. exact trun_projects. Qed.
Print Assumptions C18_timed_refines.

(** Whoever owes an acknowledgement has its ACK deadline running ... *)
Theorem C18_owed_ack_has_deadline : forall m w : N,
  20 <= m <= 244 -> 1 <= w <= 255 -> w * m + 1234 <= RX_CAP ->
  forall (c : cfg) (ver : N) (rel : bool) (t0 : N) (ops : list top) (x : side),
  let t := fst (trun c (tsys_established c ver m w rel t0) ops) in
  1 <= rack_level (recv (sess (ep (t_sys t) x))) -> received_at (clk_of t x) <> None.
Proof. exact owed_ack_has_deadline. Qed.
Print Assumptions C18_owed_ack_has_deadline.

(** ... and at the deadline the next poll sends it (its application has taken
    the complete messages, its own send window is not exhausted). *)
Theorem C18_ack_by_deadline : forall m w : N,
  20 <= m <= 244 -> 1 <= w <= 255 -> w * m + 1234 <= RX_CAP ->
  forall (c : cfg) (ver : N) (rel : bool) (t0 : N) (ops : list top) (x : side) (r : N),
  let t := fst (trun c (tsys_established c ver m w rel t0) ops) in
  received_at (clk_of t x) = Some r -> r + ACK_TIMEOUT <= t_now t ->
  1 <= rack_level (recv (sess (ep (t_sys t) x))) -> rmsgs (recv (sess (ep (t_sys t) x))) = 0 ->
  1 <= slevel (send (sess (ep (t_sys t) x))) ->
  exists b h p,
    snd (tstep c t (TPoll x)) = Some (RBytes b) /\ hdr_decode b = Ok (h, p) /\
    get_ack h = Some (rack_seq (recv (sess (ep (t_sys t) x)))).
Proof. exact ack_by_deadline. Qed.
Print Assumptions C18_ack_by_deadline.

Theorem C18_handshake_request_valid : forall (s : session) (g : option N) (a : N) (h : hdr) (p : bytes) (s' : session),
  process_rx_handshake_req s g a h p = Ok s' ->
  20 <= mtu s' <= 244 /\ 1 <= swin (send s') <= 255 /\
  swin (send s') * mtu s' + 1234 <= RX_CAP /\ wsize s' = swin (send s').
Proof. exact handshake_req_valid. Qed.
Print Assumptions C18_handshake_request_valid.

Theorem C18_handshake_response_valid : forall (s : session) (a : N) (h : hdr) (p : bytes) (s' : session),
  bytes_ok p -> process_rx_handshake_resp s a h p = Ok s' ->
  20 <= mtu s' <= 244 /\ 1 <= swin (send s') <= 255.
Proof. exact handshake_resp_valid. Qed.
Print Assumptions C18_handshake_response_valid.

(** * What a verdict of the two-party monitor means, for any trace (in
      particular the implementation's): delivered = prefix of submitted, no
      panic, no refusal of anything well-formed. *)
Theorem C18_monitor_sound : forall (ops : list sop) (rs : list (out * snap * snap)),
  mon_pair ops rs = true ->
  ((exists rest, submitted SA ops rs = fetched SB ops rs ++ rest) /\
   (exists rest, submitted SB ops rs = fetched SA ops rs ++ rest)) /\
  Forall2 (fun o r => answer_ok o (fst (fst r))) ops rs.
Proof.
  intros ops rs H. split; [apply mon_pair_in_order; left; exact H|].
  apply (pmon_run_answers ops ps_init [] []). exact H.
Qed.
Print Assumptions C18_monitor_sound.

(** * Non-vacuity *)

Definition c0 : cfg := mkCfg None None 10 11.
Definition c1 : cfg := mkCfg (Some 247) (Some 247) 10 11.
Definition hs_ops : list sop := [SPoll SA false; SDeliver SB; SPoll SB false; SDeliver SA].

(** the real handshake leads to the state the pair theorems start from *)
Example C18_ex_handshake_min :
  fst (sys_run c0 (sys_fresh false) hs_ops) = sys_established c0 4 20 79 false.
Proof. vm_compute. reflexivity. Qed.

Example C18_ex_handshake_max :
  fst (sys_run c1 (sys_fresh false) hs_ops) = sys_established c1 4 244 6 false.
Proof. vm_compute. reflexivity. Qed.

(** the parameter range is inhabited at both ends, and by the smallest window *)
Example C18_ex_params :
  (20 <= 20 <= 244 /\ 1 <= 79 <= 255 /\ 79 * 20 + 1234 <= RX_CAP) /\
  (20 <= 244 <= 244 /\ 1 <= 6 <= 255 /\ 6 * 244 + 1234 <= RX_CAP) /\
  (20 <= 20 <= 244 /\ 1 <= 1 <= 255 /\ 1 * 20 + 1234 <= RX_CAP).
Proof. vm_compute. repeat split; intro H; discriminate H. Qed.

(** an 18-byte message at segment size 20 (two segments) and a reply arrive *)
Example C18_ex_delivery :
  let ops := [SSubmit SA [1;2;3;4;5;6;7;8;9;10;11;12;13;14;15;16;17;18]; SPoll SA false; SPoll SA false;
              SDeliver SB; SDeliver SB; SFetch SB; SSubmit SB [9;8;7]; SPoll SB false; SDeliver SA; SFetch SA] in
  let rs := snd (sys_run c0 (sys_established c0 4 20 79 false) ops) in
  fetched SB ops rs = [[1;2;3;4;5;6;7;8;9;10;11;12;13;14;15;16;17;18]] /\ fetched SA ops rs = [[9;8;7]].
Proof. vm_compute. split; reflexivity. Qed.

(** a hostile stream: data before the handshake is refused, a window overrun is
    refused, an ACK for something never sent is refused, a good segment is
    delivered *)
Example C18_ex_hostile :
  snd (run inner_new
         [OIn None 1 [5; 0; 1; 0; 170];
          OIn None 1 [101; 108; 4; 0; 0; 0; 200; 0; 1]; OOut None false 512;
          OIn None 1 [8; 200; 0];
          OIn None 1 [5; 0; 3; 0; 10; 11; 12];
          OIn None 1 [5; 1; 0; 0];
          ORecv 2048]) =
  [RErr E_INVALID_DATA; RUnit; RBytes [101; 108; 4; 20; 0; 1]; RErr E_INVALID_DATA; RUnit;
   RErr E_INVALID_DATA; RBytes [10; 11; 12]].
Proof. vm_compute. reflexivity. Qed.
