(** Property C01 — CASE admits only holders of a valid NOC of the addressed fabric.
    Property theorems only.

    Model: Model/Case.v (symbolic CASE: responder.rs, initiator.rs, casep.rs, resumption.rs, the reserved
    session of session.rs; certificate validation = C19's verifier).  Predicates of the property:
    Model/CaseSpec.v ([responder_full_sound], [responder_resume_sound], [initiator_full_sound],
    [initiator_resume_sound], [record_backed]; the executable monitor [monitor_run]).
    CRYPTOGRAPHY IS SYMBOLIC: terms of a free algebra, ideal AEAD / signatures / hashes (assumed by
    construction, DESIGN.md section 3).  [case_valid] is C19's "chain valid under the Matter rules up to
    this root, carrying this fabric id". *)
From RsM Require Import Lib.MachInt Model.Cert Model.CertSpec Model.Case Model.CaseSpec
  Proofs.CaseFacts Proofs.CaseResponder Proofs.CaseInitiator Proofs.CaseHistory Proofs.CaseBinding
  Proofs.CaseMonitor Proofs.CaseWitness.
Open Scope N_scope.

(** RESPONDER.  The handler of one exchange, on a node with a well-formed fabric table, fed ANY sequence
    of messages [ms] (whatever an attacker delivers).  Fabrics and clock are untouched, and the session
    table afterwards is
    - the table as before (nothing accepted: the reserved slot is released), or
    - the table as before plus one RESERVED (not operational) slot that is released when the handler goes
      away, or
    - the table as before plus ONE operational session [s] set up by a full handshake:
      [responder_full_sound] = the destination id of the first message selects fabric [f] of this node; the
      second message carries, under THIS run's Sigma3 key, a chain [noc; icac?] with
      [case_valid clock (fabric id of f) (root of f) noc icac] and the NOC key's signature over
      (noc, icac, the initiator ephemeral key of the first message, this run's own ephemeral key);
      [s] is bound to f's index, the NOC's node id and the NOC's CATs; keys from this transcript, or
    - ... plus ONE operational session set up by resumption: [responder_resume_sound] = a record of the
      node's cache has the resumption id of the first message, the Resume1MIC is the MIC under that
      record's secret over this message's random, a fabric with the record's index exists, the second
      message is a success status; [s] copies fabric, peer and CATs from the record. *)
Theorem C01_responder_sound : forall st fr ms st' rs' out,
  node_wf st -> resp_run st RIdle fr ms = (st', rs', out) ->
  same_frame st st' /\ sessions_wf st' /\
  (   (n_sessions st' = n_sessions st /\ n_cache st' = n_cache st /\ resp_abort st' rs' = st')
   \/ (exists x, n_sessions st' = n_sessions st ++ [x] /\ s_reserved x = true /\
                 n_cache st' = n_cache st /\ n_sessions (resp_abort st' rs') = n_sessions st)
   \/ (exists s m1 m3 rest rid sec f,
         ms = m1 :: m3 :: rest /\ n_sessions st' = n_sessions st ++ [s] /\ rs' = RDone /\
         responder_full_sound st fr m1 m3 s /\
         get_fabric (s_fab s) (n_fabrics st) = Some f /\
         n_cache st' = insert_or_update (n_cache st) (mkRecord (s_fab s) (s_peer s) (s_cats s) rid sec))
   \/ (exists s m1 mf rest r new_rid,
         ms = m1 :: mf :: rest /\ n_sessions st' = n_sessions st ++ [s] /\ rs' = RDone /\
         responder_resume_sound st m1 s /\ m_op mf = OP_STATUS /\ status_is_success mf = Ok true /\
         In r (n_cache st) /\ s_fab s = r_fab r /\ s_peer s = r_peer r /\ s_cats s = r_cats r /\
         n_cache st' = insert_or_update (n_cache st)
                         (mkRecord (r_fab r) (r_peer r) (r_cats r) new_rid (r_secret r)))).
Proof. exact responder_run_sound. Qed.
Print Assumptions C01_responder_sound.

(** INITIATOR ([CaseInitiator::perform] on fabric index [fab] towards node [peer]), fed ANY sequence of
    messages.  Same four outcomes; [initiator_full_sound] = the first message received carries, under THIS
    run's Sigma2 key, a chain valid for fabric [fab] whose NOC names [peer], and the NOC key's signature
    over (noc, icac, the responder ephemeral key of that message, this run's own ephemeral key);
    [initiator_resume_sound] = the Resume2MIC is the MIC under the secret of the cached record for
    ([fab], [peer]) over this run's random and the new resumption id. *)
Theorem C01_initiator_sound : forall st fr fab peer ms st' s' out,
  node_wf st ->
  init_run (io_node (init_start st fr fab peer)) (io_state (init_start st fr fab peer)) ms = (st', s', out) ->
  same_frame st st' /\ sessions_wf st' /\
  (   (n_sessions st' = n_sessions st /\ n_cache st' = n_cache st /\ s' = IDone false)
   \/ (exists x, n_sessions st' = n_sessions st ++ [x] /\ s_reserved x = true /\
                 n_cache st' = n_cache st /\ n_sessions (init_abort st' s') = n_sessions st /\
                 init_sent st' s' true = (st', s') /\ init_sent st' s' false = (st', s'))
   \/ (exists s m1 m2 mst rest rid sec,
         io_msgs (init_start st fr fab peer) = [m1] /\ ms = m2 :: mst :: rest /\
         n_sessions st' = n_sessions st ++ [s] /\ s' = IDone true /\
         initiator_full_sound st fr fab peer m1 m2 s /\
         m_op mst = OP_STATUS /\ status_is_success mst = Ok true /\
         n_cache st' = insert_or_update (n_cache st) (mkRecord (s_fab s) (s_peer s) (s_cats s) rid sec))
   \/ (exists s m2 rest r new_rid,
         ms = m2 :: rest /\ n_sessions st' = n_sessions st ++ [s] /\
         s' = IFinishing r new_rid /\ find_by_peer (n_cache st) fab peer = Some r /\
         initiator_resume_sound st fr fab peer m2 s /\ n_cache st' = n_cache st)).
Proof. exact initiator_run_sound. Qed.
Print Assumptions C01_initiator_sound.

(** ANY HISTORY of handshake activity of a node ([ActRespond]: a responder handler on arbitrary messages,
    then gone; [ActInitiate]: an initiator on arbitrary messages, its final send acknowledged or not):
    every operational session and every resumption record stays backed by a certificate chain valid for
    the fabric at its index, naming its peer node id and its CATs. *)
Theorem C01_sessions_and_records_backed : forall acts st,
  node_wf st -> node_backed st ->
  node_wf (fold_left do_activity acts st) /\ node_backed (fold_left do_activity acts st) /\
  same_frame st (fold_left do_activity acts st).
Proof. exact history_backed. Qed.
Print Assumptions C01_sessions_and_records_backed.

(** RESUMPTION after any history: the session copies (fabric, peer, CATs) from a cache record, and that
    record is backed by a chain valid for the fabric at its index, which must exist. *)
Theorem C01_resume_sound : forall st0 acts m1 s,
  node_wf st0 -> node_backed st0 ->
  let st := fold_left do_activity acts st0 in
  responder_resume_sound st m1 s ->
  sess_backed st s /\
  exists r, In r (n_cache st) /\ s_fab s = r_fab r /\ s_peer s = r_peer r /\ s_cats s = r_cats r /\
            record_backed st r.
Proof. exact resume_sound. Qed.
Print Assumptions C01_resume_sound.

(** TRANSCRIPT BINDING, PARTIAL.  Initiator run on node [a] (sent [m1], received [m2']) and responder run
    on node [b] (received [m1'], [m3']) both completed.  HYPOTHESES (unforgeability, not yet derived from
    an attacker-knowledge closure): [tbe2_from_responder]: the TBE2 ciphertext the initiator accepted is
    the one this responder run produced; [tbe3_from_initiator]: the TBE3 ciphertext the responder accepted
    is the one this initiator run produced.  Then both saw the same Sigma1 and Sigma2, each is bound to the
    credentials the other one holds, and the directional keys agree crosswise EXACTLY WHEN Sigma3 arrived
    as sent.  (Known class: Sigma3 altered outside its encrypted3 element, [C01_known_class_inhabited].) *)
Theorem C01_transcript_binding_partial : forall a b fra frb fab peer m1 m1' m2' m3' sa sb,
  initiator_full_sound a fra fab peer m1 m2' sa ->
  responder_full_sound b frb m1' m3' sb ->
  tbe2_from_responder b frb m1' m2' ->
  tbe3_from_initiator a fra fab m1 m2' m3' ->
  exists fa fb q rpub,
    get_fabric fab (n_fabrics a) = Some fa /\ parse_sigma1 m1' = Ok q /\
    get_by_dest_id (n_fabrics b) (g1_random q) (g1_dest q) = Some fb /\
    get_req m2' 3 KBytes = Ok rpub /\
    let m2 := build_sigma2 fb frb (g1_pub q) (msg_term m1') in
    let m3 := initiator_sigma3 fa fra rpub m1 m2' in
    msg_term m1' = msg_term m1 /\ msg_term m2' = msg_term m2 /\
    s_fab sa = fab /\ s_peer sa = peer /\ get_node_id (f_noc fb) = Some peer /\ cats_of (f_noc fb) = Ok (s_cats sa) /\
    s_fab sb = f_idx fb /\ get_node_id (f_noc fa) = Some (s_peer sb) /\ cats_of (f_noc fa) = Ok (s_cats sb) /\
    ((s_enc sa = s_dec sb /\ s_dec sa = s_enc sb) <-> msg_term m3' = msg_term m3).
Proof. exact transcript_binding_partial. Qed.
Print Assumptions C01_transcript_binding_partial.

(** RESUMPTION BINDING, PARTIAL.  Initiator and responder both completed a RESUMED handshake.  Hypothesis
    [mic1_from_initiator] (unforgeability): the Resume1MIC the responder accepted is the one this initiator
    run computed.  The MIC key is HKDF(salt = initiator random || resumption id, shared secret) - a function
    of the WHOLE random - and the session keys use the same salt; hence the responder saw the initiator's
    random unaltered, both used the same record (secret, resumption id), and the directional keys agree
    crosswise. *)
Theorem C01_resume_binding_partial : forall a b fra fab peer m1' m2' sa sb,
  initiator_resume_sound a fra fab peer m2' sa ->
  responder_resume_sound b m1' sb ->
  mic1_from_initiator a fra fab peer m1' ->
  exists q ra rb,
    parse_sigma1 m1' = Ok q /\ find_by_peer (n_cache a) fab peer = Some ra /\ In rb (n_cache b) /\
    g1_random q = TNonce (fr_rand fra) /\ r_secret rb = r_secret ra /\ r_rid rb = r_rid ra /\
    s_fab sa = r_fab ra /\ s_peer sa = r_peer ra /\ s_cats sa = r_cats ra /\
    s_fab sb = r_fab rb /\ s_peer sb = r_peer rb /\ s_cats sb = r_cats rb /\
    s_enc sa = s_dec sb /\ s_dec sa = s_enc sb.
Proof. exact resume_binding_partial. Qed.
Print Assumptions C01_resume_binding_partial.

(** The known class is inhabited and violates "both ends hold a session => same directional keys": one
    element appended to Sigma3 on the wire; both ends complete, the keys differ. *)
Theorem C01_known_class_inhabited :
  let p := handshake append_to_sigma3 w_a w_b w_fra w_frb 1 8738 in
  match outcome p, p_wire p with
  | (true, [sa], [sb]), [_; _; (_, m3); _] =>
      negb (s_reserved sa) && negb (s_reserved sb) &&
      negb (term_eqb (s_enc sa) (s_dec sb)) &&
      match append_to_sigma3 0 1 m3 with Some m3' => sigma3_alt m3 m3' | None => false end
  | _, _ => false
  end = true.
Proof. exact known_class_witness. Qed.
Print Assumptions C01_known_class_inhabited.

(** The extracted monitor: no violation reported for an observed run means every clause holds of it. *)
Theorem C01_monitor_means : forall al_i al_r s3alt base o,
  monitor_run al_i al_r s3alt base o = [] ->
  (forall s rest, o_r o = s :: rest -> al_r = Some (ident_of s)) /\
  (forall s rest, o_i o = s :: rest -> al_i = Some (ident_of s)) /\
  (forall a ra b rb, o_i o = a :: ra -> o_r o = b :: rb -> o_enc a = o_dec b /\ o_dec a = o_enc b) /\
  o_left o = 0 /\
  (forall bo, base = Some bo ->
     (forall s rest, o_i o = s :: rest -> exists s0 rest0, o_i bo = s0 :: rest0 /\ ident_of s = ident_of s0) /\
     (forall s rest, o_r o = s :: rest -> exists s0 rest0, o_r bo = s0 :: rest0 /\ ident_of s = ident_of s0)) /\
  (length (o_i o) <= 1)%nat /\ (length (o_r o) <= 1)%nat.
Proof. exact monitor_run_nil. Qed.
Print Assumptions C01_monitor_means.

(** Non-vacuity: the hypotheses are satisfiable and the accepting paths are reachable. *)
Example C01_ex_honest_run_completes :
  match outcome (handshake honest_net w_a w_b w_fra w_frb 1 8738) with
  | (true, [sa], [sb]) =>
      negb (s_reserved sa) && negb (s_reserved sb) && crosswise sa sb &&
      (s_fab sa =? 1) && (s_peer sa =? 8738) && (s_fab sb =? 1) && (s_peer sb =? 4369) &&
      list_eqb N.eqb (s_cats sb) [65537]
  | _ => false
  end = true.
Proof. exact honest_handshake_completes. Qed.

Example C01_ex_nodes_well_formed : node_wf w_a /\ node_wf w_b.
Proof. exact initial_nodes_well_formed. Qed.

Example C01_ex_empty_node_backed : node_backed w_a.
Proof. split; [intros r []|intros s []]. Qed.

Example C01_ex_invalid_chain_rejected :
  outcome (handshake honest_net (mkNode [mkFabric 1 w_root w_bad_noc None 5 w_ipk 9 4369] [] [] 0 w_clock)
                     w_b w_fra w_frb 1 8738) = (false, [], []).
Proof. exact invalid_chain_rejected. Qed.
