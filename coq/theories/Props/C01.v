(** Property C01 — CASE admits only holders of a valid NOC of the addressed fabric.
    Property theorems only.

    Model: Model/Case.v (symbolic CASE: responder.rs, initiator.rs, casep.rs, resumption.rs, the reserved
    session of session.rs; certificate validation = C19's verifier).  Predicates of the property:
    Model/CaseSpec.v ([responder_full_sound], [responder_resume_sound], [initiator_full_sound],
    [initiator_resume_sound], [record_backed]; the executable monitor [monitor_run]).
    CRYPTOGRAPHY IS SYMBOLIC: terms of a free algebra, ideal AEAD / signatures / hashes (assumed by
    construction, DESIGN.md section 3).  [case_valid] is C19's "chain valid under the Matter rules up to
    this root, carrying this fabric id". *)
From RsM Require Import Lib.MachInt Model.Cert Model.CertSpec Model.Case Model.CaseSpec
  Model.CaseDY
  Proofs.CaseFacts Proofs.CaseResponder Proofs.CaseInitiator Proofs.CaseHistory Proofs.CaseBinding
  Proofs.CaseMonitor Proofs.CaseWitness Proofs.CaseDYFacts Proofs.CaseDYOutputs Proofs.CaseDYBinding
  Proofs.CaseDYWitness.
Open Scope N_scope.

(** RESPONDER.  The handler of one exchange, on a node with a well-formed fabric table, fed ANY sequence
    of messages [ms] (whatever an attacker delivers).  Fabrics and clock are untouched, and the session
    table afterwards is
    - the table as before (nothing accepted: the reserved slot is released), or
    - the table as before plus one RESERVED (not operational) slot that is released when the handler goes
      away, or
    - the table as before plus ONE operational session [s] set up by a full handshake:
      [responder_full_sound] = the destination id of the first message selects fabric [f] of this node; the
      second message carries, under THIS run's Sigma3 key, a chain [noc; icac?] with
      [case_valid clock (fabric id of f) (root of f) noc icac] and the NOC key's signature over
      (noc, icac, the initiator ephemeral key of the first message, this run's own ephemeral key);
      [s] is bound to f's index, the NOC's node id and the NOC's CATs; keys from this transcript, or
    - ... plus ONE operational session set up by resumption: [responder_resume_sound] = a record of the
      node's cache has the resumption id of the first message, the Resume1MIC is the MIC under that
      record's secret over this message's random, a fabric with the record's index exists, the second
      message is a success status; [s] copies fabric, peer and CATs from the record. *)
Theorem C01_responder_sound : forall st fr ms st' rs' out,
  node_wf st -> resp_run st RIdle fr ms = (st', rs', out) ->
  same_frame st st' /\ sessions_wf st' /\
  (   (n_sessions st' = n_sessions st /\ n_cache st' = n_cache st /\ resp_abort st' rs' = st')
   \/ (exists x, n_sessions st' = n_sessions st ++ [x] /\ s_reserved x = true /\
                 n_cache st' = n_cache st /\ n_sessions (resp_abort st' rs') = n_sessions st)
   \/ (exists s m1 m3 rest rid sec f,
         ms = m1 :: m3 :: rest /\ n_sessions st' = n_sessions st ++ [s] /\ rs' = RDone /\
         responder_full_sound st fr m1 m3 s /\
         get_fabric (s_fab s) (n_fabrics st) = Some f /\
         n_cache st' = insert_or_update (n_cache st) (mkRecord (s_fab s) (s_peer s) (s_cats s) rid sec))
   \/ (exists s m1 mf rest r new_rid,
         ms = m1 :: mf :: rest /\ n_sessions st' = n_sessions st ++ [s] /\ rs' = RDone /\
         responder_resume_sound st m1 s /\ m_op mf = OP_STATUS /\ status_is_success mf = Ok true /\
         In r (n_cache st) /\ s_fab s = r_fab r /\ s_peer s = r_peer r /\ s_cats s = r_cats r /\
         n_cache st' = insert_or_update (n_cache st)
                         (mkRecord (r_fab r) (r_peer r) (r_cats r) new_rid (r_secret r)))).
Proof. exact responder_run_sound. Qed.
Print Assumptions C01_responder_sound.

(** INITIATOR ([CaseInitiator::perform] on fabric index [fab] towards node [peer]), fed ANY sequence of
    messages.  Same four outcomes; [initiator_full_sound] = the first message received carries, under THIS
    run's Sigma2 key, a chain valid for fabric [fab] whose NOC names [peer], and the NOC key's signature
    over (noc, icac, the responder ephemeral key of that message, this run's own ephemeral key);
    [initiator_resume_sound] = the Resume2MIC is the MIC under the secret of the cached record for
    ([fab], [peer]) over this run's random and the new resumption id. *)
Theorem C01_initiator_sound : forall st fr fab peer ms st' s' out,
  node_wf st ->
  init_run (io_node (init_start st fr fab peer)) (io_state (init_start st fr fab peer)) ms = (st', s', out) ->
  same_frame st st' /\ sessions_wf st' /\
  (   (n_sessions st' = n_sessions st /\ n_cache st' = n_cache st /\ s' = IDone false)
   \/ (exists x, n_sessions st' = n_sessions st ++ [x] /\ s_reserved x = true /\
                 n_cache st' = n_cache st /\ n_sessions (init_abort st' s') = n_sessions st /\
                 init_sent st' s' true = (st', s') /\ init_sent st' s' false = (st', s'))
   \/ (exists s m1 m2 mst rest rid sec,
         io_msgs (init_start st fr fab peer) = [m1] /\ ms = m2 :: mst :: rest /\
         n_sessions st' = n_sessions st ++ [s] /\ s' = IDone true /\
         initiator_full_sound st fr fab peer m1 m2 s /\
         m_op mst = OP_STATUS /\ status_is_success mst = Ok true /\
         n_cache st' = insert_or_update (n_cache st) (mkRecord (s_fab s) (s_peer s) (s_cats s) rid sec))
   \/ (exists s m2 rest r new_rid,
         ms = m2 :: rest /\ n_sessions st' = n_sessions st ++ [s] /\
         s' = IFinishing r new_rid /\ find_by_peer (n_cache st) fab peer = Some r /\
         initiator_resume_sound st fr fab peer m2 s /\ n_cache st' = n_cache st)).
Proof. exact initiator_run_sound. Qed.
Print Assumptions C01_initiator_sound.

(** ANY HISTORY of handshake activity of a node ([ActRespond]: a responder handler on arbitrary messages,
    then gone; [ActInitiate]: an initiator on arbitrary messages, its final send acknowledged or not):
    every operational session and every resumption record stays backed by a certificate chain valid for
    the fabric at its index, naming its peer node id and its CATs. *)
Theorem C01_sessions_and_records_backed : forall acts st,
  node_wf st -> node_backed st ->
  node_wf (fold_left do_activity acts st) /\ node_backed (fold_left do_activity acts st) /\
  same_frame st (fold_left do_activity acts st).
Proof. exact history_backed. Qed.
Print Assumptions C01_sessions_and_records_backed.

(** RESUMPTION after any history: the session copies (fabric, peer, CATs) from a cache record, and that
    record is backed by a chain valid for the fabric at its index, which must exist. *)
Theorem C01_resume_sound : forall st0 acts m1 s,
  node_wf st0 -> node_backed st0 ->
  let st := fold_left do_activity acts st0 in
  responder_resume_sound st m1 s ->
  sess_backed st s /\
  exists r, In r (n_cache st) /\ s_fab s = r_fab r /\ s_peer s = r_peer r /\ s_cats s = r_cats r /\
            record_backed st r.
Proof. exact resume_sound. Qed.
Print Assumptions C01_resume_sound.

(** ONE RECORD PER PEER.  Whenever a responder handler (any message sequence) leaves a new operational session
    [s], EVERY record of the resumption cache for (s's fabric, s's peer node) afterwards carries s's CATs: a full
    handshake supersedes every earlier record of that peer, a resumption only rotates its id.  A later resumption
    can therefore only hand out the CATs of the certificate validated LAST for that peer. *)
Theorem C01_session_supersedes_records : forall st fr ms st' rs' out s,
  node_wf st -> resp_run st RIdle fr ms = (st', rs', out) ->
  n_sessions st' = n_sessions st ++ [s] -> s_reserved s = false ->
  forall x, In x (n_cache st') -> r_fab x = s_fab s -> r_peer x = s_peer s -> r_cats x = s_cats s.
Proof. exact session_supersedes_records. Qed.
Print Assumptions C01_session_supersedes_records.

Theorem C01_initiator_session_supersedes_records : forall st fr fab peer ms st' out s,
  node_wf st ->
  init_run (io_node (init_start st fr fab peer)) (io_state (init_start st fr fab peer)) ms = (st', IDone true, out) ->
  n_sessions st' = n_sessions st ++ [s] ->
  forall x, In x (n_cache st') -> r_fab x = s_fab s -> r_peer x = s_peer s -> r_cats x = s_cats s.
Proof. exact initiator_session_supersedes_records. Qed.
Print Assumptions C01_initiator_session_supersedes_records.

(** TRANSCRIPT BINDING, PARTIAL.  Initiator run on node [a] (sent [m1], received [m2']) and responder run
    on node [b] (received [m1'], [m3']) both completed.  HYPOTHESES (unforgeability, not yet derived from
    an attacker-knowledge closure): [tbe2_from_responder]: the TBE2 ciphertext the initiator accepted is
    the one this responder run produced; [tbe3_from_initiator]: the TBE3 ciphertext the responder accepted
    is the one this initiator run produced.  Then both saw the same Sigma1 and Sigma2, each is bound to the
    credentials the other one holds, and the directional keys agree crosswise EXACTLY WHEN Sigma3 arrived
    as sent.  (Known class: Sigma3 altered outside its encrypted3 element, [C01_known_class_inhabited].) *)
Theorem C01_transcript_binding_partial : forall a b fra frb fab peer m1 m1' m2' m3' sa sb,
  initiator_full_sound a fra fab peer m1 m2' sa ->
  responder_full_sound b frb m1' m3' sb ->
  tbe2_from_responder b frb m1' m2' ->
  tbe3_from_initiator a fra fab m1 m2' m3' ->
  exists fa fb q rpub,
    get_fabric fab (n_fabrics a) = Some fa /\ parse_sigma1 m1' = Ok q /\
    get_by_dest_id (n_fabrics b) (g1_random q) (g1_dest q) = Some fb /\
    get_req m2' 3 KBytes = Ok rpub /\
    let m2 := build_sigma2 fb frb (g1_pub q) (msg_term m1') in
    let m3 := initiator_sigma3 fa fra rpub m1 m2' in
    msg_term m1' = msg_term m1 /\ msg_term m2' = msg_term m2 /\
    s_fab sa = fab /\ s_peer sa = peer /\ get_node_id (f_noc fb) = Some peer /\ cats_of (f_noc fb) = Ok (s_cats sa) /\
    s_fab sb = f_idx fb /\ get_node_id (f_noc fa) = Some (s_peer sb) /\ cats_of (f_noc fa) = Ok (s_cats sb) /\
    ((s_enc sa = s_dec sb /\ s_dec sa = s_enc sb) <-> msg_term m3' = msg_term m3).
Proof. exact transcript_binding_partial. Qed.
Print Assumptions C01_transcript_binding_partial.

(** RESUMPTION BINDING, PARTIAL.  Initiator and responder both completed a RESUMED handshake.  Hypothesis
    [mic1_from_initiator] (unforgeability): the Resume1MIC the responder accepted is the one this initiator
    run computed.  The MIC key is HKDF(salt = initiator random || resumption id, shared secret) - a function
    of the WHOLE random - and the session keys use the same salt; hence the responder saw the initiator's
    random unaltered, both used the same record (secret, resumption id), and the directional keys agree
    crosswise. *)
Theorem C01_resume_binding_partial : forall a b fra fab peer m1' m2' sa sb,
  initiator_resume_sound a fra fab peer m2' sa ->
  responder_resume_sound b m1' sb ->
  mic1_from_initiator a fra fab peer m1' ->
  exists q ra rb,
    parse_sigma1 m1' = Ok q /\ find_by_peer (n_cache a) fab peer = Some ra /\ In rb (n_cache b) /\
    g1_random q = TNonce (fr_rand fra) /\ r_secret rb = r_secret ra /\ r_rid rb = r_rid ra /\
    s_fab sa = r_fab ra /\ s_peer sa = r_peer ra /\ s_cats sa = r_cats ra /\
    s_fab sb = r_fab rb /\ s_peer sb = r_peer rb /\ s_cats sb = r_cats rb /\
    s_enc sa = s_dec sb /\ s_dec sa = s_enc sb.
Proof. exact resume_binding_partial. Qed.
Print Assumptions C01_resume_binding_partial.

(* ================================================================ Dolev-Yao: the full theorems *)

(** DOLEV-YAO CLOSURE ([Model/CaseDY.v]: [derivable K t] - pairing / projection, hashing, HKDF / HMAC / AEAD /
    signature application with known inputs, decryption with a known key, message recovery from a signature,
    public keys of known secrets, ECDH with one known secret; numbers, certificates, byte strings public).
    SECRECY: if everything in [K] is [guarded] (no secret nonce - IPK, ephemeral ECDH secret - and no honest
    signing key occurs outside a key position, a hash, or behind a public key), so is everything derivable. *)
Theorem C01_dy_secrecy :
  forall (SN SK : list N) (K : knowledge),
  (forall t : term, K t -> guarded SN SK t) -> forall t : term, derivable K t -> guarded SN SK t.
Proof. exact derivable_guarded. Qed.
Print Assumptions C01_dy_secrecy.

(** ORIGIN: a ciphertext under a key that is not [guarded], occurring anywhere in a derivable term, already
    occurs in the knowledge - the attacker cannot have produced it (INT-CTXT, derived in the symbolic model). *)
Theorem C01_dy_origin :
  forall (SN SK : list N) (K : knowledge),
  (forall t : term, K t -> guarded SN SK t) ->
  forall t : term,
  derivable K t ->
  forall k n pt : term,
  ~ guarded SN SK k -> sub (TAead k n pt) t -> exists t0 : term, K t0 /\ sub (TAead k n pt) t0.
Proof. exact aead_origin. Qed.
Print Assumptions C01_dy_origin.

(** THE TWO-RUN SYSTEM ([dy_run]: one initiator run on node a, one responder run on node b, the four messages
    in between chosen by the attacker; [dy_world]: what the attacker does NOT have - the IPK of the initiator's
    fabric, the two ephemeral secrets, the signing keys [SK] - and freshness of the two randoms; it may hold any
    number of own keys, nonces, fabrics and every message of earlier runs).  Whatever the attacker derives at
    any point of the run, under any schedule, is [guarded]: *)
Theorem C01_run_guarded :
  forall (K0 : knowledge) (SK : list N) (ipk : N) (fa : fabric) (r : dy_run),
  dy_world K0 SK ipk fa r ->
  forall t : term, derivable (know5 K0 r) t -> guarded (secret_nonces ipk r) SK t.
Proof. exact run_secrecy. Qed.
Print Assumptions C01_run_guarded.

(** ... so neither the IPK, nor an ephemeral secret, nor an honest signing key, nor ANY key derived from the
    IPK (S2K, S3K, the three session keys) is ever derivable. *)
Theorem C01_secrets_not_derivable :
  forall (K0 : knowledge) (SK : list N) (ipk : N) (fa : fabric) (r : dy_run),
  dy_world K0 SK ipk fa r ->
  ~ derivable (know5 K0 r) (TNonce ipk) /\
  ~ derivable (know5 K0 r) (TNonce (fr_eph (dr_fra r))) /\
  ~ derivable (know5 K0 r) (TNonce (fr_eph (dr_frb r))) /\
  (forall k : N, In k SK -> ~ derivable (know5 K0 r) (TKey k)) /\
  (forall x y z : term, ~ derivable (know5 K0 r) (THkdf (TPair (TNonce ipk) x) y z)).
Proof. exact secrets_not_derivable. Qed.
Print Assumptions C01_secrets_not_derivable.

(** The first unforgeability hypothesis of the partial theorem, DERIVED: the TBE2 ciphertext that decrypts
    under the initiator's Sigma2 key was put on the wire by the responder run as the TBE2 of its Sigma2. *)
Theorem C01_tbe2_from_responder :
  forall (K0 : knowledge) (SK : list N) (ipk : N) (fa : fabric) (r : dy_run),
  dy_world K0 SK ipk fa r ->
  forall (m2' : msg) (rr rpub sh pt : term),
  msg_derivable (know1 K0 r) (dr_m1 r) ->
  msg_derivable (know2 K0 r) m2' ->
  get_req m2' 4 KBytes =
  Ok
    (TAead
       (s2k (TNonce ipk) rr rpub
          (h1 (msg_term (sigma1_of (dr_a r) (dr_fra r) (dr_fab r) (dr_peer r) fa))) sh)
       (TNum NONCE_S2) pt) ->
  exists (q : sigma1) (f : fabric),
    parse_sigma1 (dr_m1 r) = Ok q /\
    get_by_dest_id (n_fabrics (dr_b r)) (g1_random q) (g1_dest q) = Some f /\
    ro_msgs (run_r1 r) = [build_sigma2 f (dr_frb r) (g1_pub q) (msg_term (dr_m1 r))] /\
    get_req (build_sigma2 f (dr_frb r) (g1_pub q) (msg_term (dr_m1 r))) 4 KBytes =
    Ok
      (TAead
         (s2k (TNonce ipk) rr rpub
            (h1 (msg_term (sigma1_of (dr_a r) (dr_fra r) (dr_fab r) (dr_peer r) fa))) sh)
         (TNum NONCE_S2) pt).
Proof. exact tbe2_origin. Qed.
Print Assumptions C01_tbe2_from_responder.

(** The second one, DERIVED: the TBE3 ciphertext that decrypts under the responder's Sigma3 key (fabric with
    the secret IPK) was put on the wire by the initiator run as the TBE3 of its Sigma3, which it sends only after
    having accepted the second message as a Sigma2 (chain valid, node id, signature). *)
Theorem C01_tbe3_from_initiator :
  forall (K0 : knowledge) (SK : list N) (ipk : N) (fa : fabric) (r : dy_run),
  dy_world K0 SK ipk fa r ->
  forall (fb : fabric) (q : sigma1) (sh pt : term),
  f_ipk fb = TNonce ipk ->
  msg_derivable (know1 K0 r) (dr_m1 r) ->
  msg_derivable (know2 K0 r) (dr_m2 r) ->
  msg_derivable (know3 K0 r) (dr_m3 r) ->
  get_req (dr_m3 r) 1 KBytes =
  Ok
    (TAead
       (s3k (TNonce ipk)
          (h12 (msg_term (dr_m1 r))
             (msg_term (build_sigma2 fb (dr_frb r) (g1_pub q) (msg_term (dr_m1 r))))) sh)
       (TNum NONCE_S3) pt) ->
  exists (rr rpub : term) (noc : cert) (icac : option cert) (sig rid : term) 
  (cats : list N),
    io_msgs (run_i2 r) =
    [build_sigma3 fa (TPub (TNonce (fr_eph (dr_fra r)))) rpub
       (msg_term (sigma1_of (dr_a r) (dr_fra r) (dr_fab r) (dr_peer r) fa)) 
       (msg_term (dr_m2 r)) (dh (TNonce (fr_eph (dr_fra r))) rpub)] /\
    get_req (dr_m2 r) 1 KBytes = Ok rr /\
    get_req (dr_m2 r) 3 KBytes = Ok rpub /\
    get_req (dr_m2 r) 4 KBytes =
    Ok
      (TAead
         (s2k (TNonce ipk) rr rpub
            (h1 (msg_term (sigma1_of (dr_a r) (dr_fra r) (dr_fab r) (dr_peer r) fa)))
            (dh (TNonce (fr_eph (dr_fra r))) rpub)) (TNum NONCE_S2) (tbe2_plain noc icac sig rid)) /\
    case_valid (n_clock (dr_a r)) (f_fid fa) (f_root fa) noc icac /\
    get_node_id noc = Some (dr_peer r) /\
    cats_of noc = Ok cats /\
    sig = TSig (TKey (pubkey noc)) (tbs noc icac rpub (TPub (TNonce (fr_eph (dr_fra r))))) /\
    get_req
      (build_sigma3 fa (TPub (TNonce (fr_eph (dr_fra r)))) rpub
         (msg_term (sigma1_of (dr_a r) (dr_fra r) (dr_fab r) (dr_peer r) fa)) 
         (msg_term (dr_m2 r)) (dh (TNonce (fr_eph (dr_fra r))) rpub)) 1 KBytes =
    Ok
      (TAead
         (s3k (TNonce ipk)
            (h12 (msg_term (dr_m1 r))
               (msg_term (build_sigma2 fb (dr_frb r) (g1_pub q) (msg_term (dr_m1 r))))) sh)
         (TNum NONCE_S3) pt).
Proof. exact tbe3_origin. Qed.
Print Assumptions C01_tbe3_from_initiator.

(** TRANSCRIPT BINDING, FULL (no unforgeability hypothesis).  For arbitrary delivered messages the attacker can
    derive: if the initiator completed ([IDone true]) and the responder gained an operational session [sb] in
    answer to a Sigma3, then the delivered Sigma1 and Sigma2 are the ones sent, Sigma3 arrived with its encrypted3
    element as sent, both fabrics carry the secret IPK, each end is bound to the credentials the other one holds,
    the directional keys agree crosswise EXACTLY WHEN Sigma3 arrived as sent - otherwise the run is in the known
    class [sigma3_alt] (bytes of Sigma3 outside encrypted3 altered: finding keys-differ-sigma3-unauthenticated-bytes)
    - and the attacker can derive none of the four keys. *)
Theorem C01_transcript_binding :
  forall (K0 : knowledge) (SK : list N) (ipk : N) (fa : fabric) (r : dy_run),
  dy_world K0 SK ipk fa r ->
  forall sb : session,
  node_wf (dr_a r) ->
  node_wf (dr_b r) ->
  attacker_sends K0 r ->
  initiator_completed r ->
  responder_completed r sb ->
  exists (sa : session) (fb : fabric) (q : sigma1) (rpub : term),
    n_sessions (io_node (run_i3 r)) = n_sessions (dr_a r) ++ [sa] /\
    parse_sigma1 (dr_m1 r) = Ok q /\
    get_by_dest_id (n_fabrics (dr_b r)) (g1_random q) (g1_dest q) = Some fb /\
    get_req (dr_m2 r) 3 KBytes = Ok rpub /\
    (let m2 := build_sigma2 fb (dr_frb r) (g1_pub q) (msg_term (dr_m1 r)) in
     let m3 :=
       initiator_sigma3 fa (dr_fra r) rpub (sigma1_of (dr_a r) (dr_fra r) (dr_fab r) (dr_peer r) fa)
         (dr_m2 r) in
     io_msgs (run_i1 r) = [sigma1_of (dr_a r) (dr_fra r) (dr_fab r) (dr_peer r) fa] /\
     ro_msgs (run_r1 r) = [m2] /\
     io_msgs (run_i2 r) = [m3] /\
     msg_term (dr_m1 r) = msg_term (sigma1_of (dr_a r) (dr_fra r) (dr_fab r) (dr_peer r) fa) /\
     msg_term (dr_m2 r) = msg_term m2 /\
     get_req (dr_m3 r) 1 KBytes = get_req m3 1 KBytes /\
     f_ipk fb = TNonce ipk /\
     s_fab sa = dr_fab r /\
     s_peer sa = dr_peer r /\
     get_node_id (f_noc fb) = Some (dr_peer r) /\
     cats_of (f_noc fb) = Ok (s_cats sa) /\
     s_fab sb = f_idx fb /\
     get_node_id (f_noc fa) = Some (s_peer sb) /\
     cats_of (f_noc fa) = Ok (s_cats sb) /\
     (s_enc sa = s_dec sb /\ s_dec sa = s_enc sb <-> msg_term (dr_m3 r) = msg_term m3) /\
     (msg_term (dr_m3 r) <> msg_term m3 -> sigma3_alt m3 (dr_m3 r) = true) /\
     ~ derivable (know5 K0 r) (s_enc sa) /\
     ~ derivable (know5 K0 r) (s_dec sa) /\
     ~ derivable (know5 K0 r) (s_enc sb) /\ ~ derivable (know5 K0 r) (s_dec sb)).
Proof. exact transcript_binding. Qed.
Print Assumptions C01_transcript_binding.

(** ONE END: the initiator completed.  The final StatusReport is not authenticated, so this says NOTHING about
    the responder having accepted Sigma3 (an attacker can turn the responder's refusal into a success:
    [C01_ex_forged_status]).  What the attacker CANNOT achieve: the responder run did answer THIS Sigma1 with its
    Sigma2 for a fabric holding the secret IPK; random, ephemeral key and TBE2 of Sigma2 arrived as sent; the
    session is bound to the responder's installed credentials; its keys are those of the untampered run exactly
    when the whole Sigma2 arrived as sent (its session id and session parameters are authenticated only by the
    responder's acceptance of Sigma3), and the attacker cannot derive them. *)
Theorem C01_initiator_only :
  forall (K0 : knowledge) (SK : list N) (ipk : N) (fa : fabric) (r : dy_run),
  dy_world K0 SK ipk fa r ->
  node_wf (dr_a r) ->
  msg_derivable (know1 K0 r) (dr_m1 r) ->
  msg_derivable (know2 K0 r) (dr_m2 r) ->
  initiator_completed r ->
  exists (sa : session) (fb : fabric) (q : sigma1) (rpub : term),
    n_sessions (io_node (run_i3 r)) = n_sessions (dr_a r) ++ [sa] /\
    s_reserved sa = false /\
    parse_sigma1 (dr_m1 r) = Ok q /\
    get_by_dest_id (n_fabrics (dr_b r)) (g1_random q) (g1_dest q) = Some fb /\
    get_req (dr_m2 r) 3 KBytes = Ok rpub /\
    (let m2 := build_sigma2 fb (dr_frb r) (g1_pub q) (msg_term (dr_m1 r)) in
     let m3 :=
       initiator_sigma3 fa (dr_fra r) rpub (sigma1_of (dr_a r) (dr_fra r) (dr_fab r) (dr_peer r) fa)
         (dr_m2 r) in
     ro_msgs (run_r1 r) = [m2] /\
     f_ipk fb = TNonce ipk /\
     msg_term (dr_m1 r) = msg_term (sigma1_of (dr_a r) (dr_fra r) (dr_fab r) (dr_peer r) fa) /\
     get_req (dr_m2 r) 1 KBytes = get_req m2 1 KBytes /\
     get_req (dr_m2 r) 3 KBytes = get_req m2 3 KBytes /\
     get_req (dr_m2 r) 4 KBytes = get_req m2 4 KBytes /\
     s_fab sa = dr_fab r /\
     s_peer sa = dr_peer r /\
     get_node_id (f_noc fb) = Some (dr_peer r) /\
     cats_of (f_noc fb) = Ok (s_cats sa) /\
     s_enc sa =
     sess_key 0 (TNonce ipk)
       (h123 (msg_term (sigma1_of (dr_a r) (dr_fra r) (dr_fab r) (dr_peer r) fa)) 
          (msg_term (dr_m2 r)) (msg_term m3)) (dh (TNonce (fr_eph (dr_fra r))) rpub) /\
     s_dec sa =
     sess_key 1 (TNonce ipk)
       (h123 (msg_term (sigma1_of (dr_a r) (dr_fra r) (dr_fab r) (dr_peer r) fa)) 
          (msg_term (dr_m2 r)) (msg_term m3)) (dh (TNonce (fr_eph (dr_fra r))) rpub) /\
     ~ derivable (know5 K0 r) (s_enc sa) /\ ~ derivable (know5 K0 r) (s_dec sa)).
Proof. exact initiator_only. Qed.
Print Assumptions C01_initiator_only.

(** ONE END: the responder completed (for a fabric [fb] whose IPK is the secret one).  Then the initiator run
    DID accept the second message as Sigma2 and sent its Sigma3 - it holds, or sets up as soon as a success
    status reaches it, the session [sa'] -; both saw the same Sigma1 and Sigma2; the responder's session is bound
    to the initiator's installed credentials; its keys are the untampered ones (crosswise those of [sa']) exactly
    when Sigma3 arrived as sent, else the run is in the known class; the attacker cannot derive them. *)
Theorem C01_responder_only :
  forall (K0 : knowledge) (SK : list N) (ipk : N) (fa : fabric) (r : dy_run),
  dy_world K0 SK ipk fa r ->
  forall (sb : session) (q : sigma1) (fb : fabric),
  node_wf (dr_b r) ->
  msg_derivable (know1 K0 r) (dr_m1 r) ->
  msg_derivable (know2 K0 r) (dr_m2 r) ->
  msg_derivable (know3 K0 r) (dr_m3 r) ->
  responder_completed r sb ->
  parse_sigma1 (dr_m1 r) = Ok q ->
  get_by_dest_id (n_fabrics (dr_b r)) (g1_random q) (g1_dest q) = Some fb ->
  f_ipk fb = TNonce ipk ->
  exists (sa' : session) (rpub : term),
    initiator_full_sound (dr_a r) (dr_fra r) (dr_fab r) (dr_peer r)
      (sigma1_of (dr_a r) (dr_fra r) (dr_fab r) (dr_peer r) fa) (dr_m2 r) sa' /\
    get_req (dr_m2 r) 3 KBytes = Ok rpub /\
    (let m2 := build_sigma2 fb (dr_frb r) (g1_pub q) (msg_term (dr_m1 r)) in
     let m3 :=
       initiator_sigma3 fa (dr_fra r) rpub (sigma1_of (dr_a r) (dr_fra r) (dr_fab r) (dr_peer r) fa)
         (dr_m2 r) in
     ro_msgs (run_r1 r) = [m2] /\
     io_msgs (run_i2 r) = [m3] /\
     msg_term (dr_m1 r) = msg_term (sigma1_of (dr_a r) (dr_fra r) (dr_fab r) (dr_peer r) fa) /\
     msg_term (dr_m2 r) = msg_term m2 /\
     get_req (dr_m3 r) 1 KBytes = get_req m3 1 KBytes /\
     s_fab sb = f_idx fb /\
     get_node_id (f_noc fa) = Some (s_peer sb) /\
     cats_of (f_noc fa) = Ok (s_cats sb) /\
     (s_enc sa' = s_dec sb /\ s_dec sa' = s_enc sb <-> msg_term (dr_m3 r) = msg_term m3) /\
     (msg_term (dr_m3 r) <> msg_term m3 -> sigma3_alt m3 (dr_m3 r) = true) /\
     ~ derivable (know5 K0 r) (s_enc sb) /\ ~ derivable (know5 K0 r) (s_dec sb)).
Proof. exact responder_only. Qed.
Print Assumptions C01_responder_only.

(** RESUMPTION BINDING, FULL.  The initiator resumed ([IFinishing]), the responder completed a resumption (arm
    [A_R_FIN_OK]), and the secret of the initiator's cached record is not [guarded].  Then the Resume2MIC the
    initiator accepted is the responder run's and the Resume1MIC the responder accepted is the initiator run's
    (both DERIVED): the responder saw the initiator's random unaltered - the MIC keys are HKDF(random || id,
    secret), functions of the WHOLE random -, both used the same secret and resumption id, each session copies
    its record's identity, same directional keys crosswise, not derivable.  (A responder-ONLY resumed session
    cannot be bound to a live initiator run: a Sigma1 of an earlier attempt can be replayed while the record's id
    has not rotated, and SigmaFinished is not authenticated - design.d, observation 2.) *)
Theorem C01_resume_binding :
  forall (K0 : knowledge) (SK : list N) (ipk : N) (fa : fabric) (r : dy_run),
  dy_world K0 SK ipk fa r ->
  forall (ra : record) (nr : term),
  node_wf (dr_a r) ->
  node_wf (dr_b r) ->
  msg_derivable (know1 K0 r) (dr_m1 r) ->
  msg_derivable (know2 K0 r) (dr_m2 r) ->
  io_state (run_i2 r) = IFinishing ra nr ->
  ro_arm (run_r2 r) = A_R_FIN_OK ->
  ~ guarded (secret_nonces ipk r) SK (r_secret ra) ->
  exists (sa sb : session) (q : sigma1) (rb : record),
    n_sessions (io_node (run_i2 r)) = n_sessions (dr_a r) ++ [sa] /\
    n_sessions (ro_node (run_r2 r)) = n_sessions (dr_b r) ++ [sb] /\
    s_reserved sa = false /\
    s_reserved sb = false /\
    parse_sigma1 (dr_m1 r) = Ok q /\
    In rb (n_cache (dr_b r)) /\
    find_by_peer (n_cache (dr_a r)) (dr_fab r) (dr_peer r) = Some ra /\
    g1_random q = TNonce (fr_rand (dr_fra r)) /\
    r_secret rb = r_secret ra /\
    r_rid rb = r_rid ra /\
    s_fab sa = r_fab ra /\
    s_peer sa = r_peer ra /\
    s_cats sa = r_cats ra /\
    s_fab sb = r_fab rb /\
    s_peer sb = r_peer rb /\
    s_cats sb = r_cats rb /\
    s_enc sa = s_dec sb /\
    s_dec sa = s_enc sb /\ ~ derivable (know5 K0 r) (s_enc sa) /\ ~ derivable (know5 K0 r) (s_dec sa).
Proof. exact resume_binding. Qed.
Print Assumptions C01_resume_binding.

(** The known class is inhabited and violates "both ends hold a session => same directional keys": one
    element appended to Sigma3 on the wire; both ends complete, the keys differ. *)
Theorem C01_known_class_inhabited :
  let p := handshake append_to_sigma3 w_a w_b w_fra w_frb 1 8738 in
  match outcome p, p_wire p with
  | (true, [sa], [sb]), [_; _; (_, m3); _] =>
      negb (s_reserved sa) && negb (s_reserved sb) &&
      negb (term_eqb (s_enc sa) (s_dec sb)) &&
      match append_to_sigma3 0 1 m3 with Some m3' => sigma3_alt m3 m3' | None => false end
  | _, _ => false
  end = true.
Proof. exact known_class_witness. Qed.
Print Assumptions C01_known_class_inhabited.

(** The extracted monitor: no violation reported for an observed run means every clause holds of it. *)
Theorem C01_monitor_means : forall al_i al_r s3alt base o,
  monitor_run al_i al_r s3alt base o = [] ->
  (forall s rest, o_r o = s :: rest -> al_r = Some (ident_of s)) /\
  (forall s rest, o_i o = s :: rest -> al_i = Some (ident_of s)) /\
  (forall a ra b rb, o_i o = a :: ra -> o_r o = b :: rb -> o_enc a = o_dec b /\ o_dec a = o_enc b) /\
  o_left o = 0 /\
  (forall bo, base = Some bo ->
     (forall s rest, o_i o = s :: rest -> exists s0 rest0, o_i bo = s0 :: rest0 /\ ident_of s = ident_of s0) /\
     (forall s rest, o_r o = s :: rest -> exists s0 rest0, o_r bo = s0 :: rest0 /\ ident_of s = ident_of s0)) /\
  (length (o_i o) <= 1)%nat /\ (length (o_r o) <= 1)%nat.
Proof. exact monitor_run_nil. Qed.
Print Assumptions C01_monitor_means.

(** Non-vacuity: the hypotheses are satisfiable and the accepting paths are reachable. *)
Example C01_ex_honest_run_completes :
  match outcome (handshake honest_net w_a w_b w_fra w_frb 1 8738) with
  | (true, [sa], [sb]) =>
      negb (s_reserved sa) && negb (s_reserved sb) && crosswise sa sb &&
      (s_fab sa =? 1) && (s_peer sa =? 8738) && (s_fab sb =? 1) && (s_peer sb =? 4369) &&
      list_eqb N.eqb (s_cats sb) [65537]
  | _ => false
  end = true.
Proof. exact honest_handshake_completes. Qed.

Example C01_ex_nodes_well_formed : node_wf w_a /\ node_wf w_b.
Proof. exact initial_nodes_well_formed. Qed.

Example C01_ex_empty_node_backed : node_backed w_a.
Proof. split; [intros r []|intros s []]. Qed.

Example C01_ex_invalid_chain_rejected :
  outcome (handshake honest_net (mkNode [mkFabric 1 w_root w_bad_noc None 5 w_ipk 9 4369] [] [] 0 w_clock)
                     w_b w_fra w_frb 1 8738) = (false, [], []).
Proof. exact invalid_chain_rejected. Qed.

(** Non-vacuity of the Dolev-Yao theorems: a world, a run in which the attacker merely relays, both ends complete. *)
Example C01_ex_dy_world : dy_world relay_K0 [5; 6] d_ipk d_fab_a relay_run.
Proof. exact relay_world. Qed.
Example C01_ex_dy_sends : attacker_sends relay_K0 relay_run.
Proof. exact relay_sends. Qed.
Example C01_ex_dy_completes : initiator_completed relay_run /\ exists sb, responder_completed relay_run sb.
Proof. exact relay_completes. Qed.
Example C01_ex_dy_nodes_wf : node_wf d_a /\ node_wf d_b.
Proof. exact relay_nodes_wf. Qed.

(** What forging the final StatusReport achieves: an initiator-only session (Sigma3 destroyed, the responder's
    failure report rewritten into a success report). *)
Example C01_ex_forged_status :
  match outcome (handshake forge_status w_a w_b w_fra w_frb 1 8738) with
  | (true, [sa], []) => negb (s_reserved sa) && (s_peer sa =? 8738) && (s_fab sa =? 1)
  | _ => false
  end = true.
Proof. exact forged_status_gives_initiator_only_session. Qed.
