(** Property C02 — PASE admits only a peer that knows the passcode, only while
    a commissioning window is open.  Property theorems only.

    The model (Model/Pase.v) is the PASE responder and commissioning window of
    rs-matter as repaired by the two fix commits of branch verif-c02; SPAKE2+ is
    symbolic.  Every theorem quantifies over all operation sequences [l] from the
    initial state: window open / close / periodic check / passage of time,
    handshake messages of any content on any number of exchanges, handlers
    aborted at any point. *)
From RsM Require Import Model.Pase Model.PaseSpec Proofs.PaseFacts Proofs.PaseTheorems.
From Coq Require Import NArith List Bool.
Import ListNotations.
Open Scope N_scope.

(** A session is committed only by a step at which: the window is open and
    unexpired, it is the very window (same instance, same verifier) the
    exchange's PASEPake1 was answered for, the exchange owns the live
    in-progress marker, and the received confirmation is the one SPAKE2+
    defines for that window's verifier over this exchange's transcript. *)
Theorem C02_session_needs_open_window_and_proof : forall (l : list op) (o : op),
  let s := run init l in
  commits (fst (step s o)) <> commits s -> accepts s o.
Proof. exact session_needs_open_window_and_proof. Qed.
Print Assumptions C02_session_needs_open_window_and_proof.

(** Anything else leaves the committed sessions as they were. *)
Theorem C02_bad_input_no_session : forall (l : list op) (o : op),
  let s := run init l in
  ~ accepts s o -> commits (fst (step s o)) = commits s.
Proof. exact bad_input_no_session. Qed.
Print Assumptions C02_bad_input_no_session.

Theorem C02_committed_session_shape : forall (l : list op) (o : op),
  let s := run init l in
  commits (fst (step s o)) <> commits s ->
  exists e w tr p,
    win s = Some w /\ hs_get e (hs s) = Some (AwaitP3 (w_vf w) (w_gen w) tr p) /\
    commits (fst (step s o)) = commits s ++ [(p, w_vf w, tr, e)].
Proof. exact committed_session_shape. Qed.
Print Assumptions C02_committed_session_shape.

(** The bad inputs by name. *)
Theorem C02_wrong_passcode_no_session : forall (l : list op) e v t w,
  let s := run init l in
  win s = Some w -> vf_pw v <> vf_pw (w_vf w) ->
  commits (fst (step s (Msg e (MP3 (P3Conf (Ca v t)))))) = commits s.
Proof. exact wrong_passcode_no_session. Qed.
Print Assumptions C02_wrong_passcode_no_session.

Theorem C02_mutated_transcript_no_session : forall (l : list op) e v t vf g tr p,
  let s := run init l in
  hs_get e (hs s) = Some (AwaitP3 vf g tr p) -> t <> tr ->
  commits (fst (step s (Msg e (MP3 (P3Conf (Ca v t)))))) = commits s.
Proof. exact mutated_transcript_no_session. Qed.
Print Assumptions C02_mutated_transcript_no_session.

Theorem C02_other_value_no_session : forall (l : list op) e n,
  let s := run init l in
  commits (fst (step s (Msg e (MP3 (P3Conf (CaOther n)))))) = commits s.
Proof. exact other_value_no_session. Qed.
Print Assumptions C02_other_value_no_session.

Theorem C02_invalid_point_ends_handshake : forall (l : list op) e pt rq rs p,
  let s := run init l in
  hs_get e (hs s) = Some (AwaitP1 rq rs p) -> point_valid pt = false ->
  let s' := fst (step s (Msg e (MP1 (P1Point pt)))) in
  commits s' = commits s /\ hs_get e (hs s') = None.
Proof. exact invalid_point_ends_handshake. Qed.
Print Assumptions C02_invalid_point_ends_handshake.

Theorem C02_dead_exchange_no_session : forall (l : list op) e m,
  let s := run init l in
  hs_get e (hs s) = None -> (forall r, m <> MReq r) ->
  fst (step s (Msg e m)) = s.
Proof. exact dead_exchange_no_session. Qed.
Print Assumptions C02_dead_exchange_no_session.

Theorem C02_replayed_confirmation_no_session : forall (l : list op) e v t vf g tr p,
  let s := run init l in
  hs_get e (hs s) = Some (AwaitP3 vf g tr p) -> tr_pb t <> tr_pb tr ->
  commits (fst (step s (Msg e (MP3 (P3Conf (Ca v t)))))) = commits s.
Proof. exact replayed_confirmation_no_session. Qed.
Print Assumptions C02_replayed_confirmation_no_session.

Theorem C02_responder_share_is_fresh : forall (l : list op),
  let s := run init l in
  (forall e vf g tr p, hs_get e (hs s) = Some (AwaitP3 vf g tr p) -> tr_pb tr < nonce s) /\
  (forall x, In x (sessions s) -> tr_pb (s_tr x) < nonce s).
Proof. exact responder_share_is_fresh. Qed.
Print Assumptions C02_responder_share_is_fresh.

(** Failure accounting. *)
Theorem C02_failed_confirmation_pending : forall (l : list op) e c vf g tr p d w,
  let s := run init l in
  hs_get e (hs s) = Some (AwaitP3 vf g tr p) -> marker s = Some (e, d) -> now s <= d ->
  win s = Some w -> now s <= w_expiry w -> c <> Ca vf tr ->
  let '(s', r) := step s (Msg e (MP3 (P3Conf c))) in
  r = OStatus StInvalidParameter /\ hs_get e (hs s') = Some (AwaitAck false) /\
  win s' = win s /\ sessions s' = sessions s.
Proof. exact failed_confirmation_pending. Qed.
Print Assumptions C02_failed_confirmation_pending.

Theorem C02_failures_counted : forall (l : list op) e,
  let s := run init l in
  hs_get e (hs s) = Some (AwaitAck false) ->
  (forall m, win (fst (step s (Msg e m))) = match win s with Some w => bump w | None => None end) /\
  win (fst (step s (Abort e))) = match win s with Some w => bump w | None => None end.
Proof. exact pending_failure_counted. Qed.
Print Assumptions C02_failures_counted.

Theorem C02_immediate_failure_counted : forall (l : list op) e st0 m d w,
  let s := run init l in
  hs_get e (hs s) = Some st0 -> ends_at_once st0 m ->
  marker s = Some (e, d) -> now s <= d -> win s = Some w -> now s <= w_expiry w ->
  let s' := fst (step s (Msg e m)) in
  win s' = bump w /\ hs_get e (hs s') = None /\ sessions s' = sessions s.
Proof. exact immediate_failure_counted. Qed.
Print Assumptions C02_immediate_failure_counted.

Theorem C02_success_not_counted : forall (l : list op) e m,
  let s := run init l in
  hs_get e (hs s) = Some (AwaitAck true) ->
  let s' := fst (step s (Msg e m)) in
  win s' = win s /\ sessions s' = make_live (sessions s) e /\ marker s' = None.
Proof. exact success_not_counted. Qed.
Print Assumptions C02_success_not_counted.

Theorem C02_counter_moves_by_failures_only : forall (l : list op) (o : op),
  let s := run init l in let s' := fst (step s o) in
  (forall w, win s = Some w -> w_fail w < 20) /\
  (win s' = win s \/
   (exists w, win s = Some w /\ win s' = bump w) \/
   win s' = None \/
   (win s = None /\ exists w', win s' = Some w' /\ w_fail w' = 0)).
Proof. exact counter_moves_by_failures_only. Qed.
Print Assumptions C02_counter_moves_by_failures_only.

Theorem C02_revoked_exactly_at_twenty : forall w,
  w_fail w < 20 -> (bump w = None <-> w_fail w = 19).
Proof. exact bump_none. Qed.
Print Assumptions C02_revoked_exactly_at_twenty.

(** One handshake at a time. *)
Theorem C02_single_handshake : forall (l : list op) e1 d e2 r,
  let s := run init l in
  marker s = Some (e1, d) -> now s <= d -> e2 <> e1 -> hs_get e2 (hs s) = None ->
  step s (Msg e2 (MReq r)) = (s, OStatus StBusy).
Proof. exact second_initiator_busy. Qed.
Print Assumptions C02_single_handshake.

Theorem C02_first_handshake_undisturbed : forall (l : list op) (k : list op) e1 d,
  let s := run init l in
  marker s = Some (e1, d) -> now s <= d -> no_foreign_ack s e1 -> Forall (foreign e1) k ->
  let s' := run s k in
  marker s' = marker s /\ win s' = win s /\ sessions s' = sessions s /\
  hs_get e1 (hs s') = hs_get e1 (hs s) /\ now s' = now s /\ nonce s' = nonce s.
Proof. exact first_handshake_undisturbed. Qed.
Print Assumptions C02_first_handshake_undisturbed.

(** Advertised as commissionable iff a window is present; a present window is
    unexpired up to the time since the last periodic check. *)
Theorem C02_advertised_iff_open : forall (l : list op),
  let s := run init l in
  (advertised s = true <-> exists w, win s = Some w) /\
  (forall w, win s = Some w -> now s <= w_expiry w + since_poll s).
Proof. exact advertised_iff_open. Qed.
Print Assumptions C02_advertised_iff_open.

Theorem C02_polled_window_unexpired : forall (l : list op),
  let s := fst (step (run init l) Poll) in
  since_poll s = 0 /\ forall w, win s = Some w -> now s <= w_expiry w.
Proof. exact polled_window_unexpired. Qed.
Print Assumptions C02_polled_window_unexpired.

Theorem C02_advertised_at_most_polling_period_late : forall (P : N) (l : list op),
  polled_within P 0 l ->
  let s := run init l in
  forall w, win s = Some w -> now s <= w_expiry w + P.
Proof. exact advertised_at_most_polling_period_late. Qed.
Print Assumptions C02_advertised_at_most_polling_period_late.

(** * Non-vacuity: the hypotheses are satisfiable, the protocol can succeed *)

Definition vf1 : verifier := mkVf 1 1 32 2000.
Definition honest_p3 (e : N) (rq rs pb : N) : op :=
  Msg e (MP3 (P3Conf (Ca vf1 (mkTr rq rs (PtValid 7) pb)))).
Definition start : list op :=
  [Open true vf1 300; Msg 1 (MReq (mkReq 1000 RqOk 2001)); Msg 1 (MP1 (P1Point (PtValid 7)))].

(** An honest handshake commits a session, usable after the acknowledgement, and is not counted. *)
Example honest_handshake_succeeds :
  let s := run init (start ++ [honest_p3 1 1000 1 2; Msg 1 MAck]) in
  map (fun x => (s_peer x, s_live x)) (sessions s) = [(2001, true)] /\
  option_map w_fail (win s) = Some 0 /\ marker s = None /\ fs_armed s = true.
Proof. vm_compute. auto. Qed.

Example accepts_is_satisfiable : accepts (run init start) (honest_p3 1 1000 1 2).
Proof.
  exists 1, (Ca vf1 (mkTr 1000 1 (PtValid 7) 2)), (mkWin vf1 true 300000 0 1),
         (mkTr 1000 1 (PtValid 7) 2), 2001, 60000.
  vm_compute. repeat split; try reflexivity; discriminate.
Qed.

(** DESIGN section 8-F2, on the repaired model: a window closed, expired, or closed and
    re-opened with another passcode between PASEPake1 and PASEPake3 yields no session. *)
Example f2_window_closed_between :
  commits (run init (start ++ [Close; honest_p3 1 1000 1 2; Msg 1 MAck])) = [].
Proof. vm_compute. reflexivity. Qed.

Example f2_window_expired_between :
  commits (run init (start ++ [Advance 300001; honest_p3 1 1000 1 2; Msg 1 MAck])) = [].
Proof. vm_compute. reflexivity. Qed.

Example f2_window_expired_marker_live :
  commits (run init ([Open true vf1 180; Advance 175000; Msg 1 (MReq (mkReq 1000 RqOk 2001));
                      Msg 1 (MP1 (P1Point (PtValid 7))); Advance 6000;
                      honest_p3 1 1000 1 2; Msg 1 MAck])) = [].
Proof. vm_compute. reflexivity. Qed.

Example f2_window_reopened_between :
  commits (run init (start ++ [Close; Open true (mkVf 2 2 16 2000) 300; honest_p3 1 1000 1 2; Msg 1 MAck])) = [].
Proof. vm_compute. reflexivity. Qed.

(** Twenty failed attempts revoke the window; nineteen do not. *)
Fixpoint attempts (n : nat) (e : N) : list op :=
  match n with
  | O => []
  | S k => [Msg e (MReq (mkReq e RqOk e)); Msg e (MP1 (P1Point (PtValid 7)));
            Msg e (MP3 (P3Conf (CaOther 0))); Msg e MAck] ++ attempts k (e + 1)
  end.

Example nineteen_failures_keep_window :
  option_map w_fail (win (run init (Open true vf1 300 :: attempts 19 1))) = Some 19.
Proof. vm_compute. reflexivity. Qed.

Example twenty_failures_revoke_window :
  win (run init (Open true vf1 300 :: attempts 20 1)) = None /\
  advertised (run init (Open true vf1 300 :: attempts 20 1)) = false.
Proof. vm_compute. auto. Qed.

(** A second initiator is answered Busy at every stage of the first. *)
Example busy_at_every_stage :
  snd (step (run init [Open true vf1 300; Msg 1 (MReq (mkReq 1000 RqOk 2001))]) (Msg 2 (MReq (mkReq 5 RqOk 9)))) = OStatus StBusy /\
  snd (step (run init start) (Msg 2 (MReq (mkReq 5 RqOk 9)))) = OStatus StBusy /\
  snd (step (run init (start ++ [honest_p3 1 1000 1 2])) (Msg 2 (MReq (mkReq 5 RqOk 9)))) = OStatus StBusy.
Proof. vm_compute. auto. Qed.

(** Observation (not excluded from the model, outside C02_first_handshake_undisturbed): a handler that lost
    the marker by the 60 s deadline and is then aborted (its exchange or session dropped) clears the marker of
    the newer handshake and is counted as a failure; the newer handshake is answered SessionNotFound. *)
Example stale_abort_disturbs_newer_handshake :
  let s := run init (start ++ [Advance 61000; Msg 2 (MReq (mkReq 5 RqOk 9)); Abort 1]) in
  marker s = None /\ option_map w_fail (win s) = Some 1 /\
  snd (step s (Msg 2 (MP1 (P1Point (PtValid 8))))) = OStatus StSessionNotFound.
Proof. vm_compute. auto. Qed.

(** The model's own runs satisfy the executable property (sample; the check runs it on every generated case). *)
Example monitor_accepts_model_run :
  let l := [SOpen true 1 1 32 2000 300; SReq 1 RqOk 0 true; SP1 1 1 PcOwn 0; SP3 1 CcOwn true; SAck 1;
            SReq 2 RqOk 0 true; SP1 2 2 PcOwn 0; SP3 2 CcOwn true; SAck 2] in
  c02_holds (combine l (script_run init ist0 l)) = true.
Proof. vm_compute. reflexivity. Qed.

(** What the first theorem excludes, as an observation the executable property refuses:
    the unrepaired behaviour (a session although the window was closed before PASEPake3). *)
Example monitor_refuses_f2 :
  c02_holds
    [(SOpen true 1 1 32 2000 300, (OOk, mkObs (Some (0, false)) None [] false true));
     (SReq 1 RqOk 0 true, (OResp 1 (Some vf1), mkObs (Some (0, false)) (Some (1, false)) [] false true));
     (SP1 1 1 PcOwn 0, (OPake2 2, mkObs (Some (0, false)) (Some (1, false)) [] false true));
     (SClose, (OClosed true, mkObs None (Some (1, false)) [] false false));
     (SP3 1 CcOwn true, (OStatus StSuccess, mkObs None (Some (1, false)) [(2001, false)] true false))] = false.
Proof. vm_compute. reflexivity. Qed.
