(** Property C07 - nothing bound to a fabric outlives that fabric.
    Property theorems only.

    Model: Model/Lifecycle.v (fabric.rs, failsafe.rs, noc.rs, gen_comm.rs, adm_comm.rs,
    session.rs, resumption.rs, responder.rs, im.rs, lib.rs transcribed, with the four repairs
    made for this property; [step_fx] can switch each repair off).
    Vocabulary: Model/LifecycleSpec.v ([bound_to_incarnation], [gone], [unreferenced],
    [bound_b], [others_*], [removes], [monitor]); the inductive invariant [Inv] is in
    Proofs/LifecycleInv.v.

    Ghost state: every fabric creation draws a fresh incarnation number; sessions, resumption
    records and subscriptions carry the incarnation they were created under.  The property
    says that whatever refers to a fabric INDEX refers to the incarnation living there now. *)
From Coq Require Import NArith List Bool.
From RsM Require Import Model.Lifecycle Model.LifecycleSpec
  Proofs.LifecycleFacts Proofs.LifecycleInv Proofs.LifecycleTheorems Proofs.LifecycleWitness.
(* -- *)
Import ListNotations.
Open Scope N_scope.

(** ** The invariant: holds initially, kept by every operation, implies the property *)
Theorem C07_invariant_init : forall kind pase, Inv (init_state kind pase).
Proof. exact invariant_init. Qed.
Print Assumptions C07_invariant_init.

Theorem C07_invariant_step : forall st o, Inv st -> Inv (fst (step st o)).
Proof. exact invariant_step. Qed.
Print Assumptions C07_invariant_step.

Theorem C07_invariant_exec : forall st ops, Inv st -> Inv (exec st ops).
Proof. exact invariant_exec. Qed.
Print Assumptions C07_invariant_exec.

Theorem C07_inv_bound : forall st, Inv st -> bound_to_incarnation st.
Proof. exact inv_bound. Qed.
Print Assumptions C07_inv_bound.

(** ** The property, after any sequence of operations *)
Theorem C07_bound_to_incarnation : forall st ops, Inv st -> bound_to_incarnation (exec st ops).
Proof. exact bound_to_incarnation_all. Qed.
Print Assumptions C07_bound_to_incarnation.

Theorem C07_bound_to_incarnation_init :
  forall kind pase ops, bound_to_incarnation (exec (init_state kind pase) ops).
Proof. exact bound_to_incarnation_init. Qed.
Print Assumptions C07_bound_to_incarnation_init.

(** once an incarnation is gone it stays gone and nothing usable refers to it, whatever happens *)
Theorem C07_no_use_after_removal :
  forall st ops c, Inv st -> gone st c ->
    gone (exec st ops) c /\ unreferenced (exec st ops) c.
Proof. exact no_use_after_removal. Qed.
Print Assumptions C07_no_use_after_removal.

(** RemoveFabric answered OK: the incarnation that lived at index i is gone *)
Theorem C07_removed_is_gone :
  forall st sid i f, Inv st -> fget i (st_fabs st) = Some f ->
    snd (step st (ORemove sid i)) = StOk ->
    gone (fst (step st (ORemove sid i))) (f_inc f).
Proof. exact removed_is_gone. Qed.
Print Assumptions C07_removed_is_gone.

(** fail-safe expiry (timer, ArmFailSafe(0), RevokeCommissioning) answered OK while the fabric
    of the context has no persisted copy: its incarnation is gone *)
Theorem C07_rolled_back_is_gone :
  forall st o i fl f, Inv st -> is_expiry o = true -> st_fs st = Armed i fl -> i <> 0 ->
    fget i (st_fabs st) = Some f -> fget i (st_kvfabs st) = None ->
    snd (step st o) = StOk ->
    gone (fst (step st o)) (f_inc f).
Proof. exact rolled_back_is_gone. Qed.
Print Assumptions C07_rolled_back_is_gone.

(** whatever sits on a fabric index belongs to the fabric living there NOW *)
Theorem C07_index_reuse_safe :
  forall st ops i f, Inv st -> fget i (st_fabs (exec st ops)) = Some f ->
    (forall s, In s (st_sess (exec st ops)) -> usable s = true -> s_fab s = i -> i <> 0 -> s_inc s = f_inc f) /\
    (forall r, In r (st_recs (exec st ops)) -> r_fab r = i -> r_inc r = f_inc f) /\
    (forall u, In u (st_subs (exec st ops)) -> u_fab u = i -> u_inc u = f_inc f).
Proof. exact index_reuse_safe. Qed.
Print Assumptions C07_index_reuse_safe.

(** ** Nothing is left behind: the tight form (reserved handshake slots included) *)
Theorem C07_nothing_left_behind_all : forall st ops, Inv st -> nothing_left_behind (exec st ops).
Proof. exact nothing_left_behind_all. Qed.
Print Assumptions C07_nothing_left_behind_all.

Theorem C07_tight_b_correct : forall st, tight_b st = true <-> nothing_left_behind st.
Proof. exact tight_b_correct. Qed.
Print Assumptions C07_tight_b_correct.

Theorem C07_left_behind_free_bound :
  forall st, nothing_left_behind st ->
    (forall s, In s (st_sess st) -> usable s = true -> sess_bound st s) /\
    (forall r, In r (st_recs st) -> rec_bound (st_fabs st) r) /\
    (forall u, In u (st_subs st) -> sub_bound (st_fabs st) u).
Proof. exact left_behind_free_bound. Qed.
Print Assumptions C07_left_behind_free_bound.

(** RemoveFabric answered OK: every session slot left on index i (reserved or not) is the
    expired one the command arrived on *)
Theorem C07_removal_purges_slots :
  forall st sid i st', step st (ORemove sid i) = (st', StOk) ->
    forall x, In x (st_sess st') -> s_fab x = i -> s_exp x = true.
Proof. exact removal_purges_slots. Qed.
Print Assumptions C07_removal_purges_slots.

Theorem C07_rollback_purges_slots :
  forall st o i fl, Inv st -> is_expiry o = true -> st_fs st = Armed i fl -> i <> 0 ->
    fget i (st_kvfabs st) = None -> snd (step st o) = StOk ->
    forall x, In x (st_sess (fst (step st o))) -> s_fab x = i -> s_exp x = true.
Proof. exact rollback_purges_slots. Qed.
Print Assumptions C07_rollback_purges_slots.

(** the last step of a handshake whose slot was purged does nothing *)
Theorem C07_finish_after_removal_void :
  forall st sid, sget sid (st_sess st) = None ->
    step st (OFinishFull sid) = (st, StGone) /\ step st (OFinishResume sid) = (st, StGone).
Proof. exact finish_after_removal_void. Qed.
Print Assumptions C07_finish_after_removal_void.

(** a completed resumption rotates the record of a slot whose fabric is live, same incarnation *)
Theorem C07_finish_only_live :
  forall st sid st', Inv st -> step st (OFinishResume sid) = (st', StOk) ->
    exists s f, sget sid (st_sess st) = Some s /\ s_res s = true /\
                fget (s_fab s) (st_fabs st) = Some f /\ f_inc f = s_inc s.
Proof. exact finish_only_live. Qed.
Print Assumptions C07_finish_only_live.

(** ** ... not in the store either, and no incarnation ever comes back *)
Theorem C07_store_tight_all : forall st ops, Inv st -> store_tight (exec st ops).
Proof. exact store_tight_all. Qed.
Print Assumptions C07_store_tight_all.

Theorem C07_store_tight_b_correct : forall st, store_tight_b st = true <-> store_tight st.
Proof. exact store_tight_b_correct. Qed.
Print Assumptions C07_store_tight_b_correct.

Theorem C07_incarnation_never_returns :
  forall st ops c, Inv st -> c < st_ninc st -> (forall f, In f (st_fabs st) -> f_inc f <> c) ->
    forall f, In f (st_fabs (exec st ops)) -> f_inc f <> c.
Proof. exact incarnation_never_returns. Qed.
Print Assumptions C07_incarnation_never_returns.

(** after RemoveFabric answered OK neither a stored copy of the fabric nor a stored record of
    its index is left: nothing an expiry or a restart could reload *)
Theorem C07_removed_not_reloadable :
  forall st sid i f st', Inv st -> fget i (st_fabs st) = Some f ->
    step st (ORemove sid i) = (st', StOk) ->
    fget i (st_kvfabs st') = None /\ (forall r, In r (st_kvrecs st') -> r_fab r <> i).
Proof. exact removed_not_reloadable. Qed.
Print Assumptions C07_removed_not_reloadable.

(** ** A subscription that gets into the table after the removal broadcast of its fabric
    (accepted on the session the expiry / RemoveFabric keeps for its answer) is purged *)
Theorem C07_late_subscription_purged_due :
  forall st sid, Inv st -> nothing_left_behind (fst (step st (OSubscribeDue sid))).
Proof. exact late_subscription_purged_due. Qed.
Print Assumptions C07_late_subscription_purged_due.

Theorem C07_late_subscription_purged_remove :
  forall st sid i, Inv st -> nothing_left_behind (fst (step st (OSubscribeRemove sid i))).
Proof. exact late_subscription_purged_remove. Qed.
Print Assumptions C07_late_subscription_purged_remove.

Theorem C07_purge_drops_fabricless :
  forall st u, In u (st_subs (purge st)) -> has_fab (st_fabs st) (u_fab u) = true.
Proof. exact purge_drops_fabricless. Qed.
Print Assumptions C07_purge_drops_fabricless.

(** ** Use *)
(** a request answered OK travelled on a usable session of the current incarnation and
    touched no other fabric index *)
Theorem C07_request_only_own_incarnation :
  forall st sid k st', Inv st -> step st (ORequest sid k) = (st', StOk) ->
    exists s f, sget sid (st_sess st) = Some s /\ usable s = true /\ s_fab s <> 0 /\
                fget (s_fab s) (st_fabs st) = Some f /\ f_inc f = s_inc s /\
                (forall j, j <> s_fab s -> fget j (st_fabs st') = fget j (st_fabs st)).
Proof. exact request_only_own_incarnation. Qed.
Print Assumptions C07_request_only_own_incarnation.

(** a request on a session created under an incarnation that is gone is refused and changes nothing *)
Theorem C07_stale_request_refused :
  forall st s k, Inv st -> In s (st_sess st) -> s_fab s <> 0 -> gone st (s_inc s) ->
    step st (ORequest (s_id s) k) = (st, StGone).
Proof. exact stale_request_refused. Qed.
Print Assumptions C07_stale_request_refused.

(** a resumption answered OK used a record of the current incarnation *)
Theorem C07_resume_only_current :
  forall st k st', Inv st -> step st (OResume k) = (st', StOk) ->
    exists r f, rget k (st_recs st) = Some r /\ fget (r_fab r) (st_fabs st) = Some f /\
                f_inc f = r_inc r.
Proof. exact resume_only_current. Qed.
Print Assumptions C07_resume_only_current.

(** ** Frame: an operation that makes index i disappear leaves everything of the other
    indices alone (expiries also drop the PASE sessions) *)
Theorem C07_others_unaffected :
  forall st o st' i pase, Inv st -> step st o = (st', StOk) -> removes st o = Some (i, pase) ->
    others_sess i pase (st_sess st') = others_sess i pase (st_sess st) /\
    others_recs i (st_recs st') = others_recs i (st_recs st) /\
    others_subs i (st_subs st') = others_subs i (st_subs st) /\
    fdel i (st_fabs st') = fdel i (st_fabs st) /\
    fdel i (st_kvfabs st') = fdel i (st_kvfabs st).
Proof. exact others_unaffected. Qed.
Print Assumptions C07_others_unaffected.

(** ** The executable forms used by the check *)
Theorem C07_bound_b_correct : forall st, bound_b st = true <-> bound_to_incarnation st.
Proof. exact bound_b_correct. Qed.
Print Assumptions C07_bound_b_correct.

Theorem C07_monitor_model_clean :
  forall st ops, Inv st -> monitor st (combine ops (snd (run st ops))) = [].
Proof. exact monitor_model_clean. Qed.
Print Assumptions C07_monitor_model_clean.

(** ** Each repair is necessary (concrete runs of the unrepaired variants) *)
Theorem C07_unrepaired_F3_sessions :
  exists ops, sessions_ok (exec_fx (mkFixes false true true true) (init_state 2 true) ops) = false.
Proof. exact unrepaired_F3_sessions. Qed.
Print Assumptions C07_unrepaired_F3_sessions.

Theorem C07_unrepaired_F3_records :
  exists ops, records_ok (exec_fx (mkFixes true false true true) (init_state 2 true) ops) = false.
Proof. exact unrepaired_F3_records. Qed.
Print Assumptions C07_unrepaired_F3_records.

Theorem C07_unrepaired_subscriptions :
  exists ops, subs_ok (exec_fx (mkFixes true false true true) (init_state 2 true) ops) = false.
Proof. exact unrepaired_subscriptions. Qed.
Print Assumptions C07_unrepaired_subscriptions.

Theorem C07_unrepaired_F4_persisted :
  exists ops, kvrecords_ok (exec_fx (mkFixes true false true true) (init_state 2 true) ops) = false.
Proof. exact unrepaired_F4_persisted. Qed.
Print Assumptions C07_unrepaired_F4_persisted.

Theorem C07_unrepaired_F4_startup :
  exists ops, records_ok (exec_fx (mkFixes true true false true) (init_state 2 true) ops) = false.
Proof. exact unrepaired_F4_startup. Qed.
Print Assumptions C07_unrepaired_F4_startup.

Theorem C07_unrepaired_startup_subs :
  exists ops, subs_ok (exec_fx (mkFixes true true true false) (init_state 2 true) ops) = false.
Proof. exact unrepaired_startup_subs. Qed.
Print Assumptions C07_unrepaired_startup_subs.

(** ** Non-vacuity *)
(** the invariant is satisfiable *)
Example inv_satisfiable : Inv (init_state 2 true).
Proof. apply invariant_init. Qed.

(** after the rollback / index-reuse run on the repaired model the session opened on the
    rolled-back fabric (name 4) is refused *)
Example stale_session_refused_after_reuse :
  snd (step (exec (init_state 2 true) ops_rollback_reuse) (ORequest 4 9)) = StGone /\
  has_fab (st_fabs (exec (init_state 2 true) ops_rollback_reuse)) 3 = true.
Proof. vm_compute. split; reflexivity. Qed.

(** [gone] is inhabited: RemoveFabric(2) on the administrator's session of fabric 1 *)
Example gone_after_remove : gone (fst (step (init_state 2 true) (ORemove 2 2))) 2.
Proof.
  apply (removed_is_gone (init_state 2 true) 2 2 (mkFabric 2 2 1 0));
    [apply invariant_init|reflexivity|vm_compute; reflexivity].
Qed.

(** the frame clause is exercised: [removes] names an index on a step answered OK *)
Example removes_on_ok_step :
  removes (init_state 2 true) (ORemove 2 2) = Some (2, false) /\
  snd (step (init_state 2 true) (ORemove 2 2)) = StOk.
Proof. vm_compute. split; reflexivity. Qed.

(** the hypotheses of [C07_rolled_back_is_gone] are satisfiable (fabric 3 staged, timer fires) *)
Example rollback_hyps_satisfiable :
  exists st i fl f, Inv st /\ st_fs st = Armed i fl /\ i <> 0 /\
    fget i (st_fabs st) = Some f /\ fget i (st_kvfabs st) = None /\ snd (step st OTimeout) = StOk.
Proof.
  exists (exec (init_state 2 true) [OArm 1; OAddNoc 1 7]), 3. eexists. eexists.
  split; [apply invariant_exec; apply invariant_init|].
  vm_compute. repeat split; try reflexivity. discriminate.
Qed.

(** the hypotheses of [C07_stale_request_refused] are satisfiable: the session RemoveFabric
    arrived on (name 3, on the removed fabric 2) stays in the table, expired *)
Example stale_hyps_satisfiable :
  let st := fst (step (init_state 2 true) (ORemove 3 2)) in
  let s := mkSess 3 MCase 2 ADMIN true false 2 in
  Inv st /\ In s (st_sess st) /\ s_fab s <> 0 /\ gone st (s_inc s).
Proof.
  cbv zeta. split; [apply invariant_step; apply invariant_init|].
  split; [vm_compute; auto|]. split; [discriminate|].
  apply (removed_is_gone (init_state 2 true) 3 2 (mkFabric 2 2 1 0));
    [apply invariant_init|reflexivity|vm_compute; reflexivity].
Qed.

(** a handshake caught in its last step: the administrator of fabric 2 (root 1) opens a
    session (name 4, record 1), starts a resumption (reserved slot 5); the administrator of
    fabric 1 removes fabric 2; SigmaFinished then finds no slot, and nothing is left behind *)
Example finish_after_remove_is_void :
  let ops := [OEstablish 1; OResumeBegin 1; ORemove 2 2] in
  map fst (snd (run (init_state 2 true) ops)) = [StOk; StOk; StOk] /\
  snd (step (exec (init_state 2 true) ops) (OFinishResume 5)) = StGone /\
  tight_b (fst (step (exec (init_state 2 true) ops) (OFinishResume 5))) = true /\
  (* without the removal the slot is there and the record is rotated *)
  snd (step (exec (init_state 2 true) [OEstablish 1; OResumeBegin 1]) (OFinishResume 5)) = StOk.
Proof. vm_compute. repeat split; reflexivity. Qed.

(** the fail-safe is armed over the CASE session of the committed fabric 2, fabric 2 is
    removed on that session, then the timer fires: index 2 stays empty (no stored copy is
    left to resurrect) and nothing refers to it, in RAM or in the store *)
Example remove_then_expiry_stays_removed :
  let ops := [OArm 3; ORemove 3 2; OTimeout] in
  map fst (snd (run (init_state 2 true) ops)) = [StOk; StOk; StOk] /\
  has_fab (st_fabs (exec (init_state 2 true) ops)) 2 = false /\
  has_fab (st_kvfabs (exec (init_state 2 true) ops)) 2 = false /\
  store_tight_b (exec (init_state 2 true) ops) = true /\
  tight_b (exec (init_state 2 true) ops) = true /\
  monitor (init_state 2 true) (combine ops (snd (run (init_state 2 true) ops))) = [].
Proof. vm_compute. repeat split; reflexivity. Qed.

(** a SubscribeRequest arrives on the CASE session (name 4) of the staged fabric 3 when the
    fail-safe timer is due: the rollback removes fabric 3 and keeps session 4, expired; the
    subscription is accepted on it ([st_nsub] advances) and purged at once *)
Example late_subscription_is_purged :
  let ops := [OArm 1; OAddNoc 1 7; OEstablish 7; OSubscribeDue 4] in
  let st := exec (init_state 2 true) ops in
  map fst (snd (run (init_state 2 true) ops)) = [StOk; StOk; StOk; StOk] /\
  has_fab (st_fabs st) 3 = false /\
  sget 4 (st_sess st) = Some (mkSess 4 MCase 3 ADMIN true false 3) /\
  st_subs st = [] /\ st_nsub st = 2 /\ tight_b st = true.
Proof. vm_compute. repeat split; reflexivity. Qed.
