(** Property C04 — a message counter is accepted at most once per secure
    peer; newer ones always.  Property theorems only. *)
From RsM Require Import Lib.MachInt Model.Dedup Model.DedupSpec Model.DedupRx
  Proofs.DedupFacts Proofs.DedupTheorems Proofs.DedupGroup Proofs.DedupRx.
Open Scope N_scope.

(** Secure unicast session, every finite history from the fresh state. *)

Theorem C04_never_twice : forall (s : rx) (h : list N),
  NoDup (accepted true false s h).
Proof. exact never_twice. Qed.
Print Assumptions C04_never_twice.

Theorem C04_accept_iff : forall (h : list N) (v : N),
  snd (post_recv (final true false rx_unsynced h) v true false) = true <->
  (~ In v (accepted true false rx_unsynced h) /\
   forall a, In a (accepted true false rx_unsynced h) -> a <= v + 16).
Proof. exact accept_iff. Qed.
Print Assumptions C04_accept_iff.

Theorem C04_too_old_rejected : forall (h : list N) (v a : N),
  In a (accepted true false rx_unsynced h) -> v + 16 < a ->
  snd (post_recv (final true false rx_unsynced h) v true false) = false.
Proof. exact too_old_rejected. Qed.
Print Assumptions C04_too_old_rejected.

Theorem C04_newer_accepted : forall (h : list N) (v : N),
  (forall a, In a (accepted true false rx_unsynced h) -> a < v) ->
  snd (post_recv (final true false rx_unsynced h) v true false) = true.
Proof. exact newer_accepted. Qed.
Print Assumptions C04_newer_accepted.

Theorem C04_in_window_fresh_accepted : forall (h : list N) (v : N),
  ~ In v (accepted true false rx_unsynced h) ->
  (forall a, In a (accepted true false rx_unsynced h) -> a <= v + 16) ->
  snd (post_recv (final true false rx_unsynced h) v true false) = true.
Proof. exact in_window_fresh_accepted. Qed.
Print Assumptions C04_in_window_fresh_accepted.

Theorem C04_accepted_exactly_once : forall (h1 h2 : list N) (v : N),
  snd (post_recv (final true false rx_unsynced h1) v true false) = true ->
  snd (post_recv (final true false rx_unsynced (h1 ++ v :: h2)) v true false) = false.
Proof. exact accepted_exactly_once. Qed.
Print Assumptions C04_accepted_exactly_once.

(** The model computes the executable specification (the monitor that
    is run on the implementation's own outputs). *)
Theorem C04_model_meets_spec : forall h : list N,
  fst (run true false rx_unsynced h) = spec_run [] h.
Proof. exact model_meets_spec. Qed.
Print Assumptions C04_model_meets_spec.

(** Unsecured session: a restart of the peer's counter is accepted. *)
Theorem C04_unsecured_restart_accepted : forall (s : rx) (v : N),
  synced s = true -> v + 16 < max_ctr s ->
  post_recv s v false false = (mkRx true v 65535, true).
Proof. exact unsecured_restart_accepted. Qed.
Print Assumptions C04_unsecured_restart_accepted.

(** Tracked group sender (modular comparison), true counters within
    half the ring. *)
Theorem C04_group_refines_unbounded : forall (lo : N) (H : list N) (s : rx),
  synced s = true -> lo <= max_ctr s < lo + two31 -> in_band lo H ->
  run true true (wrap_rx s) (map wrap32 H) =
  (fst (run true false s H), wrap_rx (snd (run true false s H))).
Proof. exact group_refines_unbounded. Qed.
Print Assumptions C04_group_refines_unbounded.

Theorem C04_group_never_twice : forall (lo first : N) (H : list N),
  lo <= first < lo + two31 -> in_band lo H ->
  let flags := fst (run true true (rx_new (wrap32 first)) (map wrap32 H)) in
  NoDup (map fst (filter snd (combine H flags))).
Proof. exact group_never_twice. Qed.
Print Assumptions C04_group_never_twice.

Theorem C04_group_sender_clauses : forall (lo first : N) (H : list N),
  lo <= first < lo + two31 -> in_band lo H ->
  group_clauses [first] H
    (fst (run true true (rx_new (wrap32 first)) (map wrap32 H))) = true.
Proof. exact group_sender_clauses. Qed.
Print Assumptions C04_group_sender_clauses.

(** Group counter store: every reachable store keeps at most 16 pairwise
    distinct senders; a step for a tracked sender is exactly a window step
    on that sender's state and touches no other sender; a new sender is
    trusted first, and displaces another sender only when the store is
    full, and then the least recently used one. *)
Theorem C04_group_store_invariant : forall ops : list (N * N * N),
  GInv (g_run gstore_new ops).
Proof. exact ginv_reachable. Qed.
Print Assumptions C04_group_store_invariant.

Theorem C04_group_store_tracked : forall st f n c e,
  g_lookup (g_entries st) f n = Some e ->
  snd (g_post_recv st f n c) = snd (post_recv (g_rx e) c true true) /\
  option_map g_rx (g_lookup (g_entries (fst (g_post_recv st f n c))) f n) =
    Some (fst (post_recv (g_rx e) c true true)) /\
  (forall f2 n2, ~ (f2 = f /\ n2 = n) ->
     g_lookup (g_entries (fst (g_post_recv st f n c))) f2 n2 =
     g_lookup (g_entries st) f2 n2).
Proof. exact g_tracked_sender. Qed.
Print Assumptions C04_group_store_tracked.

Theorem C04_group_store_new_sender : forall st f n c,
  GInv st -> g_lookup (g_entries st) f n = None ->
  snd (g_post_recv st f n c) = true /\
  option_map g_rx (g_lookup (g_entries (fst (g_post_recv st f n c))) f n) = Some (rx_new c) /\
  (forall f2 n2, ~ (f2 = f /\ n2 = n) ->
     g_lookup (g_entries (fst (g_post_recv st f n c))) f2 n2 = g_lookup (g_entries st) f2 n2 \/
     (length (g_entries st) = MAX_GROUP_CTR_ENTRIES /\
      g_lookup (g_entries (fst (g_post_recv st f n c))) f2 n2 = None /\
      exists ev, g_lookup (g_entries st) f2 n2 = Some ev /\
                 forall x, In x (g_entries st) -> g_last ev <= g_last x)).
Proof. exact g_new_sender. Qed.
Print Assumptions C04_group_store_new_sender.

(** Non-vacuity: concrete histories meeting the hypotheses. *)
Example C04_ex_overtaken :
  fst (run true false rx_unsynced [100; 120; 119; 119; 104; 103]) =
  [true; true; true; false; true; false].
Proof. vm_compute. reflexivity. Qed.

Example C04_ex_group_band :
  in_band 4294967290 [4294967295; 4294967296; 4294967301; 4294967301] /\
  fst (run true true (rx_new (wrap32 4294967290))
         (map wrap32 [4294967295; 4294967296; 4294967301; 4294967301])) =
  [true; true; true; false].
Proof.
  split; [|vm_compute; reflexivity].
  repeat constructor; vm_compute; congruence.
Qed.

(** The group receive path (Model/DedupRx.v: the group counter store plus
    the ephemeral sessions of senders, kept or dropped after every message):
    for every sequence of authenticated group data messages the sender table
    evolves exactly as if there were no sessions, and the path accepts only
    what the sender's group counter window accepts - so the sender clauses
    above are not weakened by sessions coming and going.  (Before the repair
    the counters that reached a live session were never recorded: the
    [Example] replays them.) *)
Theorem C04_group_path_accepts_only_what_store_accepts : forall (ms : list gmsg) (s : grx),
  Forall2 (fun p q => p = true -> q = true) (path_flags s ms) (store_flags (gx_store s) ms).
Proof. exact path_accepts_only_what_store_accepts. Qed.
Print Assumptions C04_group_path_accepts_only_what_store_accepts.

Theorem C04_group_path_flags : forall (s : grx) (ms : list gmsg),
  snd (grx_run grx_recv s ms) = path_flags s ms.
Proof. exact grx_run_flags. Qed.
Print Assumptions C04_group_path_flags.

Example C04_replay_through_session_before_fix :
  let ms := [(1, 7000, 257, 10, true); (1, 7000, 257, 11, true); (1, 7000, 257, 12, false);
             (1, 7000, 257, 11, false); (1, 7000, 257, 12, false); (1, 7000, 257, 10, false)] in
  snd (grx_run grx_recv_old grx_new ms) = [true; true; true; true; true; false] /\
  snd (grx_run grx_recv grx_new ms) = [true; true; true; false; false; false].
Proof. exact replay_through_session_before_fix. Qed.
